import sys, itertools, collections, time
# Phase-ordered ("view-synchronous") discipline over the abstract model of est.py.
# Global phase g=(view, step) with steps: 0 CATCHUP/PROPOSE, 1 VOTE, 2 COLLECT1 (cqc or timeout), 3 COLLECT2 (after timeout: cqc/tqc/stay)
exec(open('est.py').read().split("def succ(state):")[0])
CONF = sys.argv[3] if len(sys.argv)>3 else 'K4'
if CONF=='K6':
    W = {'a':1,'b':1,'c':1,'d':1,'e':1,'z':1}; CORRECT=['a','b','c','d','e']
NR=len(CORRECT)
def succ2(state):
    locs, pool, g, acted = state
    gv, step = g
    res=[]
    cqcs = formable_cqcs(pool)
    def emit(i, l, out):
        if l is None: return
        nl=list(locs); nl[i]=l; na=list(acted); na[i]=True
        res.append((tuple(nl), pool|frozenset(out), g, tuple(na)))
    # advance phase (everyone who has not acted skips)
    if step<3: ng=(gv,step+1)
    else: ng=(gv+1,0)
    if ng[0]<=V: res.append((locs,pool,ng,tuple([False]*NR)))
    for i,r in enumerate(CORRECT):
        if acted[i]: continue
        l=locs[i]; view,phase,hv,hc,ht,cache,store=l
        if step==0:
            # catch-up: lagging replica may jump using any new-view in pool for view<=gv ; block sync; then leader proposes
            if view<gv:
                for m in pool:
                    if m[0]=='NV':
                        J=m[2]; jv=jview(J)
                        if jv>view and jv<=gv:
                            l2=proc_j(l,J)
                            if l2 is None: continue
                            out=[]; l2=start_new_view(l2,jv,r,out); emit(i,l2,out)
            n=len(store)
            for qc in cqcs:
                if qc[1]==n:
                    nl=list(locs); nl[i]=(view,phase,hv,hc,ht,cache,store+(qc[2],)); res.append((tuple(nl),pool,g,acted))
            j=best_j(hc,ht)
            if view==gv and j is not None and jview(j)==view and leader(view)==r:
                nn,hopt=implied(j)
                pr = ('PR',view,j,None) if hopt is not None else (('PR',view,j,'P%d%s'%(nn,r)) if len(store)>=nn else None)
                if pr is not None and pr not in pool:
                    na=list(acted); na[i]=True; res.append((locs,pool|{pr},g,tuple(na)))
        elif step==1:
            if view!=gv or phase!=P: continue
            prs=[m for m in pool if m[0]=='PR' and m[1]==gv]
            if leader(gv)==BYZ and gv>=1:
                Js=[('C',qc) for qc in cqcs if qc[0]==gv-1]+[('T',tq) for tq in tqc_classes(pool,gv-1)]
                for J in Js:
                    nn,hopt=implied(J)
                    for p in ([None] if hopt is not None else ['X','Y']): prs.append(('PR',gv,J,p))
            for m in prs:
                if True:
                    _,v,J,pay=m; nn,hopt=implied(J)
                    if hopt is not None:
                        if pay is not None: continue
                        h=hopt; nc=cache
                    else:
                        if pay is None or len(store)<nn: continue
                        h=pay; nc=cache|{(nn,pay)}
                    l2=proc_j((v,C,(v,nn,h),hc,ht,nc,store),J)
                    emit(i,l2,[('CV',r,v,nn,h)])
        elif step==2:
            if view!=gv: continue
            for qc in cqcs:
                if qc[0]!=gv or gv>=V: continue
                l2=proc_cqc(l,qc)
                if l2 is None: continue
                out=[]; l2=start_new_view(l2,gv+1,r,out); emit(i,l2,out)
            out=[('TV',r,view,hv,hc)]; j=best_j(hc,ht)
            if view!=0 and j is not None: out.append(('NV',r,j))
            emit(i,(view,T,hv,hc,ht,cache,store),out)
        elif step==3:
            if view!=gv or phase!=T or gv>=V: continue
            for qc in cqcs:
                if qc[0]!=gv: continue
                l2=proc_cqc(l,qc)
                if l2 is None: continue
                out=[]; l2=start_new_view(l2,gv+1,r,out); emit(i,l2,out)
            for tq in tqc_classes(pool,gv):
                l2=proc_j(l,('T',tq))
                if l2 is None: continue
                out=[]; l2=start_new_view(l2,gv+1,r,out); emit(i,l2,out)
    return res
def main2():
    l0=(0,T,None,None,None,frozenset(),())
    pool0=frozenset(('TV',r,0,None,None) for r in CORRECT)
    init=(tuple([l0]*NR),pool0,(0,3),tuple([False]*NR))
    seen={init}; frontier=[init]; trans=0; t=time.time(); disagree=0; depth=0
    while frontier:
        nxt=[]
        for s in frontier:
            for s2 in succ2(s):
                trans+=1
                if s2 not in seen:
                    seen.add(s2); nxt.append(s2)
                    stores=[l[6] for l in s2[0]]
                    for x,y in itertools.combinations(stores,2):
                        k=min(len(x),len(y))
                        if x[:k]!=y[:k]: disagree+=1
        frontier=nxt; depth+=1
        if depth%5==0: print(f"depth {depth} states {len(seen)} frontier {len(frontier)} trans {trans} t={time.time()-t:.0f}s disagree={disagree}",flush=True)
        if len(seen)>5_000_000: print('cap'); break
    core=set((s[0],s[1]) for s in seen)
    locals_=set(l for s in seen for l in s[0])
    print(f"DONE conf={CONF} V={V} leaders={LEADERS} states {len(seen)} (without phase bookkeeping {len(core)}) trans {trans} local states {len(locals_)} max committed {max(len(l[6]) for l in locals_)} disagree {disagree} t={time.time()-t:.0f}s")
main2()
