import sys, itertools, collections, time
# Abstract ChonkyBFT (macro-step / willing-Byzantine reductions) to estimate L2 state counts.
W = {'a':2,'b':2,'c':1,'z':1}; CORRECT=['a','b','c']; BYZ='z'
TOTAL=6; F=1; Q=5; SQ=3
V = int(sys.argv[1]); LEADERS = sys.argv[2]  # e.g. "zabc": leader of view1,2,3,...
def leader(v): return LEADERS[(v-1) % len(LEADERS)] if v>=1 else LEADERS[-1]
# local: (view, phase, hv, hcqc, htqc, cache(frozenset (n,h)), store(tuple))
P,C,T = 0,1,2
def jview(J): return J[1][0]+1
def implied(J):
    if J[0]=='C': return (J[1][1]+1, None)
    return J[1][1]
def best_j(hc, ht):
    if hc is None and ht is None: return None
    hcv = -1 if hc is None else hc[0]; htv = -1 if ht is None else ht[0]
    return ('C',hc) if hcv>=htv else ('T',ht)
def proc_cqc(l, qc):
    view,phase,hv,hc,ht,cache,store = l
    if hc is None or hc[0] < qc[0]:
        hc = qc
        n,h = qc[1],qc[2]
        if (n,h) in cache:
            if len(store) < n: return None   # blocked until block sync
            if len(store)==n: store = store+(h,)
    return (view,phase,hv,hc,ht,cache,store)
def proc_j(l, J):
    if J[0]=='C': return proc_cqc(l, J[1])
    tq = J[1]; hq = tq[2]
    if hq is not None:
        l = proc_cqc(l, hq)
        if l is None: return None
    view,phase,hv,hc,ht,cache,store = l
    if ht is None or ht[0] < tq[0]: ht = tq
    return (view,phase,hv,hc,ht,cache,store)
def start_new_view(l, v, r, out):
    view,phase,hv,hc,ht,cache,store = l
    if hc is not None: cache = frozenset(x for x in cache if x[0] > hc[1])
    l = (v,P,hv,hc,ht,cache,store)
    out.append(('NV', r, best_j(hc,ht)))
    return l
def tqc_classes(pool, v):
    # all timeout-QC semantic classes for view v formable from correct votes in pool + optional z vote
    votes = collections.defaultdict(list)
    for m in pool:
        if m[0]=='TV' and m[2]==v: votes[m[1]].append((m[3],m[4]))
    known_qcs = {None} | {m[4] for m in pool if m[0]=='TV'} | set(formable_cqcs(pool))
    blocks = {(m[3],m[4]) for m in pool if m[0]=='CV'} | {None}
    res=set()
    senders=[s for s in CORRECT if votes[s]]
    for k in range(1,len(senders)+1):
        for S in itertools.combinations(senders,k):
            for choice in itertools.product(*[votes[s] for s in S]):
                w = sum(W[s] for s in S)
                zopts=[None]
                if w+W[BYZ]>=Q:
                    zopts += [(hvb, hq) for hvb in blocks for hq in known_qcs]
                for zo in zopts:
                    ww = w + (W[BYZ] if zo is not None else 0)
                    if ww<Q: continue
                    cnt=collections.Counter(); hqs=[]
                    for s,(hv,hq) in zip(S,choice):
                        if hv is not None: cnt[(hv[1],hv[2])]+=W[s]
                        if hq is not None: hqs.append(hq)
                    if zo is not None:
                        if zo[0] is not None: cnt[zo[0]]+=W[BYZ]
                        if zo[1] is not None: hqs.append(zo[1])
                    subs=[b for b,c in cnt.items() if c>=SQ]
                    hvote = subs[0] if len(subs)==1 else None
                    hq = max(hqs, key=lambda q:q[0]) if hqs else None
                    if hvote is not None and (hq is None or hvote[0] > hq[1]): imp=(hvote[0], hvote[1])
                    else: imp=((hq[1]+1) if hq else 0, None)
                    res.add((v, imp, hq))
    return res
_fc={}
def formable_cqcs(pool):
    cnt=collections.Counter()
    for m in pool:
        if m[0]=='CV': cnt[(m[2],m[3],m[4])]+=W[m[1]]
    return [k for k,c in cnt.items() if c+W[BYZ]>=Q]
def succ(state):
    locs, pool = state
    res=[]
    def emit(i, l, out):
        if l is None: return
        nl = list(locs); nl[i]=l
        res.append((tuple(nl), pool | frozenset(out)))
    cqcs = formable_cqcs(pool)
    tq_by_view = {}
    for i,r in enumerate(CORRECT):
        l = locs[i]; view,phase,hv,hc,ht,cache,store = l
        # timer
        tv = ('TV', r, view, hv, hc)
        if (phase!=T or tv not in pool):
            out=[tv]
            j = best_j(hc,ht)
            if view!=0 and j is not None: out.append(('NV', r, j))
            emit(i, (view,T,hv,hc,ht,cache,store), out)
        for m in pool:
            if m[0]=='PR':
                _,v,J,pay = m
                if v<view or (v==view and phase!=P): continue
                n,hopt = implied(J)
                if hopt is not None:
                    if pay is not None: continue
                    h=hopt; ncache=cache
                else:
                    if pay is None: continue
                    if len(store) < n: continue   # prev missing -> error (or wait for sync)
                    h=pay; ncache = cache | {(n,pay)}
                vote=(v,n,h)
                l2 = proc_j((v,C,vote,hc,ht,ncache,store), J)
                emit(i, l2, [('CV', r, v, n, h)])
            elif m[0]=='NV':
                _,snd,J = m
                jv = jview(J)
                if jv<view or (jv==view and snd!=leader(view)): continue
                l2 = proc_j(l, J)
                if l2 is None: continue
                out=[]
                if jv>view: l2 = start_new_view(l2, jv, r, out)
                if l2!=l or out: emit(i, l2, out)
        for qc in cqcs:
            if qc[0] < view or qc[0] >= V: continue
            l2 = proc_cqc(l, qc)
            if l2 is None: continue
            out=[]; l2 = start_new_view(l2, qc[0]+1, r, out); emit(i,l2,out)
        for v in range(view, V):
            if v not in tq_by_view: tq_by_view[v]=tqc_classes(pool, v)
            for tq in tq_by_view[v]:
                l2 = proc_j(l, ('T',tq))
                if l2 is None: continue
                out=[]; l2 = start_new_view(l2, v+1, r, out); emit(i,l2,out)
        # proposer
        j = best_j(hc,ht)
        if j is not None and jview(j)==view and leader(view)==r:
            n,hopt = implied(j)
            if hopt is not None: res.append((locs, pool | {('PR', view, j, None)}))
            elif len(store) >= n: res.append((locs, pool | {('PR', view, j, 'P%d%s'%(n,r))}))
        # block sync
        n=len(store)
        for qc in cqcs:
            if qc[1]==n:
                nl=list(locs); nl[i]=(view,phase,hv,hc,ht,cache,store+(qc[2],)); res.append((tuple(nl), pool))
    # Byzantine leader proposals / new views
    for v in range(1, V+1):
        if leader(v)!=BYZ: continue
        Js = [('C',qc) for qc in cqcs if qc[0]==v-1]
        if v-1 not in tq_by_view: tq_by_view[v-1]=tqc_classes(pool, v-1)
        Js += [('T',tq) for tq in tq_by_view[v-1]]
        for J in Js:
            n,hopt = implied(J)
            pays = [None] if hopt is not None else ['X','Y']
            for p in pays:
                m=('PR', v, J, p)
                if m not in pool: res.append((locs, pool|{m}))
            m=('NV', BYZ, J)
            if m not in pool: res.append((locs, pool|{m}))
    return res
def main():
    l0 = (0,T,None,None,None,frozenset(),())
    pool0 = frozenset(('TV', r, 0, None, None) for r in CORRECT)
    init = ((l0,l0,l0), pool0)
    seen={init}; frontier=[init]; depth=0; trans=0; t=time.time(); disagree=0
    localpairs=set()
    while frontier:
        nxt=[]
        for s in frontier:
            for s2 in succ(s):
                trans+=1
                if s2 not in seen:
                    seen.add(s2); nxt.append(s2)
                    stores=[l[6] for l in s2[0]]
                    for x,y in itertools.combinations(stores,2):
                        k=min(len(x),len(y))
                        if x[:k]!=y[:k]: disagree+=1
        depth+=1; frontier=nxt
        print(f"depth {depth} states {len(seen)} frontier {len(frontier)} trans {trans} t={time.time()-t:.0f}s disagree={disagree}", flush=True)
        if len(seen)>4_000_000: print("cap"); break
    locals_=set(l for s in seen for l in s[0])
    print("distinct local states", len(locals_), "max committed", max(len(l[6]) for l in locals_))
pass
