---------------------------- MODULE Thresholds ----------------------------
EXTENDS Integers
VARIABLE
  \* @type: Int;
  n
MaxN == 18446744073709551615
F(x) == (x - 1) \div 5
Q(x) == x - F(x)
S(x) == x - 3 * F(x)
Init == n \in 1..MaxN
Next == n' \in 1..MaxN
Inv ==
  /\ 5 * F(n) + 1 <= n
  /\ F(n) >= 0
  /\ Q(n) >= 1 /\ Q(n) <= n
  /\ S(n) >= 1 /\ S(n) <= Q(n)
  /\ 2 * Q(n) - n > F(n)           \* two quorums share more than f
  /\ 2 * Q(n) - n - F(n) >= S(n)   \* commit/timeout quorums share >= subquorum of correct weight
  /\ 2 * F(n) < S(n)               \* conflicting reporters (<= 2f) below subquorum
  /\ 3 * F(n) <= MaxN /\ n - 1 >= 0
=============================================================================
