//! PROTOTYPE of node/components/network/src/verif.rs (noise + mux wrappers only; compiled and run 2026-09-24).
//! Enabled by `#[cfg(era_consensus_verif)] pub mod verif;` after `mod watch;` in lib.rs.
#![allow(missing_docs, clippy::missing_docs_in_private_items, unreachable_pub)]
use std::{collections::BTreeMap, pin::Pin, sync::Arc, task::{Context, Poll}};
use zksync_concurrency::{ctx, io, limiter};
use crate::{mux, noise};

pub struct VNoise<S>(noise::Stream<S>);
impl<S: io::AsyncRead + io::AsyncWrite + Unpin> VNoise<S> {
    pub async fn client(ctx: &ctx::Ctx, s: S) -> ctx::Result<Self> { Ok(Self(noise::Stream::client_handshake(ctx, s).await?)) }
    pub async fn server(ctx: &ctx::Ctx, s: S) -> ctx::Result<Self> { Ok(Self(noise::Stream::server_handshake(ctx, s).await?)) }
    pub fn id(&self) -> Vec<u8> { zksync_consensus_crypto::ByteFmt::encode(&self.0.id()) }
    pub fn inner(&self) -> &S { &self.0 }
}
impl<S: io::AsyncRead + io::AsyncWrite + Unpin> io::AsyncRead for VNoise<S> {
    fn poll_read(mut self: Pin<&mut Self>, cx: &mut Context<'_>, buf: &mut io::ReadBuf<'_>) -> Poll<io::Result<()>> { Pin::new(&mut self.0).poll_read(cx, buf) }
}
impl<S: io::AsyncRead + io::AsyncWrite + Unpin> io::AsyncWrite for VNoise<S> {
    fn poll_write(mut self: Pin<&mut Self>, cx: &mut Context<'_>, buf: &[u8]) -> Poll<io::Result<usize>> { Pin::new(&mut self.0).poll_write(cx, buf) }
    fn poll_flush(mut self: Pin<&mut Self>, cx: &mut Context<'_>) -> Poll<io::Result<()>> { Pin::new(&mut self.0).poll_flush(cx) }
    fn poll_shutdown(mut self: Pin<&mut Self>, cx: &mut Context<'_>) -> Poll<io::Result<()>> { Pin::new(&mut self.0).poll_shutdown(cx) }
}

pub struct VMuxConfig { pub read_frame_size: u64, pub read_buffer_size: u64, pub read_frame_count: u64, pub write_frame_size: u64 }
pub struct VQueue(Arc<mux::StreamQueue>);
pub struct VStream(mux::Stream);
pub struct VMux(mux::Mux);
impl VQueue {
    pub fn new(ctx: &ctx::Ctx, max_streams: u32, rate: limiter::Rate) -> Self { Self(mux::StreamQueue::new(ctx, max_streams, rate)) }
    pub async fn open(&self, ctx: &ctx::Ctx) -> ctx::OrCanceled<VStream> { Ok(VStream(self.0.open(ctx).await?)) }
}
impl VStream {
    pub async fn write_all(&mut self, ctx: &ctx::Ctx, buf: &[u8]) -> anyhow::Result<()> { self.0.write.write_all(ctx, buf).await }
    pub async fn flush(&mut self, ctx: &ctx::Ctx) -> anyhow::Result<()> { self.0.write.flush(ctx).await }
    pub async fn read_up_to(&mut self, ctx: &ctx::Ctx, n: usize) -> anyhow::Result<Vec<u8>> {
        let mut b = noise::bytes::Buffer::new(n); self.0.read.read_exact(ctx, &mut b).await?; Ok(b.as_slice().to_vec())
    }
    pub fn close_write(self) -> VReadHalf { VReadHalf(self.0.read) }
}
pub struct VReadHalf(mux::ReadStream);
impl VReadHalf {
    pub async fn read_up_to(&mut self, ctx: &ctx::Ctx, n: usize) -> anyhow::Result<Vec<u8>> {
        let mut b = noise::bytes::Buffer::new(n); self.0.read_exact(ctx, &mut b).await?; Ok(b.as_slice().to_vec())
    }
}
impl VMux {
    pub fn new(cfg: VMuxConfig, accept: Vec<(u64, &VQueue)>, connect: Vec<(u64, &VQueue)>) -> Self {
        Self(mux::Mux {
            cfg: Arc::new(mux::Config { read_frame_size: cfg.read_frame_size, read_buffer_size: cfg.read_buffer_size, read_frame_count: cfg.read_frame_count, write_frame_size: cfg.write_frame_size }),
            accept: accept.into_iter().map(|(k, q)| (k, q.0.clone())).collect::<BTreeMap<_, _>>(),
            connect: connect.into_iter().map(|(k, q)| (k, q.0.clone())).collect::<BTreeMap<_, _>>(),
        })
    }
    pub async fn run<S: io::AsyncRead + io::AsyncWrite + Send>(self, ctx: &ctx::Ctx, transport: S) -> Result<(), String> {
        self.0.run(ctx, transport).await.map_err(|e| format!("{e:#}"))
    }
}
