CONSTANTS
  MaxN = 20000
  U64 = 2147483647
INIT Init
NEXT Next
INVARIANT Inv
