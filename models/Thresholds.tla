---------------------------- MODULE Thresholds ----------------------------
(* C07: threshold arithmetic of ChonkyBFT (schedule.rs: max_faulty_weight,      *)
(* quorum_threshold, subquorum_threshold).  One state per total weight n; the   *)
(* derived values are state variables so that every state can be replayed       *)
(* against the real functions.                                                  *)
EXTENDS Integers

CONSTANTS
  \* @type: Int;
  MaxN,
  \* largest representable weight: 2^64-1 for Apalache; TLC integers are 32-bit, its
  \* configuration uses 2^31-1 (the enumerated n stay far below it)
  \* @type: Int;
  U64

VARIABLES
  \* @type: Int;
  n,
  \* @type: Int;
  f,
  \* @type: Int;
  q,
  \* @type: Int;
  s

F(x) == (x - 1) \div 5
Q(x) == x - F(x)
S(x) == x - 3 * F(x)

Init ==
  /\ n \in 1..MaxN
  /\ f = F(n)
  /\ q = Q(n)
  /\ s = S(n)

Next == UNCHANGED <<n, f, q, s>>

InU64(x) == x >= 0 /\ x <= U64

Inv ==
  /\ 5 * f + 1 <= n                 \* n >= 5f+1
  /\ 2 * q - n > f                  \* two quorums share more than f
  /\ 2 * q - n - f >= s             \* commit/timeout quorums share >= sub-quorum of correct weight
  /\ 2 * f < s                      \* conflicting reporters (<= 2f) stay below the sub-quorum
  /\ 1 <= s /\ s <= q /\ q <= n
  \* no intermediate value of the u64 computations leaves [0, 2^64)
  /\ InU64(n - 1) /\ InU64(f) /\ InU64(n - f) /\ InU64(3 * f) /\ InU64(n - 3 * f)

\* Vacuity control: must be VIOLATED (shows that the largest weight is inside the checked domain).
Control == n < MaxN
=============================================================================
