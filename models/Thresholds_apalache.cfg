CONSTANTS
  MaxN = 18446744073709551615
  U64 = 18446744073709551615
INIT Init
NEXT Next
INVARIANT Inv
