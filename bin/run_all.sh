#!/bin/bash
# run_all.sh <tier> [ids...]: runs the checks one after another on /repo's working tree and
# prints one summary line each (evidence files are rewritten by the checks themselves).
TIER=${1:-quick}; shift
IDS=${@:-C01 C02 C03 C04 C05 C06 C07 C08 C09 C10 C11 C12 C13 C14 C15 C16 C17 C18 C19}
cd "$(dirname "$0")/.." || exit 2
rc=0
for id in $IDS; do
  out=$(bin/check $id $TIER 2>&1); e=$?
  echo "$out" | grep -E "VIOLATION|KNOWN-FINDING|MACHINERY" | head -5
  echo "$out" | tail -1
  [ $e -ne 0 ] && rc=1
done
exit $rc
