#!/bin/bash
# rmwt.sh <name>: remove the scratch worktree and its build output
N=$1
git -C /repo worktree remove --force /tmp/wt/$N 2>/dev/null || rm -rf /tmp/wt/$N
git -C /repo worktree prune
