#!/bin/bash
# mkwt.sh <name>: scratch worktree of /repo HEAD under /tmp/wt/<name>, with a copy of the
# pre-built dependency artefacts so that builds there are incremental.
set -e
N=$1
mkdir -p /tmp/wt
git -C /repo worktree add --detach /tmp/wt/$N HEAD >/dev/null 2>&1
cp -r /repo/node/target /tmp/wt/$N/node/target
mkdir -p /tmp/wt/out-$N
echo /tmp/wt/$N
