#!/bin/bash
# mkwt.sh <name>: scratch worktree of /repo HEAD under /tmp/wt/<name>, with a copy of the
# pre-built dependency artefacts so that builds there are incremental.
set -e
N=$1
mkdir -p /tmp/wt
git -C /repo worktree add --detach /tmp/wt/$N HEAD >/dev/null 2>&1
# hard links (copying 5 GB took > 10 min per worktree): cargo replaces the files it rebuilds; registry
# dependencies stay fresh, workspace crates get new metadata hashes because their path differs
cp -al /repo/node/target /tmp/wt/$N/node/target
# the build-directory lock must not be shared between worktrees (a hard-linked lock serialises all builds)
find /tmp/wt/$N/node/target -name .cargo-lock -exec sh -c 'rm -f "$1"; : > "$1"' _ {} \;
mkdir -p /tmp/wt/out-$N
echo /tmp/wt/$N
