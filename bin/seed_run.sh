#!/bin/bash
# seed_run.sh <patch> <ID> [tier]: builds the harness against /repo with <patch> applied, restores
# /repo immediately (so that the tree is only dirty for the duration of the build), then runs the
# check with that binary. For testing seeded changes while other runs read /repo.
ROOT=$(cd "$(dirname "$0")/.." && pwd)
P=$(readlink -f "$1"); ID=$2; TIER=${3:-quick}
git -C /repo apply "$P" || exit 2
(cd $ROOT/harness && CARGO_NET_OFFLINE=true cargo build --offline >/tmp/seed_build.log 2>&1); rc=$?
git -C /repo checkout -- .
[ $rc -ne 0 ] && { tail -30 /tmp/seed_build.log; exit 2; }
cp $ROOT/harness/target/debug/vcheck /tmp/vcheck-seeded
VERIF_ROOT=$ROOT /tmp/vcheck-seeded $ID $TIER
rc=$?
rm -f /tmp/vcheck-seeded
exit $rc
