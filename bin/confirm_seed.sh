#!/bin/bash
# confirm_seed.sh <worktree-name> <crate> <demo-test-filter>
# In /tmp/wt/<name> (agent left patch + demo applied): demo must fail with the change, the
# full suite must otherwise pass, and the demo must pass with the change reverted.
N=$1; CRATE=$2; FILTER=$3
WT=/tmp/wt/$N; OUT=/tmp/wt/out-$N
cd $WT/node || exit 2
export CARGO_NET_OFFLINE=true
{
echo "== demo WITH change (expected: FAIL)"
cargo nextest run -p $CRATE --offline --no-fail-fast -E "test(/$FILTER/)" 2>&1 | tail -15
echo "== full suite WITH change"
cargo nextest run --workspace --no-fail-fast --test-threads 8 --offline 2>&1 | grep -E "^\s+(FAIL|TIMEOUT|SIGABRT|SIGSEGV)|Summary|error:" | sort | uniq | tail -30
echo "== revert source change"
(cd $WT && git apply -R $OUT/patch.diff && git status --short)
echo "== demo WITHOUT change (expected: PASS)"
cargo nextest run -p $CRATE --offline --no-fail-fast -E "test(/$FILTER/)" 2>&1 | tail -8
} > $OUT/confirm.log 2>&1
echo done >> $OUT/confirm.log
