#!/usr/bin/env python3
import json, sys
pid = sys.argv[1]
extra = sys.argv[2] if len(sys.argv) > 2 else ""
variation = (sys.argv[3].rstrip("\n") + "\n") if len(sys.argv) > 3 else ""
for l in open('/verif/properties.jsonl'):
    p = json.loads(l)
    if p['id'] == pid:
        break
wt = f"/tmp/wt/{pid}{extra}"
out = f"/tmp/wt/out-{pid}{extra}"
print(f"""You are working in a scratch git worktree of the Rust repository matter-labs/era-consensus (ChonkyBFT consensus layer for zkSync Era) at {wt} (cargo workspace root: {wt}/node). Work ONLY inside {wt} and {out}. Do not read or touch /repo or /verif. The sandbox has no network: always use `--offline` / CARGO_NET_OFFLINE=true, and do not add dependencies. A pre-built `node/target` directory is already in the worktree, so builds are incremental.

TASK: produce a *seeded defect* for studying verification tools: a small change to the repository's non-test source code that BREAKS the semantic property below, while the code still compiles and the repository's existing test suite still passes, together with a demonstration that exposes it.

PROPERTY ({p['title']}):
{p['statement']}
Quantified: {p['quantifier']['text']}.
(Relevant code is probably around: {', '.join(p['anchors']['files'][:8])})

REQUIREMENTS
1. The change must look like a realistic mistake a maintainer could make (refactoring slip, off-by-one, wrong comparison operator, two statements reordered, a check dropped or weakened, wrong variable, stale cache), not sabotage, and must be small (a few lines, in one or two places).
{variation}2. It must need something SPECIFIC to manifest — a particular interleaving of tasks, a crash or fault at a particular point, a multi-step sequence of operations, an unusual input or boundary value, or two cooperating sites that each look fine alone. It must NOT be something ordinary use or the existing tests expose at once.
3. The existing test suite must still pass with the change: `cd {wt}/node && cargo nextest run --workspace --no-fail-fast --test-threads 8 --offline` (known baseline: `zksync_consensus_executor::tests::test_validator_rotation` fails even on the unchanged tree — ignore that one; every other test must pass). The whole suite takes roughly 6-10 minutes; while iterating you may run only the tests of the crates you touched (`-p <crate>`), but run the full suite once at the end and report the result. Some tests are randomized; if a test fails, check whether it also fails without your change before blaming it.
4. Write a demonstration: a new test (`#[test]` / `#[tokio::test]`, e.g. appended to the affected crate's existing `tests` module or in a new test file inside the crate so that it can use crate-internal APIs) or a small program that FAILS with your change applied and PASSES on the unchanged code. Verify both directions yourself (use `git stash` or `git apply -R` on the source change only).
5. Deliver into {out}/ :
   - patch.diff : `git diff` of ONLY the source change (no test/demonstration code), applicable with `git apply` at the worktree root;
   - demo.diff  : `git diff` that adds ONLY the demonstration (applicable on top of the unchanged tree as well as on top of patch.diff);
   - README.md  : what is broken and why it violates the property; why the existing tests do not notice; exactly what is needed for it to manifest; the exact commands to run the demonstration, and the results you observed with and without the change; the result of the full test-suite run with the change.
6. Do not `git commit` in the worktree. Leave the worktree with both the change and the demonstration applied when you finish.

Your final message should summarise the defect in 5-10 lines (files/lines changed, what it needs in order to manifest, how the demo shows it, test-suite result).""")
