#!/usr/bin/env python3
"""Regenerates /verif/MANIFEST.json from the table below (kept next to the checks so the
manifest always validates)."""
import json, subprocess

ALL = ["C%02d" % i for i in range(1, 20)]

CHECKS = {
 "C03": dict(
   category="model_checking", design="DESIGN.md §4 C03, §2.3 (L1)",
   text="Explicit-state breadth-first search over the REAL replica state machine (bftsim: every transition restores a real StateMachine from plain-data state onto a fresh in-memory engine + real EngineManager, runs one real handler, drains the outbound channel). One replica of K4=[2,2,1,1] (a weight-1 validator) against an environment that holds the other three keys (a quorum), so any certificate / vote / proposal of the finite alphabet can be fabricated: equivocating leaders, replays, stale and future views. A crash is injected at EVERY durable write (set_state) of every accepted step, both outcomes (write applied / lost): the handler future is dropped at that point, whatever is already in the outbound channel has left the node, and a new incarnation starts from the durable image; plain restarts too. State = (volatile snapshot, durable image, stored blocks, summary of everything signed by all incarnations). Oracle: <= 1 distinct commit vote per view, no commit vote for a view <= a view with a signed timeout vote, vote views never go backwards. Two passes: minimal alphabet as deep as the budget allows, then the wide alphabet breadth-first; the completed BFS depth is reported.",
   note="set_state is atomic by contract (no torn writes); the reachable graph is not exhausted in the quick tier (depth 3-4, ~2*10^5 real transitions) - the evidence reports completed depth and `exhaustive: false`; views above the alphabet's bound are outside the scope.",
   technique="explicit-state model checking over the real transition function with exhaustive crash-point enumeration (every durable write x {applied, lost}) and a signed-history monitor"),
 "C04": dict(
   category="exploration", design="DESIGN.md §4 C04",
   text="Exhaustive small-scope enumeration on the real CommitQC/TimeoutQC add()/verify(), LeaderProposal/ReplicaNewView/FinalBlock/Signed verify: all weight vectors over {1,2,3} with <= 4 (quick) / 5 (thorough) validators plus unit committees of 6 (10, 11 thorough); every signer subset assembled incrementally; every single corruption of a listed alphabet applied to every accepted and every boundary-rejected certificate (signer bits, bitmap length, view/epoch/genesis/payload/number, foreign signatures, overlapping groups with genuine double signatures, nested under-weight / wrong-epoch certificates genuinely signed, wrong verification context). Oracle: verdict == the harness's own predicate (distinct members, weight >= n - floor((n-1)/5), signature is the aggregate of exactly the claimed (key, vote) pairs); refused add() leaves the certificate unchanged.",
   note="BLS12-381 (blst) soundness is trusted; committees > 6 (11) validators, weights > 3 and multi-point corruptions are outside the scope.",
   technique="exhaustive bounded enumeration of inputs (all committees x signer subsets x single corruptions of a small scope) on the real code against a reference predicate"),
 "C05": dict(
   category="model_checking", design="DESIGN.md §4 C05, §2.3 (L1)",
   text="Explicit-state breadth-first search over the real replica state machine (bftsim L1: one replica of K4 against an environment holding a quorum of keys, finite alphabet of valid / stale / future-view / wrong-leader / non-member / bad-signature / other-epoch / under-weight-certificate / invalid, oversized, missing, superfluous payload inputs, timer, block sync, restart). On EVERY transition a reference replica (refmodel.rs: transcription of spec/informal-spec/replica.rs + proposer.rs over abstract values with the implementation's refinements R1-R11 listed explicitly) is stepped on the abstraction of the same (state, input) and must agree on outcome (accepted / refused / blocked), resulting abstract state (view, phase, high vote, certificates, proposal cache, vote caches, stored blocks) and the multiset of emitted messages; plus along every edge: view / highest certificates / durable view / store monotone, view increases only on a verifying certificate for view-1, every emitted message verifies in isolation.",
   note="Certificate and signature validity is delegated to the roles library (C04's subject); the quick tier reaches BFS depth 2-3 (~8*10^4 real transitions), reported as such; inputs outside the alphabet (e.g. block numbers > first+1) are outside the scope.",
   technique="explicit-state model checking over the real transition function with lock-step conformance against a reference model transcribed from the informal specification"),
 "C07": dict(
   category="model_checking", design="DESIGN.md §4 C07, §2.5",
   text="Apalache decides the invariant of models/Thresholds.tla for every n in 1..2^64-1; TLC enumerates the model's states explicitly and every dumped state is replayed against the real max_faulty_weight/quorum_threshold/subquorum_threshold and Schedule methods; the real functions are additionally enumerated exhaustively over [1,2^28] (quick) / [1,2^34] (thorough), windows around every power of two and the top of the u64 range, against a u128 transcription and the inequalities themselves. This is the only property whose whole domain is covered (on the model); the code is bound to the model by finite replay.",
   note="Model <-> code correspondence outside the enumerated ranges rests on the three one-line formulas; Apalache (SMT-backed symbolic model checker) and TLC are trusted.",
   technique="symbolic + explicit-state model checking of a TLA+ model (Apalache, TLC) with replay of every TLC state against the implementation; exhaustive range enumeration on the real functions"),
 "C09": dict(
   category="exploration", design="DESIGN.md §4 C09",
   text="For each of 58 wire/storage message types (roles, std, and the network crate's private handshake / preface / RPC types through the hook): well-formed samples with boundary values plus every proto-level value within 1 (quick) / 2 (thorough) field deviations of a sample (field removed, duplicated, retyped, replaced by every element of its boundary alphabet). Every input that decodes is checked on the real encode/decode/canonical_raw: decode(encode(v)) == v, encoding stable under re-decoding, encode(v) is a fixed point of canonical_raw and agrees with an independent minimal-varint writer, every alternative field order (every message node, any depth) normalises to encode(v) and decodes to an equal value. Certificates and schedules built in every vote / listing order must be equal, encode and hash identically; packed / unpacked / mixed repeated scalars are normalised by the real canonical_raw on a harness-built descriptor.",
   note="prost's decoder is trusted; values outside the boundary alphabets, non-minimal varints and >2 simultaneous deviations are outside the scope.",
   technique="exhaustive bounded enumeration of inputs (deviation-bounded proto values x alternative serialisations) on the real code with round-trip / canonical-form oracles"),
 "C10": dict(
   category="exploration", design="DESIGN.md §4 C10",
   text="(a) decoders of all 58 wire/storage types: every proto-level value within 1 (quick) / 2 (thorough) field deviations of the samples without any well-formedness filter, every truncation and every single-byte substitution from {00,01,7f,80,ff} of every sample encoding; (b) connection stages through the real entry points over a scripted in-memory transport: frame::recv_proto (length prefixes {0,1,max,max+1,..,2^32-1} x truncated bodies), preface::accept and the noise handshake (messages of every listed length), noise transport frames after a genuine handshake, mux handshakes announcing 0..2^32-1 streams (differential allocation bound against a peer announcing exactly our limits), and every mux frame header (all 65536 in thorough, a 1800-element cover in quick) x 3 reusable-stream states x DATA lengths through the real Mux::run. Oracle: no panic (catch_unwind), entry point returns, per-case allocation within the stated bound (counting allocator).",
   note="The node is built with panic=abort, the harness with panic=unwind so that panics are observable; release arithmetic (overflow checks off). Well-signed absurd consensus messages through the replica (design part c) are covered by the C05/C16 replica harness once built. Totality over all byte strings is not enumerable.",
   technique="exhaustive bounded enumeration of inputs (deviation-bounded malformed values, all truncations / byte substitutions, all mux frame headers x stream states) through the real decoders and connection stages under a panic and allocation monitor"),
 "C13": dict(
   category="model_checking", design="DESIGN.md §4 C13",
   text="Stateless exploration of the real noise::Stream pair (VNoise hook) under a sequential driver whose two scripted transports answer every poll_read / poll_write / poll_flush with complete / 1 byte / half / Pending-then-wake as explorer choice points: every writer op sequence over {write 1,100,P-1,P,P+1,2P+5 bytes, flush, shutdown} (P=65519) up to length 2 (quick) / 3 (thorough) x reader buffers {1000,70000} with deviation bound 1, listed long sequences with bound 2 (quick) / 3 (thorough); oracle on every execution: bytes read are a prefix of bytes accepted by the writer, equal everything flushed once the transport is drained, EOF iff shutdown, frames on the wire well-formed, no WriteZero / stuck Pending. Then every single-point edit of the in-flight ciphertext (bit flips in length / body / tag, truncations at frame boundaries +-1, duplicated / swapped / dropped / empty frames): the reader must fail or stop after a correct prefix.",
   note="snow (Noise NN, ChaCha20-Poly1305) is trusted; the driver is sequential (writes, then reads), back-pressure is modelled by Pending answers; handshake choice points are part of the explored space.",
   technique="stateless model checking of the implementation: exhaustive enumeration of environment-answer sequences (deviation-bounded) for every bounded operation sequence, against a reference byte-stream model; exhaustive single-point fault (tampering) enumeration"),
 "C11": dict(
   category="exploration", design="DESIGN.md §4 C11",
   text="Exhaustive small-scope enumeration on the real Schedule::new/view_leader: every weight vector over {1,2,3} up to 4 (quick) / 5 (thorough) validators x every non-empty eligible subset x both modes x frequency {0,1,2,3,7}, unit schedule of 10, extreme weights; every view of a 2268-element boundary set; every permutation of the input list. Oracle: no panic, eligible-only, order-independent, equality with an independent reference (own Keccak call, u128 reduction), constant for frequency 0, proportional share over 2000 turns.",
   note="sha3's Keccak-256 and the key byte encoding are trusted by the reference; weights > 3 and > 10 validators are outside the scope.",
   technique="exhaustive bounded enumeration of inputs (all schedules x views of a small scope) on the real code against a reference model"),
 "C14": dict(
   category="model_checking", design="DESIGN.md §4 C14, §2.2",
   text="Stateless exploration under the controlled tokio scheduler of (i) two real Mux endpoints over an in-memory pipe with tiny limits (frame 8, buffer 32, 3 frames): scenario 1 forces reuse of a single reusable stream (server reads 10 of 20 bytes and drops the sub-stream; the next sub-stream must carry exactly its own bytes, EOF only for the counterpart), scenario 2 has three clients opening concurrently on a capability with limits 2/3 (tagged echo; simultaneously open sub-streams <= 2; no mixing); a scheduler-idle state with unfinished client/server tasks is a deadlock; (ii) one real Mux against a scripted raw peer that ignores flow control (floods DATA frames of 3/8/20 bytes while the application consumes 0/5/17 bytes; DATA before OPEN): bytes pulled from the transport beyond what the application consumed stay within read_buffer_size / read_frame_count accounting. All schedules within deviation bound 2 (quick, time-capped: the completed bound is reported) / 3 (thorough).",
   note="The mux runs ~15 internal tasks (600-900 choice points per execution), so bound 2 is ~10^6 executions per scenario; when the time cap is hit the evidence reports the completed bound (1) and `exhaustive: false`. More than 3 concurrent streams and head-of-line blocking are outside the scope.",
   technique="stateless model checking of the implementation under a controlled scheduler: exhaustive enumeration of task interleavings (deviation-bounded) of small client/server drivers and of a scripted adversarial peer, against per-stream byte-stream reference models and buffer accounting"),
 "C15": dict(
   category="model_checking", design="DESIGN.md §4 C15, §2.2",
   text="(a) the real limiter::Limiter under the controlled tokio scheduler: five drivers (burst 1-3; 2-3 acquirers asking for 1..burst permits and holding them for 0-2 clock steps) with a clock environment that advances the manual clock by r, r/2 or 3r at every quiescent point (a choice): all executions within deviation bound 3 (quick, time-capped: completed bound reported) / 5 (thorough); oracle on the grant log: for every pair of grants, permits granted in [t, t+T] <= burst + T/r + 1; grants in arrival order; every acquire <= burst is eventually granted; acquire(burst+1) ends only by cancellation; infinite rate never blocks. 'A cancelled wait consumes nothing' as a differential enumeration of 324 scripts (burst, permits of holder / cancelled waiter / later caller, hold time, cancel time): the later caller's grant time with the cancelled waiter equals its grant time without it. (b) a real rpc::Service server (get_block RPC, INFLIGHT 5, counting handler) against a greedy real rpc::Client over an in-memory pipe: warm-up call, idle period (0 / 10 / 100 s), burst of 4-9 concurrent calls; handler start times obey the same window bound.",
   note="The RPC part runs ~40 internal tasks (~2000 choice points per execution): default schedule only in the quick tier, bound 1 in thorough. Refresh period fixed at 1000 ms.",
   technique="stateless model checking of the implementation under a controlled scheduler and manual clock (deviation-bounded enumeration of interleavings and clock steps) with a window-bound / FIFO oracle; exhaustive differential script enumeration"),
 "C16": dict(
   category="model_checking", design="DESIGN.md §4 C16",
   text="(a1) every operation sequence send(m)|recv of length <= 4 (quick) / 6 (thorough) over a 6-message alphabet (two senders, two kinds, views 1-3, one bad signature) on the real create_input_channel(), compared after every step with the stated rule on a Vec (one pending message per sender and kind, the highest view, FIFO among retained, dropped only if invalid or superseded); (a2) two REAL sender threads interleaved at every lock acquisition of the underlying tokio watch channel (thread-point hook in the vendored tokio: only one thread runs at a time, the harness picks who continues at every point): ALL interleavings of 8 message pairs, the final buffer must equal the rule's result for one of the two sequential orders (linearizability); (b) explicit-state search over the real replica (bftsim L1, minimal alphabet) with a flood of validly signed commit / timeout votes for views up to u64::MAX from a validator of weight <= f interleaved with ordinary inputs: after every step the four vote caches stay within the committee-size bound and every cached partial certificate sits at some validator's latest view.",
   note="Thread interleavings are explored at the granularity of watch-channel lock acquisitions (the channel has no other shared state); the L1 part is depth-bounded in the quick tier (reported).",
   technique="exhaustive enumeration of bounded operation sequences against a reference model; exhaustive thread-interleaving exploration at lock acquisitions with a linearizability oracle; explicit-state search over the real replica with a cache-size invariant"),
 "C17": dict(
   category="model_checking", design="DESIGN.md §4 C17, §2.2",
   text="Stateless exploration on the real scope::run! under the controlled tokio scheduler (vendored tokio 1.45.1 + verif_sched patch: the explorer picks the next runnable task and every select! start branch): every program of a generated family of task trees (3360 programs quick / ~40k thorough: root body x up to 2-3 children, main/background, bodies {Ok, Err, panic, wait-for-cancel then Ok/Err}, a child that spawns a grandchild or runs a nested scope, caller context plain / cancelled while running / deadline passing on the manual clock / already cancelled) x every schedule within deviation bound 2 (quick) / 3 (thorough). Oracle over the event log: run! returns after the last task end; Ok iff nobody failed; otherwise the error of the first failing task in event order; any panic is re-raised (after all tasks ended); an idle scheduler while a cancellation is due (failure, all main tasks done, caller cancelled) is a lost-cancellation deadlock.",
   note="Task switches only at awaits that return Pending (current-thread runtime); thread-level races inside set_err / guard drops on a multi-thread runtime are not explored. Blocking tasks (spawn_blocking, run_blocking!, wait_blocking) run on real OS threads outside the controlled scheduler: they are oracle-checked on repeated uncontrolled runs and reported separately as sampled, not exhaustive.",
   technique="stateless model checking of the implementation under a controlled scheduler: exhaustive enumeration of task interleavings (deviation-bounded) for every program of a bounded family, against an event-log reference model"),
 "C18": dict(
   category="exploration", design="DESIGN.md §4 C18",
   text="Exhaustive enumeration of batch sequences on the real ValidatorAddrsWatch::update / announce (hook VAddrsWatch): every sequence of the scope - one batch of <= 3 announcements, a batch of <= 2 followed by a batch of <= 2 (quick) / <= 3 (thorough), the node's own announcement before / between batches, thorough: three batches of <= 2 - over a 9-symbol alphabet (two committee members with several (version, timestamp, address) combinations incl. version u64::MAX, a forged newer and a forged older copy, a non-member's valid announcement; repeated keys arise from repetition). After every batch the real book is compared with the stated rule on a map: rejected batch leaves the book unchanged, batches with a duplicated key or a forged newer entry are rejected, non-members ignored, only strictly newer (version, timestamp) replaces, every stored entry is authentic. Plus every subset of <= 4 valid announcements delivered in every arrival order ends in the same book.",
   note="Two members and one non-member; BLS signatures trusted; equal (version, timestamp) ties excluded from order independence as the property states.",
   technique="exhaustive bounded enumeration of operation sequences on the real code against a reference model"),
 "C19": dict(
   category="model_checking", design="DESIGN.md §4 C19, §2.2",
   text="Stateless exploration under the controlled tokio scheduler of drivers around the real gossip fetch::Queue (hook VFetchQueue): scenario 1 - requests for blocks 3, 5, 7 (7 under a deadline that passes on the manual clock), peer connection 0 announcing 0..5 and later 0..9, connection 1 announcing 0..9; scenario 2 - requests 5 and 6 with both peers announcing 0..5 (peer 0 later 0..6). Every accepted call succeeds, fails (completion dropped) or its worker disconnects by environment choice. All executions within deviation bound 3 (quick, time-capped) / 5 (thorough). Oracle over the event log: a block is handed only to a connection whose announced range contains it and is held by one connection at a time; request() returns Ok only after a success; a failed / disconnected request is outstanding again; a cancelled request leaves the queue; at every quiescent point no lowest outstanding request is available at an idle live connection (lost wake-up).",
   note="'lowest missing block first' is checked through the quiescence condition, not at each accept (a lower request may legitimately be inserted between the availability wait and the removal).",
   technique="stateless model checking of the implementation under a controlled scheduler: exhaustive enumeration of task interleavings and environment outcomes (deviation-bounded) against an event-log oracle"),
}

def main():
    head = subprocess.run(["git", "-C", "/repo", "log", "--format=%h %s"], capture_output=True, text=True).stdout.splitlines()
    hook_commits = [l.split()[0] for l in head if " verif-hook:" in l or l.split(" ", 1)[1].startswith("verif-hook")]
    checks = []
    for pid in ALL:
        if pid not in CHECKS:
            continue
        c = CHECKS[pid]
        checks.append({
            "property_id": pid,
            "quick_cmd": f"bin/check {pid} quick",
            "thorough_cmd": f"bin/check {pid} thorough",
            "evidence_file": f"/verif/evidence/{pid}.json",
            "replay_cmd_template": f"bin/check {pid} --replay {{path}}",
            "engine": "vcheck",
            "level_claimed": {"category": c["category"], "text": c["text"], "design_ref": c["design"]},
            "level_note": c["note"],
            "technique": c["technique"],
        })
    na = [{"property_id": p, "reason": "check not built yet (work in progress; see DESIGN.md §4 for the intended model-checking design)"} for p in ALL if p not in CHECKS]
    m = {
        "version": 1,
        "setup_cmd": "cd /verif/harness && CARGO_NET_OFFLINE=true cargo build --offline",
        "hooks": {
            "guard": "era_consensus_verif",
            "enable": "RUSTFLAGS=\"--cfg era_consensus_verif\" (set in /verif/harness/.cargo/config.toml; the harness depends on /repo/node crates by path, so every check rebuilds them from the current working tree)",
            "baseline_off_cmd": "cd /repo/node && cargo nextest run --workspace --no-fail-fast --test-threads 8 --offline || cargo test --workspace --no-fail-fast --offline",
            "source_commits": hook_commits,
            "add_only": True,
        },
        "engines": [
            {"name": "vcheck", "path": "/verif/harness", "serves_properties": sorted(CHECKS), "kind_free_text": "Rust binary hosting all checks: E1 choice-sequence explorer with deviation bounds, E2 controlled tokio scheduler (vendor/tokio = tokio 1.45.1 + verif_sched patch), E3 explicit-state search over the real replica state machine, E4 small-scope enumerators, E5 driver for Apalache/TLC on models/Thresholds.tla"},
        ],
        "checks": checks,
        "not_applicable": na,
        "notes": "exit 0 = held on everything explored (KNOWN-FINDING lines for listed unrepaired findings), exit 1 + VIOLATION line = violation, exit 2 = machinery failure (never a verdict). Known findings: /verif/known_findings.json.",
    }
    json.dump(m, open("/verif/MANIFEST.json", "w"), indent=1)
    print("MANIFEST.json:", len(checks), "checks,", len(na), "not yet claimed")

main()
