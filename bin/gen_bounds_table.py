#!/usr/bin/env python3
"""Regenerates the table of DESIGN.md §11 from evidence/<ID>.json (written by the checks themselves)."""
import json, re, os
root = os.path.join(os.path.dirname(os.path.abspath(__file__)), "..")
rows = []
for i in range(1, 20):
    pid = f"C{i:02d}"
    e = json.load(open(os.path.join(root, "evidence", pid + ".json")))
    c = e["coverage"]
    n = c.get("states") or c.get("evaluations") or 0
    t = c.get("transitions")
    det = []
    for k, label in [("limiter_deviation_bound", "deviation bound"), ("deviation_bound", "deviation bound"), ("types", "wire types"), ("semantic_cases", "semantic-extreme cases"), ("cancel_scripts", "cancel scripts"), ("extreme_rate_configurations", "extreme-rate configurations"), ("dead_transport_cases", "dead-transport cases")]:
        if k in c and not isinstance(c[k], (dict, list)):
            det.append(f"{label} {c[k]}")
    if "runs" in c and isinstance(c["runs"], list) and c["runs"] and "completed_bfs_depth" in c["runs"][0]:
        det.append("BFS depth " + " / ".join(str(r["completed_bfs_depth"]) for r in c["runs"]))
    for k, label in [("debug_page", "debug pages served"), ("accept_loop", "accept-loop behaviours"), ("whole_nodes_on_real_networks", "whole-node scenarios"), ("epoch_handover", "epoch hand-over steps")]:
        v = c.get(k)
        if isinstance(v, dict):
            x = v.get("pages_served") or v.get("raw_peer_behaviours") or (len(v.get("scenarios", [])) if "scenarios" in v else None) or v.get("clock_steps_while_dormant")
            det.append(f"{label} {x}")
    rows.append(f"| {pid} | {e['wall_s']:.0f} | {'yes' if c.get('exhaustive') else 'no (capped / depth-bounded)'} | {n:,}".replace(",", " ") + f" | {format(t, ',').replace(',', ' ') if isinstance(t, int) else '-'} | {'; '.join(det)} |")
p = os.path.join(root, "DESIGN.md")
s = open(p).read()
head = "| check | wall s | completed its stated scope | executions / states / evaluations | choice points / transitions | details |\n|---|---|---|---|---|---|\n"
a = s.index(head) + len(head)
b = s.index("\n\n", a)
s = s[:a] + "\n".join(rows) + s[b:]
open(p, "w").write(s)
print("\n".join(rows))
