#!/usr/bin/env python3
"""store_seed.py <seed-id> <worktree-name> <summary> <needs> <detected_check> <detected_result> [ran]
Copies patch.diff / demo.diff / README.md / confirm.log of a confirmed seed from /tmp/wt/out-<wt>/ into
seeded/<id>/ and writes meta.json (the confirmation figures are read from confirm.log)."""
import json, os, re, shutil, sys
sid, wt, summary, needs, dcheck, dres = sys.argv[1:7]
ran = sys.argv[7] if len(sys.argv) > 7 else f"bin/seed_run.sh seeded/{sid}/patch.diff {dcheck.split()[0]} quick"
src = f"/tmp/wt/out-{wt}"
dst = os.path.join(os.path.dirname(os.path.abspath(__file__)), "..", "seeded", sid)
os.makedirs(dst, exist_ok=True)
for f in ["patch.diff", "demo.diff", "README.md", "confirm.log"]:
    shutil.copy(os.path.join(src, f), os.path.join(dst, f))
log = open(os.path.join(src, "confirm.log")).read()
parts = re.split(r"^== ", log, flags=re.M)
def summ(p):
    m = re.findall(r"Summary \[.*?\] (.*)", p)
    return m[-1] if m else "?"
sec = {p.split("\n")[0]: p for p in parts if p.strip()}
get = lambda k: next((summ(v) for kk, v in sec.items() if kk.startswith(k)), "?")
files = re.findall(r"^diff --git a/(\S+)", open(os.path.join(src, "patch.diff")).read(), flags=re.M)
meta = {
    "id": sid, "property": sid.split("-")[0],
    "source": "independent sub-agent, round " + sid.split("-")[1] + " (given the property text, a scratch worktree, one line per change earlier sub-agents made in this area, and the hint to prefer code paths ordinary use does not reach)",
    "summary": summary, "needs_to_manifest": needs, "files": files,
    "confirmed": {"worktree": f"/tmp/wt/{wt} (removed)", "demo_with_change": get("demo WITH"), "suite_with_change": get("full suite WITH"), "demo_without_change": get("demo WITHOUT"), "log": "confirm.log"},
    "detected_by": {"check": dcheck, "result": dres, "ran": ran},
}
json.dump(meta, open(os.path.join(dst, "meta.json"), "w"), indent=2)
print(json.dumps(meta["confirmed"]))
