#!/bin/bash
# mk_round.sh <suffix> <ID>...: scratch worktrees + TASK.md for another round of seed sub-agents.
# The task text contains the property, the generic variation hint, and one line per change that
# earlier sub-agents already made for this property (so that the new one differs) - nothing about
# the checks.
SUF=$1; shift
cd "$(dirname "$0")/.."
for n in "$@"; do
  [ -d /tmp/wt/${n}${SUF} ] || bin/mkwt.sh ${n}${SUF} >/dev/null
  V=$(python3 - "$n" <<'PY'
import json,glob,sys,os
pid=sys.argv[1]
anchors=set()
for l in open('properties.jsonl'):
    q=json.loads(l)
    if q['id']==pid: anchors={os.path.dirname(f) for f in q['anchors']['files']}
lines=[]
for p in sorted(glob.glob('seeded/*/meta.json')):
    m=json.load(open(p))
    same = m['property']==pid
    near = any(os.path.dirname(f) in anchors for f in m.get('files',[]))
    if same or near:
        lines.append("   - "+m['summary'].split(';')[0].strip()[:280]+" ("+", ".join(m.get('files',[]))+")")
print("1b. Other engineers have ALREADY made the following changes in this area of the code; yours must be a DIFFERENT defect (different mechanism, preferably a different function or file):\n"+"\n".join(lines)+"\n1c. Prefer code paths or input regions that ordinary use does not reach (recovery after a restart, eviction or pruning, reuse, cancellation, catching up after lagging, boundary values, rarely used modes, two functions that must agree), and a wrong *state* that only matters later over an immediately wrong answer.\n")
PY
)
  python3 bin/agent_prompt.py $n $SUF "$V" > /tmp/wt/out-${n}${SUF}/TASK.md
done
ls /tmp/wt
