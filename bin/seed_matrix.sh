#!/bin/bash
# seed_matrix.sh [seed-id ...]: applies each seeded change of /verif/seeded to /repo's working tree,
# runs the quick check(s) that are supposed to catch it, and restores the tree. Prints one line per
# seed: DETECTED / MISSED. Never commits anything; refuses to run on a dirty /repo.
# (Evidence files are rewritten by these runs: run bin/run_all.sh quick afterwards.)
cd "$(dirname "$0")/.." || exit 2
if [ -n "$(git -C /repo status --porcelain)" ]; then echo "/repo is dirty"; exit 2; fi
SEEDS=${@:-$(ls seeded)}
declare -A BY=( [C01-1]="C03 C01" [C01-2]="C03" [C01-3]="C02" [C02-2]="C05 C02" [C03-2]="C03 C09" [C10-3]="C10 C14" )
rc=0
for s in $SEEDS; do
  prop=${s%%-*}
  checks=${BY[$s]:-$prop}
  res=""
  for c in $checks; do
    # /repo is dirty only while the harness is being built (bin/seed_run.sh)
    out=$(bin/seed_run.sh seeded/$s/patch.diff $c quick 2>&1)
    if echo "$out" | grep -q "^VIOLATION property=$c "; then res="$res $c:DETECTED"; else res="$res $c:MISSED"; rc=1; fi
  done
  echo "$s ->$res"
done
# remove replay files produced by the seeded runs (the committed ones are restored)
git clean -fq replays/ 2>/dev/null; git checkout -- replays/ 2>/dev/null
exit $rc
