//! vcore: choice-sequence explorer (E1), parallel helpers, evidence / replay / known-findings
//! plumbing shared by all checks.
use std::{
    cell::RefCell,
    collections::{BTreeMap, HashSet},
    hash::{Hash, Hasher},
    panic::{catch_unwind, AssertUnwindSafe},
    rc::Rc,
    sync::{
        atomic::{AtomicBool, AtomicU64, AtomicUsize, Ordering::SeqCst},
        Condvar, Mutex,
    },
    time::{Duration, Instant},
};

use serde_json::{json, Value};

// ---------------------------------------------------------------------------------------------
// Tier / invocation context

#[derive(Clone, Copy, Debug, PartialEq, Eq)]
pub enum Tier {
    Quick,
    Thorough,
}

impl Tier {
    pub fn name(self) -> &'static str {
        match self {
            Tier::Quick => "quick",
            Tier::Thorough => "thorough",
        }
    }
    pub fn pick<T>(self, quick: T, thorough: T) -> T {
        match self {
            Tier::Quick => quick,
            Tier::Thorough => thorough,
        }
    }
}

pub fn workers() -> usize {
    std::env::var("VERIF_WORKERS")
        .ok()
        .and_then(|x| x.parse().ok())
        .unwrap_or_else(|| std::thread::available_parallelism().map(|x| x.get()).unwrap_or(8))
}

pub fn fx_hash<T: Hash + ?Sized>(t: &T) -> u64 {
    // Deterministic (no random keys) 64-bit hash.
    let mut h = Fnv(0xcbf29ce484222325);
    t.hash(&mut h);
    h.finish()
}

pub struct Fnv(pub u64);
impl Hasher for Fnv {
    fn finish(&self) -> u64 {
        // final avalanche
        let mut x = self.0;
        x ^= x >> 33;
        x = x.wrapping_mul(0xff51afd7ed558ccd);
        x ^= x >> 33;
        x = x.wrapping_mul(0xc4ceb9fe1a85ec53);
        x ^= x >> 33;
        x
    }
    fn write(&mut self, bytes: &[u8]) {
        for b in bytes {
            self.0 ^= *b as u64;
            self.0 = self.0.wrapping_mul(0x100000001b3);
        }
    }
}

// ---------------------------------------------------------------------------------------------
// Panic capture

thread_local! {
    static LAST_PANIC: RefCell<Option<String>> = const { RefCell::new(None) };
    static QUIET: std::cell::Cell<bool> = const { std::cell::Cell::new(false) };
}

static QUIET_ALL: AtomicBool = AtomicBool::new(false);

/// Suppresses panic output of all threads (used while uncontrolled helper threads may panic).
pub fn quiet_all(on: bool) {
    QUIET_ALL.store(on, SeqCst);
}

pub fn install_panic_hook() {
    let default = std::panic::take_hook();
    std::panic::set_hook(Box::new(move |info| {
        let msg = format!("{info}");
        // keep the first panic of a capture (a scope re-raises a task's panic as a second one)
        LAST_PANIC.with(|p| {
            let mut p = p.borrow_mut();
            if p.is_none() {
                *p = Some(msg);
            }
        });
        // threads of the blocking gate (vendored tokio) belong to an execution under `catch`
        let gated = std::thread::current().name() == Some("verif-gated-blocking");
        if !gated && !QUIET.with(|q| q.get()) && !QUIET_ALL.load(SeqCst) {
            default(info);
        }
    }));
}

/// Runs `f`, converting a panic into `Err(message)`. Panic output is suppressed.
pub fn catch<T>(f: impl FnOnce() -> T) -> Result<T, String> {
    let prev = QUIET.with(|q| q.replace(true));
    LAST_PANIC.with(|p| *p.borrow_mut() = None);
    let r = catch_unwind(AssertUnwindSafe(f));
    QUIET.with(|q| q.set(prev));
    r.map_err(|e| {
        let from_hook = LAST_PANIC.with(|p| p.borrow_mut().take());
        from_hook.unwrap_or_else(|| {
            if let Some(s) = e.downcast_ref::<&str>() {
                s.to_string()
            } else if let Some(s) = e.downcast_ref::<String>() {
                s.clone()
            } else {
                "panic".to_string()
            }
        })
    })
}

// ---------------------------------------------------------------------------------------------
// Chooser: one execution's source of decisions.

pub const K_TASK: u8 = 0;
pub const K_SELECT: u8 = 1;
pub const K_ENV: u8 = 2;

/// A run is identified by its deviations from the all-default (0) choice sequence.
pub type Deviations = Vec<(u32, u32)>;

pub struct Chooser {
    devs: Deviations,
    next_dev: usize,
    idx: u32,
    /// arity and kind at every choice point seen.
    pub trace: Vec<(u16, u8)>,
    sig: u64,
    /// (index, signature of the parent's trace up to and including index)
    expect: Option<(u32, u64)>,
    pub diverged: Option<String>,
    pub max_points: u32,
    pub horizon_hit: bool,
}

pub type Ch = Rc<RefCell<Chooser>>;

impl Chooser {
    pub fn new(devs: Deviations, expect: Option<(u32, u64)>) -> Ch {
        Rc::new(RefCell::new(Chooser {
            devs,
            next_dev: 0,
            idx: 0,
            trace: Vec::with_capacity(256),
            sig: 0x9e3779b97f4a7c15,
            expect,
            diverged: None,
            max_points: 200_000,
            horizon_hit: false,
        }))
    }

    pub fn choose(&mut self, kind: u8, n: usize) -> usize {
        assert!(n >= 1);
        if n == 1 {
            return 0;
        }
        let i = self.idx;
        self.idx += 1;
        if self.idx > self.max_points {
            self.horizon_hit = true;
        }
        self.sig = (self.sig ^ ((n as u64) << 8 | kind as u64)).wrapping_mul(0x100000001b3).rotate_left(17);
        self.trace.push((n.min(u16::MAX as usize) as u16, kind));
        let mut c = 0usize;
        if self.next_dev < self.devs.len() && self.devs[self.next_dev].0 == i {
            c = self.devs[self.next_dev].1 as usize;
            self.next_dev += 1;
            if c >= n && self.diverged.is_none() {
                self.diverged = Some(format!("deviation {c} at point {i} but arity is {n}"));
                c = 0;
            }
        }
        if let Some((ei, es)) = self.expect {
            if ei == i && es != self.sig && self.diverged.is_none() {
                self.diverged = Some(format!("trace signature differs from parent's at point {i}"));
            }
        }
        c
    }

    pub fn points(&self) -> u32 {
        self.idx
    }
    /// The deviations this execution was started with: together with the all-default rule they identify it.
    pub fn deviations(&self) -> Deviations {
        self.devs.clone()
    }
    pub fn unused_deviation(&self) -> bool {
        self.next_dev < self.devs.len()
    }
}

/// Convenience for harness-side (environment) choices.
pub fn env_choose(ch: &Ch, n: usize) -> usize {
    ch.borrow_mut().choose(K_ENV, n)
}

// ---------------------------------------------------------------------------------------------
// Result of one execution

#[derive(Default, Clone)]
pub struct ExecResult {
    /// Hash of the oracle-relevant observation (for "distinct outcomes").
    pub obs: u64,
    pub violation: Option<String>,
    /// counts toward distinct_nontrivial
    pub nontrivial: bool,
    /// reachability witnesses
    pub witnesses: Vec<(&'static str, u64)>,
}

#[derive(Clone, Debug)]
pub struct FoundViolation {
    pub devs: Deviations,
    pub what: String,
}

pub struct ExploreCfg {
    pub name: String,
    /// deviation bounds to complete, in order (e.g. 0..=2). usize::MAX = unbounded DFS
    pub bounds: Vec<usize>,
    pub max_execs: u64,
    pub deadline: Instant,
    pub workers: usize,
    /// per-kind filter: only deviate at these kinds (None = all)
    pub deviate_kinds: Option<Vec<u8>>,
}

impl ExploreCfg {
    pub fn new(name: &str, max_bound: usize, budget: Duration) -> Self {
        Self {
            name: name.to_string(),
            bounds: (0..=max_bound).collect(),
            max_execs: u64::MAX,
            deadline: Instant::now() + budget,
            workers: workers(),
            deviate_kinds: None,
        }
    }
    pub fn exhaustive(name: &str, budget: Duration) -> Self {
        Self {
            name: name.to_string(),
            bounds: vec![usize::MAX],
            max_execs: u64::MAX,
            deadline: Instant::now() + budget,
            workers: workers(),
            deviate_kinds: None,
        }
    }
}

#[derive(Default, Debug, Clone)]
pub struct ExploreStats {
    pub name: String,
    pub execs: u64,
    pub choice_points: u64,
    pub max_trace: u32,
    pub distinct_obs: u64,
    pub distinct_nontrivial: u64,
    /// largest bound fully completed (None if not even 0)
    pub completed_bound: Option<usize>,
    pub execs_per_bound: Vec<(usize, u64, bool)>,
    pub capped: bool,
    pub witnesses: BTreeMap<&'static str, u64>,
    pub violations: Vec<FoundViolation>,
    pub machinery_errors: Vec<String>,
    pub wall_s: f64,
}

impl ExploreStats {
    pub fn to_json(&self) -> Value {
        json!({
            "harness": self.name,
            "executions": self.execs,
            "choice_points_total": self.choice_points,
            "max_choice_points_per_execution": self.max_trace,
            "distinct_observations": self.distinct_obs,
            "distinct_nontrivial_observations": self.distinct_nontrivial,
            "completed_deviation_bound": match self.completed_bound { Some(usize::MAX) => json!("unbounded"), Some(b) => json!(b), None => Value::Null },
            "executions_per_bound": self.execs_per_bound.iter().map(|(b,n,done)| json!({"bound": if *b==usize::MAX {json!("unbounded")} else {json!(b)}, "executions": n, "completed": done})).collect::<Vec<_>>(),
            "capped": self.capped,
            "witnesses": self.witnesses.iter().map(|(k,v)| (k.to_string(), json!(v))).collect::<serde_json::Map<_,_>>(),
            "wall_s": self.wall_s,
        })
    }
}

struct Item {
    devs: Deviations,
    expect: Option<(u32, u64)>,
}

struct Shared {
    queue: Mutex<Vec<Item>>,
    cv: Condvar,
    idle: AtomicUsize,
    done: AtomicBool,
    stop: AtomicBool,
    execs: AtomicU64,
}

/// Explore all executions of `body` whose number of non-default choices is within the bound.
/// `body` must be a deterministic function of the chooser's answers.
pub fn explore<F>(cfg: &ExploreCfg, body: F) -> ExploreStats
where
    F: Fn(&Ch) -> ExecResult + Sync,
{
    let t0 = Instant::now();
    let mut total = ExploreStats { name: cfg.name.clone(), ..Default::default() };
    let mut all_obs: HashSet<u64> = HashSet::new();
    let mut nontrivial_obs: HashSet<u64> = HashSet::new();

    // Self-test: the default schedule twice must give identical traces and observations.
    {
        let a = run_one(&body, vec![], None);
        let b = run_one(&body, vec![], None);
        if a.1 != b.1 || a.0.obs != b.0.obs {
            total.machinery_errors.push(format!(
                "{}: uncontrolled nondeterminism: default schedule gave different traces/observations (points {} vs {}, obs {:x} vs {:x})",
                cfg.name, a.2, b.2, a.0.obs, b.0.obs
            ));
            total.wall_s = t0.elapsed().as_secs_f64();
            return total;
        }
    }

    for &bound in &cfg.bounds {
        let shared = Shared {
            queue: Mutex::new(vec![Item { devs: vec![], expect: None }]),
            cv: Condvar::new(),
            idle: AtomicUsize::new(0),
            done: AtomicBool::new(false),
            stop: AtomicBool::new(false),
            execs: AtomicU64::new(0),
        };
        struct Local {
            execs: u64,
            points: u64,
            max_trace: u32,
            obs: HashSet<u64>,
            nt: HashSet<u64>,
            wit: BTreeMap<&'static str, u64>,
            viol: Vec<FoundViolation>,
            errs: Vec<String>,
        }
        let nworkers = cfg.workers.max(1);
        let locals: Vec<Local> = std::thread::scope(|s| {
            let hs: Vec<_> = (0..nworkers)
                .map(|_| {
                    let shared = &shared;
                    let body = &body;
                    let cfg = &cfg;
                    s.spawn(move || {
                        let mut l = Local {
                            execs: 0,
                            points: 0,
                            max_trace: 0,
                            obs: HashSet::new(),
                            nt: HashSet::new(),
                            wit: BTreeMap::new(),
                            viol: vec![],
                            errs: vec![],
                        };
                        let mut stack: Vec<Item> = vec![];
                        loop {
                            if shared.stop.load(SeqCst) {
                                break;
                            }
                            let item = match stack.pop() {
                                Some(i) => i,
                                None => match take_shared(shared, nworkers) {
                                    Some(i) => i,
                                    None => break,
                                },
                            };
                            let cost = item.devs.len();
                            let last_idx = item.devs.last().map(|d| d.0 as i64).unwrap_or(-1);
                            let (res, trace_sig, points, trace, diverged, unused, horizon) = run_one_full(body, item.devs.clone(), item.expect);
                            let _ = trace_sig;
                            l.execs += 1;
                            l.points += points as u64;
                            l.max_trace = l.max_trace.max(points);
                            let n = shared.execs.fetch_add(1, SeqCst) + 1;
                            if let Some(d) = diverged {
                                l.errs.push(format!("{}: replay divergence for {:?}: {}", cfg.name, item.devs, d));
                                shared.stop.store(true, SeqCst);
                                shared.cv.notify_all();
                                break;
                            }
                            if unused {
                                l.errs.push(format!("{}: replay divergence for {:?}: execution ended before the last deviation point", cfg.name, item.devs));
                                shared.stop.store(true, SeqCst);
                                shared.cv.notify_all();
                                break;
                            }
                            if horizon {
                                l.errs.push(format!("{}: horizon (max choice points) exceeded for {:?}", cfg.name, item.devs));
                                shared.stop.store(true, SeqCst);
                                shared.cv.notify_all();
                                break;
                            }
                            l.obs.insert(res.obs);
                            if res.nontrivial {
                                l.nt.insert(res.obs);
                            }
                            for (k, v) in &res.witnesses {
                                *l.wit.entry(k).or_default() += v;
                            }
                            if let Some(w) = res.violation {
                                l.viol.push(FoundViolation { devs: item.devs.clone(), what: w });
                                shared.stop.store(true, SeqCst);
                                shared.cv.notify_all();
                                break;
                            }
                            if n >= cfg.max_execs || Instant::now() > cfg.deadline {
                                shared.stop.store(true, SeqCst);
                                shared.cv.notify_all();
                                break;
                            }
                            if cost < bound {
                                // children: one more deviation after the last one
                                let mut sig: u64 = 0x9e3779b97f4a7c15;
                                for (j, (ar, kind)) in trace.iter().enumerate() {
                                    sig = (sig ^ ((*ar as u64) << 8 | *kind as u64)).wrapping_mul(0x100000001b3).rotate_left(17);
                                    if (j as i64) <= last_idx {
                                        continue;
                                    }
                                    if let Some(k) = &cfg.deviate_kinds {
                                        if !k.contains(kind) {
                                            continue;
                                        }
                                    }
                                    for alt in 1..(*ar as u32) {
                                        let mut d = item.devs.clone();
                                        d.push((j as u32, alt));
                                        stack.push(Item { devs: d, expect: Some((j as u32, sig)) });
                                    }
                                }
                            }
                            // donate work if somebody is idle
                            if stack.len() > 1 && shared.idle.load(SeqCst) > 0 {
                                let half = stack.len() / 2;
                                let give: Vec<Item> = stack.drain(..half).collect();
                                let mut q = shared.queue.lock().unwrap();
                                q.extend(give);
                                shared.cv.notify_all();
                            }
                        }
                        l
                    })
                })
                .collect();
            hs.into_iter().map(|h| h.join().expect("explorer worker panicked")).collect()
        });
        let stopped = shared.stop.load(SeqCst);
        let mut bound_execs = 0;
        for l in locals {
            bound_execs += l.execs;
            total.choice_points += l.points;
            total.max_trace = total.max_trace.max(l.max_trace);
            all_obs.extend(l.obs);
            nontrivial_obs.extend(l.nt);
            for (k, v) in l.wit {
                *total.witnesses.entry(k).or_default() += v;
            }
            total.violations.extend(l.viol);
            total.machinery_errors.extend(l.errs);
        }
        total.execs += bound_execs;
        total.execs_per_bound.push((bound, bound_execs, !stopped));
        if stopped {
            if total.violations.is_empty() && total.machinery_errors.is_empty() {
                total.capped = true;
            }
            break;
        }
        total.completed_bound = Some(bound);
    }
    // keep the violation with the fewest deviations, confirm determinism by replaying twice
    total.violations.sort_by_key(|v| (v.devs.len(), v.devs.clone()));
    total.violations.truncate(1);
    if let Some(v) = total.violations.first().cloned() {
        let a = run_one(&body, v.devs.clone(), None);
        let b = run_one(&body, v.devs.clone(), None);
        if a.0.violation.is_none() || b.0.violation.is_none() || a.1 != b.1 {
            total.machinery_errors.push(format!(
                "{}: violation for {:?} did not reproduce deterministically on replay ({:?} / {:?})",
                cfg.name, v.devs, a.0.violation, b.0.violation
            ));
            total.violations.clear();
        }
    }
    total.distinct_obs = all_obs.len() as u64;
    total.distinct_nontrivial = nontrivial_obs.len() as u64;
    total.wall_s = t0.elapsed().as_secs_f64();
    total
}

fn take_shared(shared: &Shared, nworkers: usize) -> Option<Item> {
    let mut q = shared.queue.lock().unwrap();
    loop {
        if let Some(i) = q.pop() {
            return Some(i);
        }
        if shared.done.load(SeqCst) || shared.stop.load(SeqCst) {
            return None;
        }
        let idle = shared.idle.fetch_add(1, SeqCst) + 1;
        if idle == nworkers {
            shared.done.store(true, SeqCst);
            shared.cv.notify_all();
            return None;
        }
        q = shared.cv.wait(q).unwrap();
        shared.idle.fetch_sub(1, SeqCst);
    }
}

fn run_one_full<F: Fn(&Ch) -> ExecResult>(
    body: &F,
    devs: Deviations,
    expect: Option<(u32, u64)>,
) -> (ExecResult, u64, u32, Vec<(u16, u8)>, Option<String>, bool, bool) {
    let ch = Chooser::new(devs, expect);
    let res = match catch(|| body(&ch)) {
        Ok(r) => r,
        Err(p) => ExecResult { obs: fx_hash(&p), violation: Some(format!("panic in harness body: {p}")), nontrivial: true, witnesses: vec![] },
    };
    let c = ch.borrow();
    (res, c.sig, c.idx, c.trace.clone(), c.diverged.clone(), c.unused_deviation(), c.horizon_hit)
}

fn run_one<F: Fn(&Ch) -> ExecResult>(body: &F, devs: Deviations, expect: Option<(u32, u64)>) -> (ExecResult, u64, u32) {
    let r = run_one_full(body, devs, expect);
    (r.0, r.1, r.2)
}

/// Replays a single execution (used by `--replay`).
pub fn replay_one<F: Fn(&Ch) -> ExecResult>(body: &F, devs: Deviations) -> (ExecResult, Option<String>) {
    let r = run_one_full(body, devs, None);
    let d = r.4.or(if r.5 { Some("execution ended before the last deviation point".into()) } else { None });
    (r.0, d)
}

// ---------------------------------------------------------------------------------------------
// Parallel for over an index range (E4 enumerators)

pub fn par_map<T: Send, F: Fn(usize) -> T + Sync>(n: usize, f: F) -> Vec<T> {
    let next = AtomicUsize::new(0);
    let nw = workers().min(n.max(1));
    let mut out: Vec<(usize, T)> = std::thread::scope(|s| {
        let hs: Vec<_> = (0..nw)
            .map(|_| {
                s.spawn(|| {
                    let mut v = vec![];
                    loop {
                        let i = next.fetch_add(1, SeqCst);
                        if i >= n {
                            break;
                        }
                        v.push((i, f(i)));
                    }
                    v
                })
            })
            .collect();
        hs.into_iter().flat_map(|h| h.join().expect("worker panicked")).collect()
    });
    out.sort_by_key(|x| x.0);
    out.into_iter().map(|x| x.1).collect()
}

// ---------------------------------------------------------------------------------------------
// Report: what a check hands back to main()

pub struct Violation {
    /// stable key used to match known findings
    pub key: String,
    pub what: String,
    /// replay payload (check-specific JSON)
    pub replay: Value,
}

pub struct Report {
    pub property: &'static str,
    pub level: &'static str,
    pub coverage: Value,
    pub assumptions: Vec<String>,
    pub violations: Vec<Violation>,
    pub machinery_errors: Vec<String>,
}

impl Report {
    pub fn new(property: &'static str, level: &'static str) -> Self {
        Self { property, level, coverage: json!({}), assumptions: vec![], violations: vec![], machinery_errors: vec![] }
    }
    pub fn absorb(&mut self, harness: &str, st: &ExploreStats, cfgjson: Value) {
        for v in &st.violations {
            self.violations.push(Violation {
                key: format!("{harness}:{}", v.what.split('\n').next().unwrap_or("")),
                what: v.what.clone(),
                replay: json!({"harness": harness, "config": cfgjson, "deviations": v.devs}),
            });
        }
        self.machinery_errors.extend(st.machinery_errors.iter().cloned());
    }
}

pub struct KnownFindings {
    pub open: Vec<(String, String, String)>, // property, match substring, description
}

pub fn load_known_findings() -> KnownFindings {
    let p = format!("{}/known_findings.json", root());
    let p = p.as_str();
    let mut open = vec![];
    if let Ok(s) = std::fs::read_to_string(p) {
        if let Ok(v) = serde_json::from_str::<Value>(&s) {
            for f in v["findings"].as_array().cloned().unwrap_or_default() {
                open.push((
                    f["property"].as_str().unwrap_or("").to_string(),
                    f["match"].as_str().unwrap_or("\u{0}").to_string(),
                    f["what"].as_str().unwrap_or("").to_string(),
                ));
            }
        }
    }
    KnownFindings { open }
}

pub static REPLAY_MODE: std::sync::atomic::AtomicBool = std::sync::atomic::AtomicBool::new(false);
pub static EARLY_TIER_THOROUGH: std::sync::atomic::AtomicBool = std::sync::atomic::AtomicBool::new(false);

/// Ends the whole check at once with one violation that an execution has established beyond doubt, when
/// letting that execution (or the process) continue would be undefined behaviour - e.g. a task scope was left
/// while its tasks were still running, so they would go on using a stack frame that is gone. Only one thread
/// gets through; the evidence records that the exploration was ended by the verdict.
pub fn early_verdict(property: &'static str, key: &str, what: String, replay: Value, why_now: &str) -> ! {
    static ONCE: std::sync::Mutex<()> = std::sync::Mutex::new(());
    let _g = ONCE.lock().unwrap_or_else(|e| e.into_inner());
    if REPLAY_MODE.load(SeqCst) {
        println!("VIOLATION property={property} replay=<given>");
        println!("  {}", what.replace('\n', "\n  "));
        std::process::exit(1);
    }
    let mut rep = Report::new(property, "model_checking");
    rep.violations.push(Violation { key: key.into(), what, replay });
    rep.coverage = json!({
        "states": 0, "transitions": 0, "evaluations": 0, "exhaustive": false,
        "ended_by_first_violation": why_now,
    });
    let tier = if EARLY_TIER_THOROUGH.load(SeqCst) { Tier::Thorough } else { Tier::Quick };
    let code = finish(rep, tier, 0, 0.0);
    std::process::exit(code);
}

/// Writes evidence, prints VIOLATION / KNOWN-FINDING lines, returns the process exit code.
pub fn finish(mut rep: Report, tier: Tier, seed: u64, wall_s: f64) -> i32 {
    let kf = load_known_findings();
    let mut real: Vec<&Violation> = vec![];
    let mut known_lines: Vec<String> = vec![];
    for v in &rep.violations {
        if let Some(k) = kf.open.iter().find(|k| k.0 == rep.property && (v.key.contains(&k.1) || v.what.contains(&k.1))) {
            let line = format!("KNOWN-FINDING: property={} {}", rep.property, k.2);
            if !known_lines.contains(&line) {
                known_lines.push(line);
            }
        } else {
            real.push(v);
        }
    }
    for l in &known_lines {
        println!("{l}");
    }
    let mut code = 0;
    let mut replay_paths = vec![];
    for v in real.iter().take(5) {
        let h = fx_hash(&(v.key.as_str(), v.replay.to_string()));
        let path = format!("{}/replays/{}-{:016x}.json", root(), rep.property, h);
        let body = json!({"property": rep.property, "key": v.key, "what": v.what, "replay": v.replay});
        let _ = std::fs::create_dir_all(format!("{}/replays", root()));
        let _ = std::fs::write(&path, serde_json::to_string_pretty(&body).unwrap());
        println!("VIOLATION property={} replay={}", rep.property, path);
        println!("  {}", v.what.replace('\n', "\n  "));
        replay_paths.push(path);
        code = 1;
    }
    if real.len() > 5 {
        println!("  ... and {} more violations of {}", real.len() - 5, rep.property);
    }
    let nviol = real.len();
    if !rep.machinery_errors.is_empty() {
        for e in &rep.machinery_errors {
            eprintln!("MACHINERY-ERROR property={} {}", rep.property, e);
        }
        if code == 0 {
            code = 2;
        }
    }
    if let Value::Object(m) = &mut rep.coverage {
        if !replay_paths.is_empty() {
            m.insert("replays".into(), json!(replay_paths));
        }
        if !known_lines.is_empty() {
            m.insert("known_findings_hit".into(), json!(known_lines));
        }
        if !rep.machinery_errors.is_empty() {
            m.insert("machinery_errors".into(), json!(rep.machinery_errors));
        }
    }
    let ev = json!({
        "property_id": rep.property,
        "tier": tier.name(),
        "seed": seed,
        "level": rep.level,
        "coverage": rep.coverage,
        "assumptions": rep.assumptions,
        "wall_s": wall_s,
        "violations": nviol,
    });
    let _ = std::fs::create_dir_all(format!("{}/evidence", root()));
    std::fs::write(format!("{}/evidence/{}.json", root(), rep.property), serde_json::to_string_pretty(&ev).unwrap()).expect("write evidence");
    println!(
        "{} tier={} level={} violations={} wall={:.1}s exit={}",
        rep.property,
        tier.name(),
        rep.level,
        nviol,
        wall_s,
        code
    );
    code
}

/// Root of the verification tree: `$VERIF_ROOT` (set by bin/check to the tree it lives in), else /verif.
pub fn root() -> String {
    std::env::var("VERIF_ROOT").unwrap_or_else(|_| "/verif".into())
}

/// Resident set size of this process in bytes (0 if /proc is unavailable).
pub fn rss_bytes() -> usize {
    std::fs::read_to_string("/proc/self/statm").ok().and_then(|s| s.split_whitespace().nth(1).and_then(|x| x.parse::<usize>().ok())).map(|pages| pages * 4096).unwrap_or(0)
}

extern "C" {
    fn malloc_trim(pad: usize) -> i32;
}

/// Returns freed heap pages to the operating system (glibc keeps them otherwise, and the RSS caps of
/// the explicit-state searches would then see the memory of a search that is already over).
pub fn trim_memory() {
    unsafe {
        malloc_trim(0);
    }
}
