//! Independent protobuf wire-level reader / writer / mutator driven by a message descriptor.
//! Used by C09 (alternative serialisations) and C10 (malformed inputs).
use zksync_protobuf::build::prost_reflect::{Kind, MessageDescriptor};

#[derive(Clone, Debug, PartialEq)]
pub enum Val {
    Varint(u64),
    I64([u8; 8]),
    I32([u8; 4]),
    Bytes(Vec<u8>),
    Msg(Vec<Field>),
}

#[derive(Clone, Debug, PartialEq)]
pub struct Field {
    pub num: u32,
    pub val: Val,
}

fn read_varint(b: &[u8], pos: &mut usize) -> Option<u64> {
    let mut x: u64 = 0;
    let mut shift = 0;
    loop {
        let byte = *b.get(*pos)?;
        *pos += 1;
        if shift < 64 {
            x |= ((byte & 0x7f) as u64) << shift;
        }
        shift += 7;
        if byte & 0x80 == 0 {
            return Some(x);
        }
        if shift > 70 {
            return None;
        }
    }
}

pub fn write_varint(out: &mut Vec<u8>, mut x: u64) {
    loop {
        let b = (x & 0x7f) as u8;
        x >>= 7;
        if x == 0 {
            out.push(b);
            return;
        }
        out.push(b | 0x80);
    }
}

/// Parses a well-formed encoding into a tree, following the descriptor for nesting.
pub fn parse(b: &[u8], desc: &MessageDescriptor) -> Option<Vec<Field>> {
    let mut pos = 0;
    let mut out = vec![];
    while pos < b.len() {
        let tag = read_varint(b, &mut pos)?;
        let num = (tag >> 3) as u32;
        let wt = tag & 7;
        let fd = desc.get_field(num);
        let val = match wt {
            0 => Val::Varint(read_varint(b, &mut pos)?),
            1 => {
                let s = b.get(pos..pos + 8)?;
                pos += 8;
                Val::I64(s.try_into().ok()?)
            }
            5 => {
                let s = b.get(pos..pos + 4)?;
                pos += 4;
                Val::I32(s.try_into().ok()?)
            }
            2 => {
                let len = read_varint(b, &mut pos)? as usize;
                let s = b.get(pos..pos.checked_add(len)?)?;
                pos += len;
                match fd.as_ref().map(|f| f.kind()) {
                    Some(Kind::Message(m)) => Val::Msg(parse(s, &m)?),
                    _ => Val::Bytes(s.to_vec()),
                }
            }
            _ => return None,
        };
        out.push(Field { num, val });
    }
    Some(out)
}

pub fn write(fields: &[Field]) -> Vec<u8> {
    let mut out = vec![];
    for f in fields {
        let wt = match &f.val {
            Val::Varint(_) => 0,
            Val::I64(_) => 1,
            Val::I32(_) => 5,
            Val::Bytes(_) | Val::Msg(_) => 2,
        };
        write_varint(&mut out, ((f.num as u64) << 3) | wt);
        match &f.val {
            Val::Varint(x) => write_varint(&mut out, *x),
            Val::I64(x) => out.extend_from_slice(x),
            Val::I32(x) => out.extend_from_slice(x),
            Val::Bytes(x) => {
                write_varint(&mut out, x.len() as u64);
                out.extend_from_slice(x);
            }
            Val::Msg(m) => {
                let inner = write(m);
                write_varint(&mut out, inner.len() as u64);
                out.extend_from_slice(&inner);
            }
        }
    }
    out
}

/// A varint spelled with one redundant byte (valid protobuf, not minimal); values that already need ten
/// bytes are written minimally.
pub fn write_varint_padded(out: &mut Vec<u8>, x: u64) {
    let start = out.len();
    write_varint(out, x);
    if out.len() - start < 10 {
        let last = out.len() - 1;
        out[last] |= 0x80;
        out.push(0x00);
    }
}

/// The same message as `write(fields)` with over-long varints: `values` pads varint field values, `keys` the
/// field keys, `lens` the length prefixes (at every nesting depth).
pub fn write_padded(fields: &[Field], values: bool, keys: bool, lens: bool) -> Vec<u8> {
    let mut out = vec![];
    let wv = |out: &mut Vec<u8>, x: u64, pad: bool| if pad { write_varint_padded(out, x) } else { write_varint(out, x) };
    for f in fields {
        let wt = match &f.val {
            Val::Varint(_) => 0,
            Val::I64(_) => 1,
            Val::I32(_) => 5,
            Val::Bytes(_) | Val::Msg(_) => 2,
        };
        wv(&mut out, ((f.num as u64) << 3) | wt, keys);
        match &f.val {
            Val::Varint(x) => wv(&mut out, *x, values),
            Val::I64(x) => out.extend_from_slice(x),
            Val::I32(x) => out.extend_from_slice(x),
            Val::Bytes(x) => {
                wv(&mut out, x.len() as u64, lens);
                out.extend_from_slice(x);
            }
            Val::Msg(m) => {
                let inner = write_padded(m, values, keys, lens);
                wv(&mut out, inner.len() as u64, lens);
                out.extend_from_slice(&inner);
            }
        }
    }
    out
}

pub const INT_ALPHABET: [u64; 9] = [0, 1, 127, 128, (1 << 32) - 1, 1 << 32, (1 << 63) - 1, 1 << 63, u64::MAX];

/// A path to a field inside the tree (indices into successive `Vec<Field>`s).
pub type Path = Vec<usize>;

pub fn paths(fields: &[Field]) -> Vec<Path> {
    fn rec(fields: &[Field], prefix: &mut Path, out: &mut Vec<Path>) {
        for (i, f) in fields.iter().enumerate() {
            prefix.push(i);
            out.push(prefix.clone());
            if let Val::Msg(m) = &f.val {
                rec(m, prefix, out);
            }
            prefix.pop();
        }
    }
    let mut out = vec![];
    rec(fields, &mut vec![], &mut out);
    out
}

fn get_mut<'a>(fields: &'a mut Vec<Field>, path: &[usize]) -> (&'a mut Vec<Field>, usize) {
    if path.len() == 1 {
        return (fields, path[0]);
    }
    match &mut fields[path[0]].val {
        Val::Msg(m) => get_mut(m, &path[1..]),
        _ => unreachable!("path through a non-message"),
    }
}

pub fn get<'a>(fields: &'a [Field], path: &[usize]) -> &'a Field {
    if path.len() == 1 {
        return &fields[path[0]];
    }
    match &fields[path[0]].val {
        Val::Msg(m) => get(m, &path[1..]),
        _ => unreachable!(),
    }
}

/// Number of single-point mutations available at `path`.
pub fn mutation_count(fields: &[Field], path: &[usize]) -> usize {
    match &get(fields, path).val {
        Val::Varint(_) => 4 + INT_ALPHABET.len(),
        Val::I64(_) | Val::I32(_) => 4 + 3,
        Val::Bytes(_) => 4 + 8,
        Val::Msg(_) => 4 + 2,
    }
}

/// Applies mutation number `k` at `path`; returns a description. Mutations 0..4 are structural
/// (remove the field, duplicate it, change its wire type, swap it with the next occurrence of the
/// same field number - i.e. list a repeated field in another order), the rest replace the value by
/// an element of its boundary alphabet.
pub fn mutate(fields: &mut Vec<Field>, path: &[usize], k: usize) -> String {
    let (v, i) = get_mut(fields, path);
    let num = v[i].num;
    match k {
        0 => {
            v.remove(i);
            return format!("remove field {num}");
        }
        1 => {
            let f = v[i].clone();
            v.insert(i, f);
            return format!("duplicate field {num}");
        }
        2 => {
            let nv = match &v[i].val {
                Val::Varint(x) => Val::Bytes(x.to_le_bytes().to_vec()),
                Val::I64(_) | Val::I32(_) => Val::Varint(7),
                Val::Bytes(_) | Val::Msg(_) => Val::Varint(1),
            };
            v[i].val = nv;
            return format!("field {num} with another wire type");
        }
        3 => {
            if let Some(j) = (i + 1..v.len()).find(|j| v[*j].num == num) {
                v.swap(i, j);
                return format!("repeated field {num}: entries {i} and {j} swapped");
            }
            return format!("field {num} unchanged (not repeated)");
        }
        _ => {}
    }
    let k = k - 4;
    let f = &mut v[i];
    match &mut f.val {
        Val::Varint(x) => {
            *x = INT_ALPHABET[k];
            format!("field {num} := {}", INT_ALPHABET[k])
        }
        Val::I64(x) => {
            *x = [[0u8; 8], [0xff; 8], [0, 0, 0, 0, 0, 0, 0, 0x80]][k];
            format!("field {num} := fixed64 pattern {k}")
        }
        Val::I32(x) => {
            *x = [[0u8; 4], [0xff; 4], [0, 0, 0, 0x80]][k];
            format!("field {num} := fixed32 pattern {k}")
        }
        Val::Bytes(b) => {
            let d = match k {
                0 => {
                    b.clear();
                    "empty"
                }
                1 => {
                    *b = vec![0];
                    "one zero byte"
                }
                2 => {
                    b.pop();
                    "last byte dropped"
                }
                3 => {
                    b.push(0x80);
                    "one byte appended"
                }
                4 => {
                    if let Some(x) = b.first_mut() {
                        *x ^= 0x01;
                    }
                    "first byte flipped"
                }
                5 => {
                    for x in b.iter_mut() {
                        *x = 0xff;
                    }
                    "all bytes 0xff"
                }
                6 => {
                    for x in b.iter_mut() {
                        *x = 0;
                    }
                    "all bytes zero"
                }
                _ => {
                    if let Some(x) = b.last_mut() {
                        *x ^= 0x80;
                    }
                    "last byte's top bit flipped"
                }
            };
            format!("field {num} bytes: {d}")
        }
        Val::Msg(m) => {
            if k == 0 {
                m.clear();
                format!("field {num} := empty message")
            } else {
                m.push(Field { num: 1999, val: Val::Varint(5) });
                format!("field {num} gets an unknown field")
            }
        }
    }
}

/// Alternative valid serialisations of the same message: at every message node of the tree
/// (any depth), one at a time, the field order is permuted (all permutations when the node has
/// at most 4 fields, else reverse and rotations); plus one variant with every node reversed.
/// Entries of the same repeated field keep their relative order.
pub fn alternatives(fields: &[Field]) -> Vec<Vec<Field>> {
    fn perms_of(n: usize) -> Vec<Vec<usize>> {
        if n <= 1 {
            return vec![];
        }
        if n <= 4 {
            return super::checks::util::permutations(n).into_iter().filter(|p| !p.iter().enumerate().all(|(i, x)| i == *x)).collect();
        }
        let mut v = vec![(0..n).rev().collect::<Vec<_>>()];
        for r in [1, n / 2, n - 1] {
            v.push((0..n).map(|i| (i + r) % n).collect());
        }
        v.sort();
        v.dedup();
        v
    }
    fn apply(fields: &[Field], p: &[usize]) -> Option<Vec<Field>> {
        let out: Vec<Field> = p.iter().map(|i| fields[*i].clone()).collect();
        for num in fields.iter().map(|f| f.num) {
            let a: Vec<&Field> = fields.iter().filter(|f| f.num == num).collect();
            let b: Vec<&Field> = out.iter().filter(|f| f.num == num).collect();
            if a != b {
                return None;
            }
        }
        Some(out)
    }
    // message nodes: path of indices to the field holding the message ([] = root)
    fn nodes(fields: &[Field], prefix: &mut Vec<usize>, out: &mut Vec<Vec<usize>>) {
        out.push(prefix.clone());
        for (i, f) in fields.iter().enumerate() {
            if let Val::Msg(m) = &f.val {
                prefix.push(i);
                nodes(m, prefix, out);
                prefix.pop();
            }
        }
    }
    fn node_mut<'a>(fields: &'a mut Vec<Field>, path: &[usize]) -> &'a mut Vec<Field> {
        if path.is_empty() {
            return fields;
        }
        match &mut fields[path[0]].val {
            Val::Msg(m) => node_mut(m, &path[1..]),
            _ => unreachable!(),
        }
    }
    fn reverse_all(fields: &mut Vec<Field>) {
        let n = fields.len();
        if let Some(x) = apply(fields, &(0..n).rev().collect::<Vec<_>>()) {
            *fields = x;
        }
        for f in fields.iter_mut() {
            if let Val::Msg(m) = &mut f.val {
                reverse_all(m);
            }
        }
    }
    let mut ns = vec![];
    nodes(fields, &mut vec![], &mut ns);
    let mut out = vec![];
    {
        let mut all = fields.to_vec();
        reverse_all(&mut all);
        if all != fields {
            out.push(all);
        }
    }
    for n in &ns {
        let mut base = fields.to_vec();
        let cur = node_mut(&mut base, n).clone();
        for p in perms_of(cur.len()) {
            if let Some(x) = apply(&cur, &p) {
                let mut y = fields.to_vec();
                *node_mut(&mut y, n) = x;
                out.push(y);
            }
        }
    }
    out
}
