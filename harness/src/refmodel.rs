//! Reference replica: a direct transcription of spec/informal-spec/replica.rs + proposer.rs over
//! abstract values, extended by the implementation's documented refinements R1-R10 (DESIGN.md §4
//! C05). It is stepped in lock-step with the real replica on the abstraction of the same
//! (state, input); outcome (accepted / refused / blocked), resulting abstract state and the
//! multiset of emitted abstract messages must coincide.
use std::collections::{BTreeMap, BTreeSet};

use zksync_consensus_roles::validator::{self, v2};

use crate::{
    bftmsgs::{acqc, atqc, avote, ph, ATqc, AVote},
    bftsim::{Input, Local, SignedMsg, World, MAX_PAYLOAD},
};

#[derive(Clone, Debug, PartialEq, Eq)]
pub struct RefState {
    pub view: u64,
    pub phase: u8, // 0 prepare, 1 commit, 2 timeout
    pub high_vote: Option<AVote>,
    pub high_commit_qc: Option<AVote>,
    pub high_timeout_qc: Option<ATqc>,
    pub proposals: BTreeMap<u64, BTreeSet<u64>>,
    /// persisted blocks (number = index + first_block), by payload hash
    pub stored: Vec<u64>,
    pub commit_views: BTreeMap<usize, u64>,
    pub commit_qcs: BTreeMap<u64, BTreeMap<AVote, BTreeSet<usize>>>,
    pub timeout_views: BTreeMap<usize, u64>,
    pub timeout_qcs: BTreeMap<u64, BTreeMap<(Option<AVote>, Option<AVote>), BTreeSet<usize>>>,
}

#[derive(Clone, Debug, PartialEq, Eq, PartialOrd, Ord)]
pub enum AMsg {
    Commit(AVote),
    Timeout { view: u64, high_vote: Option<AVote>, high_qc: Option<AVote> },
    NewView(AJust),
    Proposal { just: AJust, payload: Option<u64> },
}

#[derive(Clone, Debug, PartialEq, Eq, PartialOrd, Ord)]
pub enum AJust {
    Commit(AVote),
    Timeout(ATqc),
}

impl AJust {
    pub fn view(&self) -> u64 {
        match self {
            AJust::Commit(q) => q.view + 1,
            AJust::Timeout(q) => q.view + 1,
        }
    }
}

pub fn ajust(j: &v2::ProposalJustification) -> AJust {
    match j {
        v2::ProposalJustification::Commit(q) => AJust::Commit(acqc(q)),
        v2::ProposalJustification::Timeout(q) => AJust::Timeout(atqc(q)),
    }
}

pub fn amsg(m: &SignedMsg) -> AMsg {
    let validator::ConsensusMsg::V2(x) = &m.msg;
    match x {
        v2::ChonkyMsg::ReplicaCommit(c) => AMsg::Commit(avote(c)),
        v2::ChonkyMsg::ReplicaTimeout(t) => AMsg::Timeout { view: t.view.number.0, high_vote: t.high_vote.as_ref().map(avote), high_qc: t.high_qc.as_ref().map(acqc) },
        v2::ChonkyMsg::ReplicaNewView(n) => AMsg::NewView(ajust(&n.justification)),
        v2::ChonkyMsg::LeaderProposal(p) => AMsg::Proposal { just: ajust(&p.justification), payload: p.proposal_payload.as_ref().map(|p| ph(&p.hash())) },
    }
}

pub fn abstract_state(w: &World, l: &Local) -> RefState {
    let idx = |k: &validator::PublicKey| w.c.keys.iter().position(|x| x.public() == *k).unwrap_or(usize::MAX);
    let s = &l.snap;
    let set = |b: &bit_vec::BitVec| b.iter().enumerate().filter(|(_, x)| *x).map(|(i, _)| i).collect::<BTreeSet<usize>>();
    RefState {
        view: s.view_number.0,
        phase: match s.phase {
            v2::Phase::Prepare => 0,
            v2::Phase::Commit => 1,
            v2::Phase::Timeout => 2,
        },
        high_vote: s.high_vote.as_ref().map(avote),
        high_commit_qc: s.high_commit_qc.as_ref().map(acqc),
        high_timeout_qc: s.high_timeout_qc.as_ref().map(atqc),
        proposals: s.proposals.iter().map(|(n, v)| (n.0, v.iter().map(|p| ph(&p.hash())).collect())).collect(),
        stored: l.blocks.iter().map(|b| ph(&b.payload.hash())).collect(),
        commit_views: s.commit_views_cache.iter().map(|(k, v)| (idx(k), v.0)).collect(),
        commit_qcs: s.commit_qcs_cache.iter().map(|(v, m)| (v.0, m.iter().map(|(k, q)| (avote(k), set(&q.signers.0))).collect())).collect(),
        timeout_views: s.timeout_views_cache.iter().map(|(k, v)| (idx(k), v.0)).collect(),
        timeout_qcs: s.timeout_qcs_cache.iter().map(|(v, q)| (v.0, q.map.iter().map(|(m, sg)| ((m.high_vote.as_ref().map(avote), m.high_qc.as_ref().map(acqc)), set(&sg.0))).collect())).collect(),
    }
}

#[derive(Clone, Debug, PartialEq, Eq)]
pub enum Outcome {
    Accepted,
    Refused,
    /// the handler waits for the engine forever (only block sync / a restart gets it out)
    Blocked,
}

pub struct Ref<'a> {
    pub w: &'a World,
    pub me: usize,
    /// blocks that block sync can deliver while a handler waits: number -> hash
    pub sync: BTreeMap<u64, u64>,
    pub first_block: u64,
}

impl<'a> Ref<'a> {
    fn weight(&self, s: &BTreeSet<usize>) -> u64 {
        s.iter().map(|i| self.w.c.weights[*i]).sum()
    }

    /// spec: Justification::get_implied_block (votes are grouped by block, see R11 in DESIGN.md)
    pub fn implied_block(&self, j: &AJust) -> (u64, Option<u64>) {
        match j {
            AJust::Commit(q) => (q.number + 1, None),
            AJust::Timeout(t) => {
                let mut by_block: BTreeMap<(u64, u64), u64> = BTreeMap::new();
                let mut high_qc: Option<AVote> = None;
                for (hv, hq, signers) in &t.groups {
                    let wgt: u64 = signers.iter().enumerate().filter(|(_, b)| **b).map(|(i, _)| self.w.c.weights[i]).sum();
                    if let Some(v) = hv {
                        *by_block.entry((v.number, v.hash)).or_default() += wgt;
                    }
                    if let Some(q) = hq {
                        if high_qc.as_ref().map(|h| q.view > h.view).unwrap_or(true) {
                            high_qc = Some(q.clone());
                        }
                    }
                }
                let sub = self.w.c.subquorum();
                let subs: Vec<_> = by_block.iter().filter(|(_, wg)| **wg >= sub).collect();
                let high_vote = if subs.len() == 1 { Some(*subs[0].0) } else { None };
                match (high_vote, &high_qc) {
                    (Some((n, h)), None) => (n, Some(h)),
                    (Some((n, h)), Some(q)) if n > q.number => (n, Some(h)),
                    (_, Some(q)) => (q.number + 1, None),
                    (_, None) => (self.first_block, None),
                }
            }
        }
    }

    fn tq_high_qc(t: &ATqc) -> Option<AVote> {
        let mut best: Option<AVote> = None;
        for (_, hq, _) in &t.groups {
            if let Some(q) = hq {
                if best.as_ref().map(|b| q.view > b.view).unwrap_or(true) {
                    best = Some(q.clone());
                }
            }
        }
        best
    }

    /// Stores blocks through block sync until `upto` (exclusive) is persisted, if sync can.
    fn sync_until(&self, s: &mut RefState, upto: u64) -> bool {
        while (self.first_block + s.stored.len() as u64) < upto {
            let next = self.first_block + s.stored.len() as u64;
            match self.sync.get(&next) {
                Some(h) => s.stored.push(*h),
                None => return false,
            }
        }
        true
    }

    /// R9 + R10.
    fn process_commit_qc(&self, s: &mut RefState, qc: &AVote) -> bool {
        if s.high_commit_qc.as_ref().map(|h| h.view < qc.view).unwrap_or(true) {
            s.high_commit_qc = Some(qc.clone());
            if s.proposals.get(&qc.number).map(|m| m.contains(&qc.hash)).unwrap_or(false) {
                // save_block: the block is queued once all predecessors are stored
                if !self.sync_until(s, qc.number) {
                    return false; // blocked
                }
                if self.first_block + s.stored.len() as u64 == qc.number {
                    s.stored.push(qc.hash);
                }
            }
        }
        true
    }

    fn process_timeout_qc(&self, s: &mut RefState, tq: &ATqc) -> bool {
        if let Some(q) = Self::tq_high_qc(tq) {
            if !self.process_commit_qc(s, &q) {
                return false;
            }
        }
        if s.high_timeout_qc.as_ref().map(|h| h.view < tq.view).unwrap_or(true) {
            s.high_timeout_qc = Some(tq.clone());
        }
        true
    }

    fn justification(&self, s: &RefState) -> AJust {
        let cv = s.high_commit_qc.as_ref().map(|q| q.view);
        let tv = s.high_timeout_qc.as_ref().map(|q| q.view);
        if cv >= tv {
            AJust::Commit(s.high_commit_qc.clone().expect("some certificate"))
        } else {
            AJust::Timeout(s.high_timeout_qc.clone().unwrap())
        }
    }

    fn start_new_view(&self, s: &mut RefState, v: u64, out: &mut Vec<AMsg>) {
        s.view = v;
        s.phase = 0;
        let j = self.justification(s);
        // R8
        if let Some(q) = &s.high_commit_qc {
            let n = q.number;
            s.proposals.retain(|k, _| *k > n);
        }
        out.push(AMsg::NewView(j));
    }

    /// One step of the reference replica. `valid` = signature and certificates verify (decided
    /// by the roles library, whose verdicts C04 checks exhaustively).
    pub fn step(&self, s0: &RefState, input: &Input, valid: bool) -> (Outcome, RefState, Vec<AMsg>) {
        let mut s = s0.clone();
        let mut out = vec![];
        let w = self.w;
        let member = |k: &validator::PublicKey| w.c.keys.iter().position(|x| x.public() == *k);
        let quorum = w.c.quorum();
        match input {
            Input::Timeout => {
                s.phase = 2;
                if s.view != 0 {
                    out.push(AMsg::NewView(self.justification(&s)));
                }
                out.push(AMsg::Timeout { view: s.view, high_vote: s.high_vote.clone(), high_qc: s.high_commit_qc.clone() });
                (Outcome::Accepted, s, out)
            }
            Input::Sync(b) => {
                let (n, h) = (b.number().0, ph(&b.payload.hash()));
                if !valid {
                    return (Outcome::Refused, s0.clone(), vec![]);
                }
                if !self.sync_until(&mut s, n) {
                    return (Outcome::Blocked, s, vec![]);
                }
                if self.first_block + s.stored.len() as u64 == n {
                    s.stored.push(h);
                }
                (Outcome::Accepted, s, out)
            }
            Input::Propose(j) => {
                let aj = ajust(j);
                let (n, opt) = self.implied_block(&aj);
                let payload = match opt {
                    Some(_) => None,
                    None => {
                        if n > self.first_block && !self.sync_until(&mut s, n) {
                            // waits for the predecessor until the proposer's deadline
                            return (Outcome::Refused, s, vec![]);
                        }
                        Some(ph(&w.proposals[(n as usize) % w.proposals.len()].hash()))
                    }
                };
                out.push(AMsg::Proposal { just: aj, payload });
                (Outcome::Accepted, s, out)
            }
            Input::Msg(m) => {
                let validator::ConsensusMsg::V2(x) = &m.msg;
                match x {
                    v2::ChonkyMsg::LeaderProposal(p) => {
                        let pv = p.view().number.0;
                        if !((pv == s.view && s.phase == 0) || pv > s.view) {
                            return (Outcome::Refused, s, out);
                        }
                        if member(&m.key) != Some(w.leader(pv)) || !valid {
                            return (Outcome::Refused, s, out);
                        }
                        let aj = ajust(&p.justification);
                        let (n, opt) = self.implied_block(&aj);
                        if n < self.first_block {
                            return (Outcome::Refused, s, out); // R5
                        }
                        let hash = match opt {
                            Some(h) => {
                                if p.proposal_payload.is_some() {
                                    return (Outcome::Refused, s, out);
                                }
                                h
                            }
                            None => {
                                let Some(pl) = &p.proposal_payload else { return (Outcome::Refused, s, out) };
                                if pl.len() > MAX_PAYLOAD {
                                    return (Outcome::Refused, s, out); // R6
                                }
                                // R4: the predecessor must be stored (block sync may bring it before the deadline)
                                if n > self.first_block && !self.sync_until(&mut s, n) {
                                    return (Outcome::Refused, s, out);
                                }
                                if *pl == w.invalid_payload {
                                    return (Outcome::Refused, s, out);
                                }
                                let h = ph(&pl.hash());
                                s.proposals.entry(n).or_default().insert(h);
                                h
                            }
                        };
                        let vote = AVote { view: pv, number: n, hash };
                        s.view = pv;
                        s.phase = 1;
                        s.high_vote = Some(vote.clone());
                        let ok = match &aj {
                            AJust::Commit(q) => self.process_commit_qc(&mut s, q),
                            AJust::Timeout(t) => self.process_timeout_qc(&mut s, t),
                        };
                        if !ok {
                            return (Outcome::Blocked, s, out);
                        }
                        out.push(AMsg::Commit(vote));
                        (Outcome::Accepted, s, out)
                    }
                    v2::ChonkyMsg::ReplicaCommit(c) => {
                        let Some(i) = member(&m.key) else { return (Outcome::Refused, s, out) }; // R1
                        let a = avote(c);
                        if a.view < s.view {
                            return (Outcome::Refused, s, out);
                        }
                        if s.commit_views.get(&i).map(|v| *v >= a.view).unwrap_or(false) || !valid {
                            return (Outcome::Refused, s, out);
                        }
                        s.commit_qcs.entry(a.view).or_default().entry(a.clone()).or_default().insert(i);
                        let wgt = self.weight(&s.commit_qcs[&a.view][&a]);
                        s.commit_views.insert(i, a.view);
                        // R3
                        let active: BTreeSet<u64> = s.commit_views.values().copied().collect();
                        s.commit_qcs.retain(|v, _| active.contains(v));
                        if wgt < quorum {
                            return (Outcome::Accepted, s, out);
                        }
                        s.commit_qcs.remove(&a.view);
                        if !self.process_commit_qc(&mut s, &a) {
                            return (Outcome::Blocked, s, out);
                        }
                        self.start_new_view(&mut s, a.view + 1, &mut out);
                        (Outcome::Accepted, s, out)
                    }
                    v2::ChonkyMsg::ReplicaTimeout(t) => {
                        let Some(i) = member(&m.key) else { return (Outcome::Refused, s, out) };
                        let v = t.view.number.0;
                        if v < s.view {
                            return (Outcome::Refused, s, out);
                        }
                        if s.timeout_views.get(&i).map(|x| *x >= v).unwrap_or(false) || !valid {
                            return (Outcome::Refused, s, out);
                        }
                        let content = (t.high_vote.as_ref().map(avote), t.high_qc.as_ref().map(acqc));
                        s.timeout_qcs.entry(v).or_default().entry(content).or_default().insert(i);
                        let wgt: u64 = s.timeout_qcs[&v].values().map(|sg| self.weight(sg)).sum();
                        s.timeout_views.insert(i, v);
                        let active: BTreeSet<u64> = s.timeout_views.values().copied().collect();
                        s.timeout_qcs.retain(|x, _| active.contains(x));
                        if wgt < quorum {
                            return (Outcome::Accepted, s, out);
                        }
                        let groups = s.timeout_qcs.remove(&v).unwrap();
                        let n = w.n();
                        let mut g: Vec<_> = groups.into_iter().map(|((hv, hq), sg)| (hv, hq, (0..n).map(|k| sg.contains(&k)).collect::<Vec<bool>>())).collect();
                        g.sort();
                        let tq = ATqc { view: v, groups: g };
                        if !self.process_timeout_qc(&mut s, &tq) {
                            return (Outcome::Blocked, s, out);
                        }
                        self.start_new_view(&mut s, v + 1, &mut out);
                        (Outcome::Accepted, s, out)
                    }
                    v2::ChonkyMsg::ReplicaNewView(nv) => {
                        let v = nv.view().number.0;
                        // R2
                        if v < s.view || (v == s.view && member(&m.key) != Some(w.leader(s.view))) {
                            return (Outcome::Refused, s, out);
                        }
                        if member(&m.key).is_none() || !valid {
                            return (Outcome::Refused, s, out);
                        }
                        let aj = ajust(&nv.justification);
                        let ok = match &aj {
                            AJust::Commit(q) => self.process_commit_qc(&mut s, q),
                            AJust::Timeout(t) => self.process_timeout_qc(&mut s, t),
                        };
                        if !ok {
                            return (Outcome::Blocked, s, out);
                        }
                        if v > s.view {
                            self.start_new_view(&mut s, v, &mut out);
                        }
                        (Outcome::Accepted, s, out)
                    }
                }
            }
        }
    }
}

/// Does the message verify (signature, chain / epoch, nested certificates)? Delegated to the roles
/// library (whose verdicts are the subject of C04).
pub fn input_valid(w: &World, input: &Input) -> bool {
    let (g, e, sch) = (w.c.genesis.hash(), w.c.epoch, &w.c.schedule);
    match input {
        Input::Timeout | Input::Propose(_) => true,
        Input::Sync(b) => b.verify(g, e, sch).is_ok(),
        Input::Msg(m) => {
            if m.verify().is_err() {
                return false;
            }
            let validator::ConsensusMsg::V2(x) = &m.msg;
            match x {
                v2::ChonkyMsg::LeaderProposal(p) => p.verify(g, e, sch).is_ok(),
                v2::ChonkyMsg::ReplicaCommit(c) => c.verify(g, e).is_ok(),
                v2::ChonkyMsg::ReplicaTimeout(t) => t.verify(g, e, sch).is_ok(),
                v2::ChonkyMsg::ReplicaNewView(n) => n.verify(g, e, sch).is_ok(),
            }
        }
    }
}
