//! Exhaustive exploration of the interleavings of a few REAL threads at the scheduling points of
//! `zksync_concurrency::verif` (a point before every acquisition of an instrumented mutex and at the
//! end of `signal::Once::send`). Exactly one registered thread runs at a time; at every point the
//! explorer decides who continues. A thread that finds a lock taken reports `WouldBlock` and is not
//! offered again before another thread has made a step, so waiting is visible and spin loops cannot
//! make the space infinite; "every live thread blocked" is a deadlock.
use std::{
    cell::RefCell,
    sync::{Arc, Condvar, Mutex, Once},
};

use zksync_concurrency::verif::{self as cv, Event};

#[derive(Clone, Copy, PartialEq, Debug)]
enum T {
    Running,
    AtPoint,
    Blocked,
    Done,
}

struct St {
    t: Vec<T>,
    turn: Option<usize>,
    prefix: Vec<usize>,
    pos: usize,
    arities: Vec<usize>,
    deadlock: bool,
    abort: bool,
}

pub struct Sched {
    s: Mutex<St>,
    cv: Condvar,
}

thread_local! {
    static ME: RefCell<Option<(Arc<Sched>, usize)>> = const { RefCell::new(None) };
}

static INSTALL: Once = Once::new();

fn global_hook(ev: Event) {
    let me = ME.with(|m| m.borrow().clone());
    if let Some((s, i)) = me {
        s.event(i, ev);
    }
}

impl Sched {
    /// Chooses who runs next (called with the lock held, when no thread is running).
    fn pick(&self, st: &mut St) {
        if st.t.iter().any(|x| *x == T::Running) {
            return;
        }
        let cands: Vec<usize> = (0..st.t.len()).filter(|i| st.t[*i] == T::AtPoint).collect();
        if cands.is_empty() {
            if st.t.iter().any(|x| *x == T::Blocked) {
                // nobody can move: deadlock. Let the blocked threads unwind.
                st.deadlock = true;
                st.abort = true;
            }
            st.turn = None;
            return;
        }
        let c = if cands.len() > 1 {
            let c = st.prefix.get(st.pos).copied().unwrap_or(0);
            st.arities.push(cands.len());
            st.pos += 1;
            c.min(cands.len() - 1)
        } else {
            0
        };
        let who = cands[c];
        st.turn = Some(who);
        st.t[who] = T::Running;
    }

    /// Some thread made real progress: blocked threads may retry.
    fn unblock(st: &mut St) {
        for x in st.t.iter_mut() {
            if *x == T::Blocked {
                *x = T::AtPoint;
            }
        }
    }

    fn event(&self, me: usize, ev: Event) {
        let mut st = self.s.lock().unwrap();
        if std::env::var("VERIF_DEBUG").is_ok() {
            eprintln!("  thread {me} {ev:?} states {:?} turn {:?}", st.t, st.turn);
        }
        if ev == Event::Point {
            // the step that just ended did something (a failed retry reports WouldBlock instead)
            Self::unblock(&mut st);
        }
        st.t[me] = if ev == Event::WouldBlock { T::Blocked } else { T::AtPoint };
        st.turn = None;
        self.pick(&mut st);
        self.cv.notify_all();
        while st.turn != Some(me) {
            if st.abort {
                drop(st);
                panic!("DEADLOCK: every live thread waits for a lock or an event");
            }
            st = self.cv.wait(st).unwrap();
        }
    }

    fn finished(&self, me: usize) {
        let mut st = self.s.lock().unwrap();
        Self::unblock(&mut st);
        st.t[me] = T::Done;
        st.turn = None;
        self.pick(&mut st);
        self.cv.notify_all();
    }
}

/// A point at which the calling (registered) thread cannot continue before another thread has made
/// a step (used by harness bodies that wait for an event).
pub fn wait_point() {
    global_hook(Event::WouldBlock);
}

pub struct Run {
    pub arities: Vec<usize>,
    pub deadlock: bool,
    pub panics: Vec<String>,
}

/// Runs the bodies on real threads under the interleaving selected by `prefix` (choice k among the
/// enabled threads at the k-th point with more than one enabled thread; 0 beyond the prefix).
pub fn run_interleaving(prefix: &[usize], bodies: Vec<Box<dyn FnOnce() + Send>>) -> Run {
    INSTALL.call_once(|| cv::install_thread_hook(Arc::new(global_hook)));
    let n = bodies.len();
    let sched = Arc::new(Sched { s: Mutex::new(St { t: vec![T::Running; n], turn: None, prefix: prefix.to_vec(), pos: 0, arities: vec![], deadlock: false, abort: false }), cv: Condvar::new() });
    let hs: Vec<_> = bodies
        .into_iter()
        .enumerate()
        .map(|(i, b)| {
            let sched = sched.clone();
            std::thread::spawn(move || {
                ME.with(|m| *m.borrow_mut() = Some((sched.clone(), i)));
                // the watch-channel points of the vendored tokio are scheduling points too
                tokio::verif_sched::install_thread_hook(Box::new(|| global_hook(Event::Point)));
                let r = crate::core::catch(std::panic::AssertUnwindSafe(|| {
                    // park before doing anything: the first step is a choice too
                    global_hook(Event::Point);
                    b();
                }));
                tokio::verif_sched::uninstall_thread_hook();
                ME.with(|m| *m.borrow_mut() = None);
                sched.finished(i);
                r.err()
            })
        })
        .collect();
    let mut panics = vec![];
    for h in hs {
        if let Ok(Some(p)) = h.join() {
            if !p.contains("DEADLOCK") {
                panics.push(p);
            }
        }
    }
    let st = sched.s.lock().unwrap();
    Run { arities: st.arities.clone(), deadlock: st.deadlock, panics }
}

/// All interleavings (depth-first over the choice prefixes). `body` builds fresh thread bodies for one
/// run and returns a closure evaluated after the run. Returns (runs, first failure).
pub fn explore_all<F>(mut make: F, max_runs: u64) -> (u64, bool, Option<(Vec<usize>, String)>)
where
    F: FnMut() -> (Vec<Box<dyn FnOnce() + Send>>, Box<dyn FnOnce(&Run) -> Option<String>>),
{
    let mut prefix: Vec<usize> = vec![];
    let mut runs = 0u64;
    loop {
        let (bodies, check) = make();
        if std::env::var("VERIF_DEBUG").is_ok() {
            eprintln!("threads: run {runs} prefix {prefix:?}");
        }
        let run = run_interleaving(&prefix, bodies);
        runs += 1;
        let mut verdict = check(&run);
        if verdict.is_none() && run.deadlock {
            verdict = Some("deadlock: every live thread waits for a lock or an event".into());
        }
        if verdict.is_none() {
            if let Some(p) = run.panics.first() {
                verdict = Some(format!("a thread panicked: {p}"));
            }
        }
        if let Some(v) = verdict {
            let mut taken: Vec<usize> = prefix.clone();
            taken.resize(run.arities.len(), 0);
            return (runs, false, Some((taken, v)));
        }
        // next prefix: increment the last position that can still be incremented
        let mut taken: Vec<usize> = prefix.clone();
        taken.resize(run.arities.len(), 0);
        let mut k = taken.len();
        loop {
            if k == 0 {
                return (runs, true, None);
            }
            k -= 1;
            if taken[k] + 1 < run.arities[k] {
                taken[k] += 1;
                taken.truncate(k + 1);
                break;
            }
        }
        prefix = taken;
        if runs >= max_runs {
            return (runs, false, None);
        }
    }
}

/// Drives a future on the calling thread without ever blocking in the operating system: a
/// `Pending` poll (e.g. an async mutex held by a thread that is parked at a scheduling point) is
/// reported as "cannot continue before another thread has made a step".
pub fn block_on_visible<F: std::future::Future>(f: F) -> F::Output {
    let mut f = std::pin::pin!(f);
    let mut cx = std::task::Context::from_waker(std::task::Waker::noop());
    loop {
        match f.as_mut().poll(&mut cx) {
            std::task::Poll::Ready(v) => return v,
            std::task::Poll::Pending => wait_point(),
        }
    }
}
