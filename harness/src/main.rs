//! vcheck <ID> --tier quick|thorough [--replay FILE]
#![allow(clippy::all)]
mod alloc;
mod bftmsgs;
mod bftsim;
mod checks;
mod pipe;
mod refmodel;
mod core;
mod sched;
mod threads;
mod wire;

use std::time::Instant;

#[global_allocator]
static GLOBAL: alloc::Counting = alloc::Counting;

use crate::core::{Report, Tier};

pub struct Args {
    pub tier: Tier,
    pub seed: u64,
    pub replay: Option<serde_json::Value>,
}

fn main() {
    let argv: Vec<String> = std::env::args().collect();
    if argv.len() < 2 {
        eprintln!("usage: vcheck <ID> [--tier quick|thorough] [--replay FILE]");
        std::process::exit(2);
    }
    let id = argv[1].to_uppercase();
    // Hard memory cap: an engine that outgrows it ends as a machinery failure (exit 2) with a message,
    // not in the kernel's OOM killer (which has twice ended a thorough run without a word). The
    // explicit-state searches stop themselves earlier (soft cap VERIF_RSS_LIMIT_GB, reported as capped).
    {
        let hard: usize = std::env::var("VERIF_RSS_HARD_GB").ok().and_then(|s| s.parse().ok()).unwrap_or(40usize) << 30;
        let id2 = id.clone();
        std::thread::spawn(move || loop {
            std::thread::sleep(std::time::Duration::from_millis(500));
            let rss = core::rss_bytes();
            if rss > hard {
                println!("MACHINERY-ERROR property={id2} resident memory {} GB exceeds the hard cap of {} GB; no verdict", rss >> 30, hard >> 30);
                std::process::exit(2);
            }
        });
    }
    let mut tier = match std::env::var("VERIF_TIER").as_deref() {
        Ok("thorough") => Tier::Thorough,
        _ => Tier::Quick,
    };
    let mut replay = None;
    let mut i = 2;
    while i < argv.len() {
        match argv[i].as_str() {
            "--tier" => {
                i += 1;
                tier = match argv.get(i).map(|s| s.as_str()) {
                    Some("thorough") => Tier::Thorough,
                    Some("quick") => Tier::Quick,
                    x => {
                        eprintln!("bad tier {x:?}");
                        std::process::exit(2)
                    }
                };
            }
            "quick" => tier = Tier::Quick,
            "thorough" => tier = Tier::Thorough,
            "--replay" => {
                i += 1;
                let p = argv.get(i).expect("--replay FILE");
                let s = std::fs::read_to_string(p).expect("read replay file");
                replay = Some(serde_json::from_str(&s).expect("parse replay file"));
            }
            x => {
                eprintln!("unknown argument {x}");
                std::process::exit(2);
            }
        }
        i += 1;
    }
    let seed: u64 = std::env::var("VERIF_SEED").ok().and_then(|s| s.parse().ok()).unwrap_or(0);
    core::install_panic_hook();
    core::REPLAY_MODE.store(replay.is_some(), std::sync::atomic::Ordering::SeqCst);
    core::EARLY_TIER_THOROUGH.store(tier == core::Tier::Thorough, std::sync::atomic::Ordering::SeqCst);
    let args = Args { tier, seed, replay };
    let t0 = Instant::now();
    let rep: Report = match checks::dispatch(&id, &args) {
        Some(r) => r,
        None => {
            eprintln!("unknown property {id}");
            std::process::exit(2);
        }
    };
    if args.replay.is_some() {
        // replay mode: print the verdict, do not touch evidence
        let mut code = 0;
        for v in &rep.violations {
            println!("VIOLATION property={} replay=<given>", rep.property);
            println!("  {}", v.what.replace('\n', "\n  "));
            code = 1;
        }
        for e in &rep.machinery_errors {
            eprintln!("MACHINERY-ERROR {e}");
            if code == 0 {
                code = 2;
            }
        }
        if code == 0 {
            println!("replay: property held");
        }
        std::process::exit(code);
    }
    let code = core::finish(rep, tier, seed, t0.elapsed().as_secs_f64());
    std::process::exit(code);
}
