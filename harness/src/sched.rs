//! vtokio: one controlled execution on the patched tokio current-thread scheduler (E2).
use std::{
    future::Future,
    pin::Pin,
    sync::{
        atomic::{AtomicU64, Ordering::SeqCst},
        Arc, Mutex,
    },
    task::{Context, Poll, Waker},
};

use crate::core::{Ch, K_SELECT, K_TASK};

/// Quiescence detector: `parked()` is called by the runtime right before it would park the
/// thread, i.e. exactly when no task is runnable. Any number of waiters may wait for the next
/// such event.
#[derive(Default)]
pub struct Idle {
    gen: AtomicU64,
    wakers: Mutex<Vec<Waker>>,
    pub parks: AtomicU64,
}

impl Idle {
    fn parked(&self) {
        self.gen.fetch_add(1, SeqCst);
        self.parks.fetch_add(1, SeqCst);
        let ws: Vec<Waker> = std::mem::take(&mut *self.wakers.lock().unwrap());
        for w in ws {
            w.wake();
        }
    }
    pub fn generation(&self) -> u64 {
        self.gen.load(SeqCst)
    }
    /// Ready if an idle event happened after generation `since`; registers the waker otherwise.
    pub fn poll_since(&self, since: u64, cx: &mut Context<'_>) -> Poll<u64> {
        let g = self.gen.load(SeqCst);
        if g > since {
            return Poll::Ready(g);
        }
        self.wakers.lock().unwrap().push(cx.waker().clone());
        // re-check (the callback runs on this thread, so no race; kept for clarity)
        let g = self.gen.load(SeqCst);
        if g > since {
            Poll::Ready(g)
        } else {
            Poll::Pending
        }
    }
    /// Resolves at the next moment at which no task is runnable (the scheduler is about to park).
    pub async fn settle(&self) {
        let since = self.generation();
        std::future::poll_fn(|cx| self.poll_since(since, cx).map(|_| ())).await
    }
    pub async fn settle_nowait(&self) {
        self.settle().await
    }
}

struct Uninstall;
impl Drop for Uninstall {
    fn drop(&mut self) {
        tokio::verif_sched::uninstall();
    }
}

/// Runs `f(idle)` to completion on a fresh current-thread runtime whose every scheduling
/// decision (next runnable task, `select!` start branch) is answered by `ch`.
pub fn run<T, Fut: Future<Output = T>>(ch: &Ch, f: impl FnOnce(Arc<Idle>) -> Fut) -> T {
    let ch2 = ch.clone();
    tokio::verif_sched::install(Box::new(move |kind, n| {
        let k = match kind {
            tokio::verif_sched::Kind::Task => K_TASK,
            tokio::verif_sched::Kind::Select => K_SELECT,
        };
        ch2.borrow_mut().choose(k, n)
    }));
    let _g = Uninstall;
    let idle = Arc::new(Idle::default());
    let i2 = idle.clone();
    let rt = tokio::runtime::Builder::new_current_thread()
        .on_thread_park(move || i2.parked())
        .build()
        .expect("runtime");
    let out = rt.block_on(f(idle));
    if STUCK.with(|s| s.replace(false)) {
        // tasks that are still alive may contain scope futures, which abort the process when
        // dropped before completion: leak the (thread-less) runtime instead of shutting it down
        std::mem::forget(rt);
    } else {
        drop(rt);
    }
    out
}

/// A yield that keeps the task in the run queue (creates a scheduling point).
/// `tokio::task::yield_now` defers the wake-up and does not create interleavings.
pub struct Yield(bool);
pub fn yield_now() -> Yield {
    Yield(false)
}
impl Future for Yield {
    type Output = ();
    fn poll(mut self: Pin<&mut Self>, cx: &mut Context<'_>) -> Poll<()> {
        if self.0 {
            Poll::Ready(())
        } else {
            self.0 = true;
            cx.waker().wake_by_ref();
            Poll::Pending
        }
    }
}

thread_local! {
    static STUCK: std::cell::Cell<bool> = const { std::cell::Cell::new(false) };
}

/// Outcome of `drive`.
pub enum Driven<T> {
    Done(T),
    /// The scheduler went idle and `on_idle` declined to continue. The future has been leaked
    /// (scope futures abort the process when dropped before completion).
    Stuck,
}

/// Polls `fut` to completion; whenever no task is runnable and `fut` is still pending, calls
/// `on_idle(k)` (k = 1, 2, ...): `true` = an environment action was performed, keep going.
pub async fn drive<T, F: Future<Output = T>>(idle: &Idle, fut: F, mut on_idle: impl FnMut(u32) -> bool) -> Driven<T> {
    let mut fut = Box::pin(fut);
    let mut k = 0;
    let mut seen = idle.generation();
    loop {
        let step = std::future::poll_fn(|cx| {
            if let Poll::Ready(r) = fut.as_mut().poll(cx) {
                return Poll::Ready(Some(r));
            }
            match idle.poll_since(seen, cx) {
                Poll::Ready(g) => {
                    seen = g;
                    Poll::Ready(None)
                }
                Poll::Pending => Poll::Pending,
            }
        })
        .await;
        match step {
            Some(r) => return Driven::Done(r),
            None => {
                k += 1;
                if !on_idle(k) {
                    std::mem::forget(fut);
                    STUCK.with(|s| s.set(true));
                    return Driven::Stuck;
                }
            }
        }
    }
}

/// Like `drive`, for futures that may be dropped (no scope inside): on `Stuck` the future is dropped.
pub async fn drive_drop<T, F: Future<Output = T>>(idle: &Idle, fut: F, mut on_idle: impl FnMut(u32) -> bool) -> Driven<T> {
    let mut fut = Box::pin(fut);
    let mut k = 0;
    let mut seen = idle.generation();
    loop {
        let step = std::future::poll_fn(|cx| {
            if let Poll::Ready(r) = fut.as_mut().poll(cx) {
                return Poll::Ready(Some(r));
            }
            match idle.poll_since(seen, cx) {
                Poll::Ready(g) => {
                    seen = g;
                    Poll::Ready(None)
                }
                Poll::Pending => Poll::Pending,
            }
        })
        .await;
        match step {
            Some(r) => return Driven::Done(r),
            None => {
                k += 1;
                if !on_idle(k) {
                    return Driven::Stuck;
                }
            }
        }
    }
}
