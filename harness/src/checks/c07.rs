//! C07 — quorum thresholds satisfy the n >= 5f+1 intersection arithmetic.
//! (i) Apalache: invariant of models/Thresholds.tla for all n in 1..2^64-1;
//! (ii) TLC: explicit states, dumped and replayed against the real functions;
//! (iii) exhaustive enumeration of large ranges of n on the real functions against a u128
//!       transcription and the inequalities themselves.
use std::{
    process::Command,
    sync::atomic::{AtomicU64, Ordering::SeqCst},
    sync::Mutex,
};

use serde_json::json;
use zksync_consensus_roles::validator::{self, LeaderSelection, Schedule, ValidatorInfo};

use super::util;
use crate::{
    core::{catch, par_map, Report, Violation},
    Args,
};

fn check_n(n: u64) -> Result<(), String> {
    let (f, q, s) = catch(|| (validator::max_faulty_weight(n), validator::quorum_threshold(n), validator::subquorum_threshold(n))).map_err(|p| format!("panic for n={n}: {p}"))?;
    let (nn, ff, qq, ss) = (n as u128, f as u128, q as u128, s as u128);
    let rf = (nn - 1) / 5;
    let rq = nn - rf;
    let rs = nn - 3 * rf;
    if ff != rf || qq != rq || ss != rs {
        return Err(format!("n={n}: code gives f={f} q={q} s={s}, exact arithmetic gives f={rf} q={rq} s={rs}"));
    }
    let ok = 5 * ff + 1 <= nn && 2 * qq > nn + ff && 2 * qq >= nn + ff + ss && 2 * ff < ss && 1 <= ss && ss <= qq && qq <= nn;
    if !ok {
        return Err(format!("n={n}: f={f} q={q} s={s} violate the intersection inequalities"));
    }
    Ok(())
}

fn run_cmd(dir: &str, prog: &str, a: &[&str]) -> Result<String, String> {
    // the TLA+ tools leave temporary directories behind: keep them inside the scratch directory, which is removed afterwards
    let out = Command::new(prog).args(a).current_dir(dir).env("JAVA_TOOL_OPTIONS", format!("-Djava.io.tmpdir={dir}")).output().map_err(|e| format!("cannot run {prog}: {e}"))?;
    Ok(format!("{}{}", String::from_utf8_lossy(&out.stdout), String::from_utf8_lossy(&out.stderr)))
}

pub fn run(args: &Args) -> Report {
    let mut rep = Report::new("C07", "model_checking");
    if let Some(r) = &args.replay {
        if let Some(ws) = r["replay"]["weights"].as_array() {
            // a Schedule case: weights (+ leader-eligible subset)
            let ws: Vec<u64> = ws.iter().map(|x| x.as_u64().unwrap_or(0)).collect();
            let leaders = r["replay"]["leaders"].as_u64().map(|x| x as u32).unwrap_or((1 << ws.len()) - 1);
            let keys = util::validator_keys(args.seed, ws.len().max(1));
            let exact: u128 = ws.iter().map(|w| *w as u128).sum();
            match catch(|| Schedule::new(ws.iter().enumerate().map(|(i, w)| ValidatorInfo { key: keys[i].public(), weight: *w, leader: leaders >> i & 1 == 1 }), LeaderSelection::default())) {
                Err(p) => rep.violations.push(Violation { key: "replay".into(), what: format!("Schedule::new panicked: {p}"), replay: r["replay"].clone() }),
                Ok(res) => {
                    let fits = exact <= u64::MAX as u128;
                    match res {
                        Ok(sc) => {
                            let got = (sc.total_weight(), sc.max_faulty_weight(), sc.quorum_threshold(), sc.subquorum_threshold());
                            let n = exact as u64;
                            let f = n.wrapping_sub(1) / 5;
                            if !fits || got != (n, f, n - f, n - 3 * f) {
                                rep.violations.push(Violation { key: "replay".into(), what: format!("Schedule::new({ws:?}, leaders {leaders:#b}) accepted with (total, f, quorum, sub-quorum) = {got:?}; exact total {exact}"), replay: r["replay"].clone() });
                            }
                        }
                        Err(e) => {
                            if fits {
                                rep.violations.push(Violation { key: "replay".into(), what: format!("Schedule::new({ws:?}, leaders {leaders:#b}) refused ({e:#}) although the total {exact} fits"), replay: r["replay"].clone() });
                            }
                        }
                    }
                }
            }
            return rep;
        }
        let n = r["replay"]["n"].as_u64().unwrap_or(1);
        if let Err(e) = check_n(n) {
            rep.violations.push(Violation { key: "replay".into(), what: e, replay: r["replay"].clone() });
        }
        return rep;
    }
    let scratch = format!("{}/harness/target/c07-{}", crate::core::root(), std::process::id());
    let _ = std::fs::remove_dir_all(&scratch);
    std::fs::create_dir_all(&scratch).unwrap();
    for f in ["Thresholds.tla", "Thresholds_tlc.cfg", "Thresholds_apalache.cfg"] {
        std::fs::copy(format!("{}/models/{f}", crate::core::root()), format!("{scratch}/{f}")).expect("copy model");
    }
    let tlc_max: u64 = args.tier.pick(20_000, 200_000);
    let cfg = std::fs::read_to_string(format!("{scratch}/Thresholds_tlc.cfg")).unwrap().replace("MaxN = 20000", &format!("MaxN = {tlc_max}"));
    std::fs::write(format!("{scratch}/Thresholds_tlc.cfg"), cfg).unwrap();

    // (i) Apalache, whole 64-bit domain; and the vacuity control
    let mut apalache = json!({});
    match run_cmd(&scratch, "apalache-mc", &["check", "--config=Thresholds_apalache.cfg", "--length=0", "--inv=Inv", "--out-dir=apa1", "Thresholds.tla"]) {
        Ok(o) if o.contains("EXITCODE: OK") && o.contains("NoError") => {
            apalache["inv"] = json!("holds for all n in 1..2^64-1 (EXITCODE: OK)");
        }
        Ok(o) if o.contains("EXITCODE: ERROR (12)") => {
            rep.violations.push(Violation { key: "model_invariant".into(), what: "Apalache found a counter-example to the threshold invariant in models/Thresholds.tla".into(), replay: json!({"harness":"c07-apalache"}) });
        }
        Ok(o) => rep.machinery_errors.push(format!("apalache-mc: unexpected output: {}", o.lines().rev().take(5).collect::<Vec<_>>().join(" | "))),
        Err(e) => rep.machinery_errors.push(e),
    }
    match run_cmd(&scratch, "apalache-mc", &["check", "--config=Thresholds_apalache.cfg", "--length=0", "--inv=Control", "--out-dir=apa2", "Thresholds.tla"]) {
        Ok(o) if o.contains("EXITCODE: ERROR (12)") => {
            apalache["control"] = json!("vacuity control `n < MaxN` refuted as expected (n = 2^64-1 is inside the domain)");
        }
        Ok(o) => rep.machinery_errors.push(format!("apalache-mc: vacuity control was not refuted: {}", o.lines().rev().take(3).collect::<Vec<_>>().join(" | "))),
        Err(e) => rep.machinery_errors.push(e),
    }

    // (ii) TLC explicit states, dumped and replayed on the code
    let mut tlc_states = 0u64;
    let mut tlc_generated = 0u64;
    let mut replayed = 0u64;
    let mut samples = vec![];
    match run_cmd(&scratch, "tlc", &["-config", "Thresholds_tlc.cfg", "-workers", "8", "-dump", "states.dump", "Thresholds.tla"]) {
        Ok(o) => {
            if !o.contains("Model checking completed. No error has been found.") {
                if o.contains("Invariant Inv is violated") {
                    rep.violations.push(Violation { key: "model_invariant_tlc".into(), what: "TLC: invariant Inv violated in models/Thresholds.tla".into(), replay: json!({"harness":"c07-tlc"}) });
                } else {
                    rep.machinery_errors.push(format!("tlc: unexpected output: {}", o.lines().rev().take(5).collect::<Vec<_>>().join(" | ")));
                }
            }
            for l in o.lines() {
                if l.contains("distinct states found") {
                    let nums: Vec<u64> = l.split(|c: char| !c.is_ascii_digit()).filter(|x| !x.is_empty()).filter_map(|x| x.parse().ok()).collect();
                    if nums.len() >= 2 {
                        tlc_generated = nums[0];
                        tlc_states = nums[1];
                    }
                }
            }
            let dump = std::fs::read_to_string(format!("{scratch}/states.dump")).unwrap_or_default();
            let mut cur: [Option<u64>; 4] = [None; 4];
            let keys = util::validator_keys(args.seed, 2);
            let mut flush = |cur: &mut [Option<u64>; 4], rep: &mut Report| {
                if let [Some(n), Some(f), Some(q), Some(s)] = *cur {
                    replayed += 1;
                    let got = (validator::max_faulty_weight(n), validator::quorum_threshold(n), validator::subquorum_threshold(n));
                    // through Schedule as well (one validator of weight n, and n-1 + 1)
                    // ... in every leader-eligibility pattern: the thresholds are functions of the TOTAL weight
                    let mk = |ws: Vec<u64>, leaders: u32| Schedule::new(ws.into_iter().enumerate().map(|(i, w)| ValidatorInfo { key: keys[i].public(), weight: w, leader: leaders >> i & 1 == 1 }), LeaderSelection::default());
                    let shapes: Vec<(Vec<u64>, u32)> = if n >= 2 { vec![(vec![n - 1, 1], 0b11), (vec![n - 1, 1], 0b01), (vec![n - 1, 1], 0b10)] } else { vec![(vec![n], 0b1)] };
                    let mut via = Ok((n, f, q, s));
                    for (ws, leaders) in shapes {
                        let v = mk(ws, leaders).map(|s| (s.total_weight(), s.max_faulty_weight(), s.quorum_threshold(), s.subquorum_threshold()));
                        if v.as_ref().ok() != Some(&(n, f, q, s)) {
                            via = v;
                            break;
                        }
                    }
                    if got != (f, q, s) || via.as_ref().ok() != Some(&(n, f, q, s)) {
                        if !rep.violations.iter().any(|v| v.key == "model_vs_code") {
                            rep.violations.push(Violation { key: "model_vs_code".into(), what: format!("model state n={n} f={f} q={q} s={s} but code computes {:?} (Schedule: {:?})", got, via.ok()), replay: json!({"harness":"c07", "n": n}) });
                        }
                    }
                    if samples.len() < 3 && (n == 1 || n == 6 || n == 10_001) {
                        samples.push(json!({"n": n, "f": f, "q": q, "s": s}));
                    }
                }
                *cur = [None; 4];
            };
            for l in dump.lines() {
                let l = l.trim();
                if l.starts_with("State ") {
                    flush(&mut cur, &mut rep);
                } else if let Some(rest) = l.strip_prefix("/\\ ") {
                    let mut it = rest.split('=');
                    let k = it.next().unwrap_or("").trim();
                    let v: Option<u64> = it.next().and_then(|x| x.trim().parse().ok());
                    match k {
                        "n" => cur[0] = v,
                        "f" => cur[1] = v,
                        "q" => cur[2] = v,
                        "s" => cur[3] = v,
                        _ => {}
                    }
                }
            }
            flush(&mut cur, &mut rep);
            if replayed != tlc_states || replayed != tlc_max {
                rep.machinery_errors.push(format!("tlc: expected {tlc_max} states, TLC reports {tlc_states}, dump replayed {replayed}"));
            }
        }
        Err(e) => rep.machinery_errors.push(e),
    }
    let _ = std::fs::remove_dir_all(&scratch);

    // (iii) exhaustive ranges on the real functions
    let top_bits: u32 = args.tier.pick(28, 34);
    let mut ranges: Vec<(u64, u64)> = vec![(1, 1u64 << top_bits)];
    for k in (top_bits + 1)..64 {
        let p = 1u64 << k;
        ranges.push((p - 4096, p + 4096));
    }
    let top_span: u64 = args.tier.pick(1 << 24, 1 << 32);
    ranges.push((u64::MAX - top_span, u64::MAX));
    // split into chunks
    let mut chunks: Vec<(u64, u64)> = vec![];
    for (a, b) in &ranges {
        let mut x = *a;
        while x <= *b {
            let y = x.saturating_add((1 << 22) - 1).min(*b);
            chunks.push((x, y));
            if y == u64::MAX {
                break;
            }
            x = y + 1;
        }
    }
    let total = AtomicU64::new(0);
    let first_err: Mutex<Option<(u64, String)>> = Mutex::new(None);
    par_map(chunks.len(), |i| {
        let (a, b) = chunks[i];
        let mut n = a;
        loop {
            if let Err(e) = check_n(n) {
                let mut g = first_err.lock().unwrap();
                if g.as_ref().map(|x| x.0 > n).unwrap_or(true) {
                    *g = Some((n, e));
                }
                break;
            }
            if n == b {
                break;
            }
            n += 1;
        }
        total.fetch_add(b - a + 1, SeqCst);
    });
    if let Some((n, e)) = first_err.into_inner().unwrap() {
        rep.violations.push(Violation { key: "arithmetic".into(), what: e, replay: json!({"harness":"c07", "n": n}) });
    }
    let schedule_cases;
    // Schedule methods == free functions of the total weight, for every weight vector over {1,2,3,7} up
    // to 4 validators and every non-empty leader subset
    {
        let keys = util::validator_keys(args.seed, 4);
        let mut cases = 0u64;
        for len in 1..=4usize {
            for ws in util::vectors(len, &[1, 2, 3, 7]) {
                for leaders in 1u32..(1 << len) {
                    cases += 1;
                    let total: u64 = ws.iter().sum();
                    let want = (total, validator::max_faulty_weight(total), validator::quorum_threshold(total), validator::subquorum_threshold(total));
                    match catch(|| Schedule::new(ws.iter().enumerate().map(|(i, w)| ValidatorInfo { key: keys[i].public(), weight: *w, leader: leaders >> i & 1 == 1 }), LeaderSelection::default())) {
                        Ok(Ok(s)) => {
                            let got = (s.total_weight(), s.max_faulty_weight(), s.quorum_threshold(), s.subquorum_threshold());
                            if got != want && !rep.violations.iter().any(|v| v.key == "schedule_thresholds") {
                                rep.violations.push(Violation { key: "schedule_thresholds".into(), what: format!("Schedule with weights {ws:?}, leader-eligible subset {leaders:#b}: (total, f, quorum, sub-quorum) = {got:?}, the threshold functions of the total weight give {want:?}"), replay: json!({"harness":"c07","weights":ws,"leaders":leaders}) });
                            }
                        }
                        Ok(Err(_)) => {}
                        Err(p) => rep.violations.push(Violation { key: "schedule_new_panic".into(), what: format!("Schedule::new panicked for weights {ws:?}: {p}"), replay: json!({"harness":"c07","weights":ws}) }),
                    }
                }
            }
        }
        schedule_cases = cases;
    }
    // Schedule::new at the overflow boundary
    let keys = util::validator_keys(args.seed, 3);
    // ... in every leader-eligibility pattern: acceptance depends on the TOTAL weight only (a schedule whose
    // total exceeds 2^64-1 must be refused also when the leaders' weight alone fits), and an accepted
    // schedule reports the exact total and the thresholds of that total
    let mk = |ws: &[u64], leaders: u32| catch(|| Schedule::new(ws.iter().enumerate().map(|(i, w)| ValidatorInfo { key: keys[i].public(), weight: *w, leader: leaders >> i & 1 == 1 }), LeaderSelection::default()));
    let mut boundary = 0;
    for (ws, ok) in [
        (vec![u64::MAX - 1, 1], true),
        (vec![u64::MAX], true),
        (vec![u64::MAX, 1], false),
        (vec![1, u64::MAX], false),
        (vec![u64::MAX / 2 + 1, u64::MAX / 2 + 1], false),
        (vec![u64::MAX / 2 + 1, u64::MAX / 2], true),
        (vec![u64::MAX, u64::MAX, 2], false),
        (vec![1, u64::MAX - 2, 1], true),
        (vec![1, u64::MAX - 1, 1], false),
        (vec![u64::MAX, 2], false),
        (vec![1 << 63, 1 << 63], false),
        (vec![1 << 63, 1 << 62, 1 << 62], false),
    ] {
        for leaders in 1u32..(1 << ws.len()) {
            boundary += 1;
            let key = |k: &str| format!("{k}{}", if leaders == (1 << ws.len()) - 1 { "" } else { "_mixed_eligibility" });
            match mk(&ws, leaders) {
                Err(p) => rep.violations.push(Violation { key: key("schedule_new_panic"), what: format!("Schedule::new panicked for weights {ws:?}, leader-eligible subset {leaders:#b}: {p}"), replay: json!({"harness":"c07","weights":ws,"leaders":leaders}) }),
                Ok(r) => {
                    if r.is_ok() != ok {
                        rep.violations.push(Violation { key: key("schedule_new_overflow"), what: format!("Schedule::new({ws:?}, leader-eligible subset {leaders:#b}) {} but the exact sum {} 2^64-1", if r.is_ok() {"was accepted"} else {"was refused"}, if ok {"is within"} else {"exceeds"}), replay: json!({"harness":"c07","weights":ws,"leaders":leaders}) });
                    } else if let Ok(s) = r {
                        let exact: u128 = ws.iter().map(|w| *w as u128).sum();
                        let n = exact as u64;
                        let got = (s.total_weight(), s.max_faulty_weight(), s.quorum_threshold(), s.subquorum_threshold());
                        let f = (n - 1) / 5;
                        let want = (n, f, n - f, n - 3 * f);
                        if got != want {
                            rep.violations.push(Violation { key: key("schedule_total"), what: format!("Schedule::new({ws:?}, leader-eligible subset {leaders:#b}): (total, f, quorum, sub-quorum) = {got:?}, exact arithmetic gives {want:?}"), replay: json!({"harness":"c07","weights":ws,"leaders":leaders}) });
                        }
                    }
                }
            }
        }
    }
    rep.violations.dedup_by(|a, b| a.key == b.key);
    if samples.is_empty() {
        samples.push(json!({"n": 1}));
    }
    rep.coverage = json!({
        "states": tlc_states,
        "transitions": tlc_generated,
        "traces_validated_against_impl": replayed,
        "samples": samples,
        "apalache": apalache,
        "tlc_max_n": tlc_max,
        "rust_enumerated_n": total.load(SeqCst),
        "rust_ranges": ranges.iter().map(|(a,b)| format!("[{a},{b}]")).collect::<Vec<_>>(),
        "schedule_new_boundary_cases": boundary, "schedules_with_mixed_leader_eligibility": schedule_cases,
        "evaluations": total.load(SeqCst) + replayed,
        "distinct_nontrivial": total.load(SeqCst),
        "rule": "every n of the listed ranges evaluated on the real max_faulty_weight/quorum_threshold/subquorum_threshold against a u128 transcription and the inequalities; every TLC state of the model (n <= tlc_max_n) replayed against the same functions and Schedule's methods; Apalache decides the model invariant for every n in 1..2^64-1",
        "exhaustive": true,
    });
    rep.assumptions = vec![
        "for n outside the enumerated ranges the link between model and code is the (three-line) correspondence of formulas plus the replay of all enumerated states".into(),
        "Apalache's verdict is symbolic (SMT) over the model; TLC's is explicit-state; both are over models/Thresholds.tla".into(),
    ];
    rep
}
