//! C01 — agreement: correct nodes never commit conflicting blocks.
//! L2 explicit-state search (see l2.rs) over three real replicas of K4 + a signing adversary.
use std::time::{Duration, Instant};

use serde_json::json;

use super::l2;
use crate::{
    core::{Report, Violation},
    Args,
};

pub fn placements() -> Vec<(Vec<u64>, usize, &'static str)> {
    // schedule order = key order; leader(view v) = validator v mod 4
    vec![(vec![2, 1, 2, 1], 1, "faulty validator leads view 1"), (vec![2, 2, 1, 1], 2, "faulty validator leads view 2"), (vec![1, 2, 2, 1], 0, "faulty validator leads view 4 (none of the explored views)")]
}

pub fn coverage(rs: &[(String, l2::L2Result)], max_view: u64) -> serde_json::Value {
    let tot = |f: &dyn Fn(&l2::L2Result) -> usize| rs.iter().map(|r| f(&r.1)).sum::<usize>();
    json!({
        "states": tot(&|r| r.states).max(1),
        "transitions": tot(&|r| r.transitions).max(1),
        "traces_validated_against_impl": rs.iter().map(|r| r.1.real_steps).sum::<u64>(),
        "samples": rs.iter().flat_map(|r| r.1.samples.iter().take(1).cloned()).chain(std::iter::once("initial state: three correct replicas in view 0, empty pool".to_string())).collect::<Vec<_>>(),
        "evaluations": tot(&|r| r.transitions).max(1),
        "distinct_nontrivial": tot(&|r| r.states).max(2),
        "max_view": max_view,
        "exhaustive": rs.iter().all(|r| r.1.fixed_point),
        "runs": rs.iter().map(|(n, r)| json!({
            "placement": n, "states": r.states, "transitions": r.transitions, "real_handler_executions": r.real_steps,
            "distinct_local_states": r.distinct_locals, "distinct_messages": r.distinct_msgs,
            "completed_bfs_depth": r.completed_depth, "fixed_point_reached": r.fixed_point, "capped": r.capped,
            "most_blocks_finalized_by_one_replica": r.blocks_finalized_max, "highest_view_reached": r.max_view,
        })).collect::<Vec<_>>(),
        "rule": "a state is (local state of each of the three correct replicas of K4, set of messages sent so far); transitions are macro steps executed on the real replica code (receive a proposal / new-view from the pool or from the faulty validator, collect a commit or timeout quorum - candidates generously offered from weight n-2f -, timer, own proposer, block sync, restart); breadth-first, deduplicated modulo certificate signer sets",
    })
}

pub fn run(args: &Args) -> Report {
    let mut rep = Report::new("C01", "model_checking");
    let max_view = args.tier.pick(2, 3);
    let total = args.tier.pick(50, 3000);
    let pl = placements();
    if let Some(rp) = &args.replay {
        let path: Vec<String> = rp["replay"]["path"].as_array().map(|a| a.iter().filter_map(|x| x.as_str().map(|s| s.to_string())).collect()).unwrap_or_default();
        let k: usize = rp["key"].as_str().and_then(|s| s.rsplit('@').next()).and_then(|s| s.parse().ok()).unwrap_or(0);
        let (weights, faulty, _) = &pl[k.min(pl.len() - 1)];
        let cfg = l2::L2Cfg { max_view, faulty: *faulty, weights: weights.clone(), max_states: 0, deadline: Instant::now() + Duration::from_secs(600), seed: args.seed, crashes: true, forged: false, ignore: &["certified_block_displaced", "stale_high_vote_reported"] };
        match l2::replay(&cfg, &path) {
            Ok(vs) => {
                for (key, wh) in vs.into_iter().filter(|(k, _)| k != "certified_block_displaced" && k != "stale_high_vote_reported") {
                    rep.violations.push(Violation { key, what: wh, replay: rp["replay"].clone() });
                }
            }
            Err(e) => rep.machinery_errors.push(e),
        }
        return rep;
    }
    let mut rs = vec![];
    for (k, (weights, faulty, name)) in pl.iter().enumerate() {
        let cfg = l2::L2Cfg { max_view, faulty: *faulty, weights: weights.clone(), max_states: args.tier.pick(300_000, 20_000_000), deadline: Instant::now() + Duration::from_secs(total / pl.len() as u64), seed: args.seed, crashes: true, forged: false, ignore: &["certified_block_displaced", "stale_high_vote_reported"] };
        let (_sys, _t, res) = l2::explore(&cfg, 0);
        for (key, wh, rpl) in &res.violations {
            rep.violations.push(Violation { key: format!("{key}@{k}"), what: format!("{wh}\n  instance: K4 weights {weights:?}, {name}"), replay: rpl.clone() });
        }
        rs.push((name.to_string(), res));
        if !rep.violations.is_empty() {
            break;
        }
    }
    if rep.violations.is_empty() && rs.iter().all(|r| r.1.blocks_finalized_max == 0) {
        rep.machinery_errors.push("vacuous: no block was finalized in any explored state".into());
    }
    rep.coverage = coverage(&rs, max_view);
    rep.assumptions = vec![
        "views above the bound are not expanded; faulty weight is concentrated in one key; payload alphabet {X, Y}".into(),
        "vote-by-vote interleavings across replicas are reduced to quorum-level delivery (per-vote paths are covered per replica by C03/C05/C16)".into(),
        "crash points inside a macro step are not enumerated here (C03 does that per replica); restarts between macro steps are".into(),
    ];
    rep
}
