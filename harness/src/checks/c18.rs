//! C18 — the validator address book holds only authentic, newest announcements.
//! Exhaustive enumeration of batch sequences over a small announcement alphabet on the real
//! ValidatorAddrsWatch::update / announce, against a reference map; plus all arrival orders.
use std::{collections::BTreeMap, sync::Arc};

use serde_json::json;
use zksync_concurrency::{ctx, time};
use zksync_consensus_network::verif::VAddrsWatch;
use zksync_consensus_roles::validator;

use super::util;
use crate::{
    core::{par_map, Report, Violation},
    Args,
};

type Ann = Arc<validator::Signed<validator::NetAddress>>;

#[derive(Clone)]
struct Sym {
    name: &'static str,
    ann: Ann,
    /// index of the signer key in `keys` (2 = non-member)
    who: usize,
    valid_sig: bool,
}

fn t(s: i64) -> time::Utc {
    time::UNIX_EPOCH + time::Duration::seconds(s)
}

fn alphabet(seed: u64) -> (util::Committee, Vec<validator::SecretKey>, Vec<Sym>) {
    let c = util::committee(seed, &[1, 1]);
    let outsider = util::validator_keys(seed ^ 0x77, 1).pop().unwrap();
    let keys = vec![c.keys[0].clone(), c.keys[1].clone(), outsider];
    let a1: std::net::SocketAddr = "10.0.0.1:1000".parse().unwrap();
    let a2: std::net::SocketAddr = "10.0.0.2:2000".parse().unwrap();
    let mk = |who: usize, version: u64, ts: i64, addr| Arc::new(keys[who].sign_msg(validator::NetAddress { addr, version, timestamp: t(ts) }));
    let forged = |who: usize, version: u64, ts: i64, addr| {
        let mut x = keys[who].sign_msg(validator::NetAddress { addr, version, timestamp: t(ts) });
        x.sig = keys[(who + 1) % 2].sign_msg(validator::NetAddress { addr, version, timestamp: t(ts) }).sig;
        Arc::new(x)
    };
    let syms = vec![
        Sym { name: "a(v0,t0)", ann: mk(0, 0, 100, a1), who: 0, valid_sig: true },
        Sym { name: "a(v0,t1)", ann: mk(0, 0, 200, a2), who: 0, valid_sig: true },
        Sym { name: "a(v1,t0)", ann: mk(0, 1, 100, a1), who: 0, valid_sig: true },
        Sym { name: "a(vMAX,t1)", ann: mk(0, u64::MAX, 200, a2), who: 0, valid_sig: true },
        Sym { name: "a(v1,t1) FORGED", ann: forged(0, 1, 200, a2), who: 0, valid_sig: false },
        Sym { name: "a(v0,t0-1) FORGED-OLD", ann: forged(0, 0, 99, a2), who: 0, valid_sig: false },
        Sym { name: "b(v0,t0)", ann: mk(1, 0, 100, a1), who: 1, valid_sig: true },
        Sym { name: "b(v2,t0)", ann: mk(1, 2, 100, a2), who: 1, valid_sig: true },
        Sym { name: "c(v0,t0) NON-MEMBER", ann: mk(2, 0, 100, a1), who: 2, valid_sig: true },
    ];
    (c, keys, syms)
}

type Book = BTreeMap<usize, (u64, time::Utc, std::net::SocketAddr)>;

/// The stated rule.
fn ref_update(book: &Book, batch: &[&Sym]) -> Result<Book, ()> {
    let mut tmp = book.clone();
    let mut seen = vec![];
    for s in batch {
        if seen.contains(&s.who) {
            return Err(());
        }
        seen.push(s.who);
        if s.who >= 2 {
            continue;
        }
        let m = &s.ann.msg;
        if let Some(cur) = tmp.get(&s.who) {
            if !((m.version, m.timestamp) > (cur.0, cur.1)) {
                continue;
            }
        }
        if !s.valid_sig {
            return Err(());
        }
        tmp.insert(s.who, (m.version, m.timestamp, m.addr));
    }
    Ok(tmp)
}

fn real_book(w: &VAddrsWatch, keys: &[validator::SecretKey], syms: &[Sym]) -> (Book, Option<String>) {
    let mut b = Book::new();
    let mut bad = None;
    for (k, v) in w.current() {
        match keys.iter().position(|x| x.public() == k) {
            Some(i) => {
                // authentic by construction if it is one of the alphabet's genuinely signed
                // announcements; anything else (the node's own announcement, or a defect) is verified
                let known = syms.iter().any(|s| s.valid_sig && *s.ann == *v);
                if v.key != k || (!known && v.verify().is_err()) {
                    bad = Some(format!("the book stores an entry for validator {i} that does not verify under its key"));
                }
                if i >= 2 {
                    bad = Some("the book stores an announcement of a non-member".into());
                }
                b.insert(i, (v.msg.version, v.msg.timestamp, v.msg.addr));
            }
            None => bad = Some("the book stores an entry under an unknown key".into()),
        }
    }
    (b, bad)
}

enum Op {
    Batch(Vec<usize>),
    /// the node (validator a) announces its own address at time t
    Announce(i64),
}

fn run_sequence(c: &util::Committee, keys: &[validator::SecretKey], syms: &[Sym], ops: &[Op]) -> Option<String> {
    let rt = tokio::runtime::Builder::new_current_thread().build().unwrap();
    let w = VAddrsWatch::default();
    let mut model = Book::new();
    let clock = ctx::ManualClock::new();
    let _root = ctx::test_root(&clock);
    for (k, op) in ops.iter().enumerate() {
        match op {
            Op::Batch(ids) => {
                let batch: Vec<&Sym> = ids.iter().map(|i| &syms[*i]).collect();
                let data: Vec<Ann> = batch.iter().map(|s| s.ann.clone()).collect();
                let before = real_book(&w, keys, syms).0;
                let res = rt.block_on(w.update(&c.schedule, &data));
                let (after, bad) = real_book(&w, keys, syms);
                if let Some(b) = bad {
                    return Some(format!("{b} (after batch #{k})"));
                }
                let want = ref_update(&model, &batch);
                match (&res, &want) {
                    (Err(_), _) if after != before => return Some(format!("batch #{k} [{}] was rejected but changed the address book: {before:?} -> {after:?}", batch.iter().map(|s| s.name).collect::<Vec<_>>().join(", "))),
                    (Ok(()), Err(())) => return Some(format!("batch #{k} [{}] was accepted although it contains a forged newer entry or a duplicated key", batch.iter().map(|s| s.name).collect::<Vec<_>>().join(", "))),
                    (Err(e), Ok(_)) => return Some(format!("batch #{k} [{}] was rejected ({e}) although every relevant entry is authentic and no key is duplicated", batch.iter().map(|s| s.name).collect::<Vec<_>>().join(", "))),
                    _ => {}
                }
                if let Ok(m) = want {
                    model = m;
                }
                if after != model {
                    return Some(format!("after batch #{k} [{}] the address book is {after:?}, the rule gives {model:?}", batch.iter().map(|s| s.name).collect::<Vec<_>>().join(", ")));
                }
            }
            Op::Announce(ts) => {
                let addr: std::net::SocketAddr = "10.9.9.9:9".parse().unwrap();
                let before = real_book(&w, keys, syms).0;
                rt.block_on(w.announce(&keys[0], addr, t(*ts)));
                let (after, bad) = real_book(&w, keys, syms);
                if let Some(b) = bad {
                    return Some(format!("{b} (after announce)"));
                }
                // the node's own entry is replaced only by a strictly newer (version, timestamp); nothing
                // else changes (the property does not prescribe which version the node picks)
                match (before.get(&0), after.get(&0)) {
                    (Some(old), Some(new)) if old != new && (new.0, new.1) <= (old.0, old.1) => {
                        return Some(format!("the node's own announcement replaced its entry {old:?} by {new:?}, which is not strictly newer in (version, timestamp) order (announce #{k} at t={ts})"));
                    }
                    (_, None) => return Some(format!("after the node's own announcement its entry is missing (announce #{k})")),
                    _ => {}
                }
                if before.iter().filter(|(k, _)| **k != 0).ne(after.iter().filter(|(k, _)| **k != 0)) {
                    return Some(format!("the node's own announcement changed entries of other validators: {before:?} -> {after:?}"));
                }
                model = after;
            }
        }
    }
    None
}

/// Thread level: the node's own `announce()` races an `update()` that carries an entry for the
/// node's own key (what peers push back after a restart), on REAL threads, every interleaving at
/// the lock acquisitions of the underlying watch channel.
fn thread_part(seed: u64) -> (u64, bool, Option<(String, serde_json::Value)>) {
    use crate::threads::{block_on_visible, explore_all, Run};
    let (c, keys, _syms) = alphabet(seed);
    let mut total = 0;
    let mut complete = true;
    // (version of the pushed own entry, its timestamp, timestamp of the announce)
    for (si, (pushed_version, t_pushed, t_announce)) in [(5u64, 100i64, 200i64), (5, 200, 100), (0, 100, 100)].into_iter().enumerate() {
        let own_addr: std::net::SocketAddr = "10.9.9.9:9".parse().unwrap();
        let pushed = Arc::new(keys[0].sign_msg(validator::NetAddress { addr: "10.0.0.1:1000".parse().unwrap(), version: pushed_version, timestamp: t(t_pushed) }));
        let sched = c.schedule.clone();
        let key0 = keys[0].clone();
        let (runs, all, fail) = explore_all(
            || {
                let w = Arc::new(VAddrsWatch::default());
                let upd_ok: Arc<std::sync::Mutex<Option<bool>>> = Default::default();
                let mut threads: Vec<Box<dyn FnOnce() + Send>> = vec![];
                {
                    let (w, pushed, sched, upd_ok) = (w.clone(), pushed.clone(), sched.clone(), upd_ok.clone());
                    threads.push(Box::new(move || {
                        let r = block_on_visible(w.update(&sched, &[pushed]));
                        *upd_ok.lock().unwrap() = Some(r.is_ok());
                    }));
                }
                {
                    let (w, key0) = (w.clone(), key0.clone());
                    threads.push(Box::new(move || {
                        block_on_visible(w.announce(&key0, own_addr, t(t_announce)));
                    }));
                }
                let key0 = key0.clone();
                let check: Box<dyn FnOnce(&Run) -> Option<String>> = Box::new(move |_run| {
                    if *upd_ok.lock().unwrap() != Some(true) {
                        return Some("the update with a valid entry for the node's own key was refused".into());
                    }
                    let cur = w.current();
                    let Some(e) = cur.get(&key0.public()) else { return Some("the node's own entry is missing".into()) };
                    // the update was accepted: (pushed_version, t_pushed) has been stored at some moment, so
                    // the final entry is that one or a strictly newer one
                    if (e.msg.version, e.msg.timestamp) < (pushed_version, t(t_pushed)) {
                        return Some(format!("the node accepted the announcement (version {pushed_version}, t={t_pushed}) for its own key but ends up holding the OLDER (version {}, {:?}): its own announce() replaced a newer entry", e.msg.version, e.msg.timestamp));
                    }
                    None
                });
                (threads, check)
            },
            100_000,
        );
        total += runs;
        complete &= all;
        if let Some((prefix, what)) = fail {
            return (total, false, Some((format!("[announce_vs_update_threads] pushed own entry (version {pushed_version}, t={t_pushed}), announce at t={t_announce}: {what} (interleaving {prefix:?})"), json!({"harness": "c18-threads", "scenario": si, "interleaving": prefix}))));
        }
    }
    (total, complete, None)
}

pub fn run(args: &Args) -> Report {
    let mut rep = Report::new("C18", "exploration");
    let (c, keys, syms) = alphabet(args.seed);
    let n = syms.len();
    // all batches up to length L
    let batches = |maxlen: usize| -> Vec<Vec<usize>> {
        let mut out: Vec<Vec<usize>> = vec![];
        let mut cur: Vec<Vec<usize>> = vec![vec![]];
        for _ in 0..maxlen {
            cur = cur.iter().flat_map(|b| (0..n).map(move |i| { let mut x = b.clone(); x.push(i); x })).collect();
            out.extend(cur.iter().cloned());
        }
        out
    };
    let b3 = batches(3);
    let b2 = batches(2);
    let b1 = batches(1);
    let mut seqs: Vec<Vec<Op>> = vec![];
    for b in &b3 {
        seqs.push(vec![Op::Batch(b.clone())]);
    }
    // two batches: (len<=2, len<=3) in quick; thorough adds three batches of len <= 2
    for x in &b2 {
        for y in if args.tier == crate::core::Tier::Thorough { &b3 } else { &b2 } {
            seqs.push(vec![Op::Batch(x.clone()), Op::Batch(y.clone())]);
        }
    }
    // with the node's own announcement in between
    for x in &b1 {
        for y in &b2 {
            seqs.push(vec![Op::Batch(x.clone()), Op::Announce(150), Op::Batch(y.clone())]);
            seqs.push(vec![Op::Announce(150), Op::Batch(x.clone()), Op::Batch(y.clone())]);
        }
    }
    // the node refreshes its own announcement (same address) with a later, an equal and an earlier
    // timestamp (a clock stepped backwards, a restart on a host whose clock is behind), also after
    // having learnt an entry for its own key from a peer
    for t2 in [100i64, 150, 200] {
        seqs.push(vec![Op::Announce(150), Op::Announce(t2)]);
        for x in &b1 {
            seqs.push(vec![Op::Announce(150), Op::Batch(x.clone()), Op::Announce(t2)]);
            seqs.push(vec![Op::Batch(x.clone()), Op::Announce(150), Op::Announce(t2)]);
        }
    }
    if args.tier == crate::core::Tier::Thorough {
        for x in &b2 {
            for y in &b2 {
                for z in &b2 {
                    seqs.push(vec![Op::Batch(x.clone()), Op::Batch(y.clone()), Op::Batch(z.clone())]);
                }
            }
        }
    }
    if let Some(rp) = &args.replay {
        if super::gossipnet::replay_fetch(&mut rep, args.seed, &rp["replay"], &[]) {
            return rep;
        }
        let ops: Vec<Op> = rp["replay"]["ops"].as_array().map(|a| a.iter().map(|o| if let Some(t) = o["announce"].as_i64() { Op::Announce(t) } else { Op::Batch(o["batch"].as_array().unwrap().iter().map(|x| x.as_u64().unwrap() as usize).collect()) }).collect()).unwrap_or_default();
        if let Some(v) = run_sequence(&c, &keys, &syms, &ops) {
            rep.violations.push(Violation { key: "replay".into(), what: v, replay: rp["replay"].clone() });
        }
        return rep;
    }
    let results = par_map(seqs.len(), |i| run_sequence(&c, &keys, &syms, &seqs[i]).map(|v| (i, v)));
    let mut first: Option<(usize, String)> = None;
    for r in results.into_iter().flatten() {
        if first.as_ref().map(|f| seqs[r.0].len() < seqs[f.0].len()).unwrap_or(true) {
            first = Some(r);
        }
    }
    if let Some((i, v)) = first {
        let ops: Vec<serde_json::Value> = seqs[i].iter().map(|o| match o { Op::Batch(b) => json!({"batch": b, "names": b.iter().map(|x| syms[*x].name).collect::<Vec<_>>()}), Op::Announce(t) => json!({"announce": t}) }).collect();
        rep.violations.push(Violation { key: "address_book".into(), what: format!("[address_book] {v}"), replay: json!({"harness":"c18","ops": ops}) });
    }
    // order independence: every subset of <= 4 valid announcements with distinct (key, version, timestamp),
    // delivered one per batch in every order and as a single batch is impossible (duplicate keys) -> per key newest wins
    let valid: Vec<usize> = (0..n).filter(|i| syms[*i].valid_sig && syms[*i].who < 2).collect();
    let mut orders = 0u64;
    let mut order_viol = None;
    let subsets: Vec<Vec<usize>> = (1u32..(1 << valid.len())).filter(|m| m.count_ones() <= 4).map(|m| valid.iter().enumerate().filter(|(k, _)| m >> k & 1 == 1).map(|(_, i)| *i).collect()).collect();
    let res = par_map(subsets.len(), |si| {
        let set = &subsets[si];
        let mut reference: Option<Book> = None;
        let mut cnt = 0u64;
        for p in util::permutations(set.len()) {
            cnt += 1;
            let rt = tokio::runtime::Builder::new_current_thread().build().unwrap();
            let w = VAddrsWatch::default();
            for k in &p {
                let _ = rt.block_on(w.update(&c.schedule, &[syms[set[*k]].ann.clone()]));
            }
            let (b, _) = real_book(&w, &keys, &syms);
            match &reference {
                None => reference = Some(b),
                Some(r) if *r != b => return (cnt, Some(format!("[order_dependence] the announcements {:?} end in different address books depending on arrival order {:?}: {:?} vs {:?}", set.iter().map(|i| syms[*i].name).collect::<Vec<_>>(), p, r, b))),
                _ => {}
            }
        }
        (cnt, None)
    });
    for (cnt, v) in res {
        orders += cnt;
        if let Some(v) = v {
            order_viol.get_or_insert(v);
        }
    }
    if let Some(v) = order_viol {
        rep.violations.push(Violation { key: "order_dependence".into(), what: v, replay: json!({"harness":"c18-orders"}) });
    }
    let (truns, tall, tviol) = thread_part(args.seed);
    if let Some((w, r)) = tviol {
        rep.violations.push(Violation { key: "announce_vs_update_threads".into(), what: w, replay: r });
    }
    let dial_cov = super::gossipnet::report_dial(&mut rep, args.seed);
    rep.coverage = json!({
        "dialled_address_part": dial_cov,
        "thread_level_interleavings_announce_vs_update": truns, "thread_level_all_explored": tall,
        "evaluations": seqs.len() as u64 + orders,
        "distinct_nontrivial": seqs.len() as u64,
        "rule": "every sequence of the scope (one batch of <= 3 announcements; a batch of <= 2 followed by a batch of <= 3; the node's own announcement before / between batches; thorough: three batches of <= 2) over a 9-symbol alphabet (validator a: 4 valid (version, timestamp, address) combinations incl. version u64::MAX, a forged newer and a forged older entry; validator b: 2; a non-member's valid announcement; repeated keys arise from repetition) applied through the real ValidatorAddrsWatch::update / announce and compared with the stated rule after every batch; every subset of <= 4 valid announcements in every arrival order",
        "exhaustive": true,
        "alphabet": syms.iter().map(|s| s.name).collect::<Vec<_>>(),
        "sequences": seqs.len(),
        "arrival_orders": orders,
        "samples": [
            {"ops": ["batch [a(v1,t0), a(v1,t1) FORGED]"], "expect": "rejected, address book unchanged"},
            {"ops": ["batch [b(v0,t0)]", "announce", "batch [a(v0,t1), c(v0,t0) NON-MEMBER]"]},
        ],
    });
    rep.assumptions = vec!["two members + one non-member; equal (version, timestamp) ties are excluded from the order-independence clause as the property states".into()];
    rep
}
