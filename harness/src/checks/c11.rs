//! C11 — leader election is a total, deterministic, eligible-only function.
//! E4: exhaustive small-scope enumeration of schedules x views on the real
//! `Schedule::new` / `Schedule::view_leader`, against an independent reference.
use std::collections::BTreeMap;

use serde_json::json;
use sha3::{Digest, Keccak256};
use zksync_consensus_crypto::ByteFmt;
use zksync_consensus_roles::validator::{self, LeaderSelection, LeaderSelectionMode, Schedule, ValidatorInfo, ViewNumber};

use super::util;
use crate::{
    core::{catch, par_map, Report, Tier, Violation},
    Args,
};

#[derive(Clone, Debug)]
struct Case {
    weights: Vec<u64>,
    eligible: u32, // bit mask over input positions
    weighted: bool,
    freq: u64,
}

impl Case {
    fn json(&self) -> serde_json::Value {
        json!({"weights": self.weights, "eligible_mask": self.eligible, "mode": if self.weighted {"weighted"} else {"round_robin"}, "frequency": self.freq})
    }
    fn from_json(v: &serde_json::Value) -> Self {
        Case {
            weights: v["weights"].as_array().unwrap().iter().map(|x| x.as_u64().unwrap()).collect(),
            eligible: v["eligible_mask"].as_u64().unwrap() as u32,
            weighted: v["mode"] == "weighted",
            freq: v["frequency"].as_u64().unwrap(),
        }
    }
}

fn infos(keys: &[validator::PublicKey], c: &Case, order: &[usize]) -> Vec<ValidatorInfo> {
    order
        .iter()
        .map(|&i| ValidatorInfo { key: keys[i].clone(), weight: c.weights[i], leader: c.eligible >> i & 1 == 1 })
        .collect()
}

fn selection(c: &Case) -> LeaderSelection {
    LeaderSelection { frequency: c.freq, mode: if c.weighted { LeaderSelectionMode::Weighted } else { LeaderSelectionMode::RoundRobin } }
}

/// Independent reference: eligible validators in canonical (encoded key bytes) order.
fn reference(keys: &[validator::PublicKey], c: &Case, view: u64) -> Option<usize> {
    let mut el: Vec<(Vec<u8>, usize)> = (0..c.weights.len()).filter(|i| c.eligible >> i & 1 == 1).map(|i| (ByteFmt::encode(&keys[i]), i)).collect();
    el.sort();
    let turn: u64 = if c.freq == 0 { 0 } else { view / c.freq };
    if !c.weighted {
        let k = (turn as u128 % el.len() as u128) as usize;
        return Some(el[k].1);
    }
    let total: u128 = el.iter().map(|(_, i)| c.weights[*i] as u128).sum();
    let h = Keccak256::digest(turn.to_be_bytes());
    let mut r: u128 = 0;
    for b in h.iter() {
        r = (r * 256 + *b as u128) % total;
    }
    let mut off: u128 = 0;
    for (_, i) in &el {
        off += c.weights[*i] as u128;
        if r < off {
            return Some(*i);
        }
    }
    None
}

struct CaseOut {
    evals: u64,
    nontrivial: u64,
    viol: Vec<(String, String, serde_json::Value)>,
    distinct_leaders: usize,
}

fn check_case(keys: &[validator::PublicKey], c: &Case, views_full: &[u64], views_perm: &[u64], perms: &[Vec<usize>]) -> CaseOut {
    let n = c.weights.len();
    let mut out = CaseOut { evals: 0, nontrivial: 0, viol: vec![], distinct_leaders: 0 };
    let ident: Vec<usize> = (0..n).collect();
    let n_el = (0..n).filter(|i| c.eligible >> i & 1 == 1).count();
    let mut add = |out: &mut CaseOut, class: &str, what: String, view: Option<u64>, order: &[usize]| {
        if out.viol.iter().any(|v| v.0 == class) {
            return;
        }
        out.viol.push((class.to_string(), what, json!({"harness":"c11", "case": c.json(), "view": view, "order": order})));
    };
    let sched = match catch(|| Schedule::new(infos(keys, c, &ident), selection(c))) {
        Ok(Ok(s)) => s,
        Ok(Err(e)) => {
            add(&mut out, "schedule_refused", format!("Schedule::new refused a valid schedule {:?}: {e:#}", c), None, &ident);
            return out;
        }
        Err(p) => {
            add(&mut out, "schedule_panic", format!("Schedule::new panicked on {:?}: {p}", c), None, &ident);
            return out;
        }
    };
    let mut counts: BTreeMap<usize, u64> = BTreeMap::new();
    let mut first_leader: Option<usize> = None;
    for &v in views_full {
        out.evals += 1;
        if n_el >= 2 {
            out.nontrivial += 1;
        }
        let got = match catch(|| sched.view_leader(ViewNumber(v))) {
            Ok(k) => k,
            Err(p) => {
                let class = if c.freq == 0 { "panic_frequency_0" } else if c.weighted { "panic_weighted" } else { "panic_round_robin" };
                add(&mut out, class, format!("view_leader panicked: case {:?} view {v}: {p}", c), Some(v), &ident);
                continue;
            }
        };
        let Some(gi) = keys[..n].iter().position(|k| *k == got) else {
            add(&mut out, "not_a_member", format!("view_leader returned a key outside the schedule: case {:?} view {v}", c), Some(v), &ident);
            continue;
        };
        if c.eligible >> gi & 1 == 0 {
            add(&mut out, "not_eligible", format!("view_leader returned non-eligible validator #{gi}: case {:?} view {v}", c), Some(v), &ident);
        }
        let want = reference(keys, c, v);
        if c.freq == 0 {
            // documented: never rotates
            match first_leader {
                None => first_leader = Some(gi),
                Some(f) if f != gi => add(&mut out, "rotates_with_frequency_0", format!("leader rotates although frequency = 0: case {:?} view {v}: #{gi} vs #{f}", c), Some(v), &ident),
                _ => {}
            }
        } else if want != Some(gi) {
            let class = if c.weighted { "weighted_mismatch" } else { "round_robin_mismatch" };
            add(&mut out, class, format!("view_leader = #{gi}, reference = {:?}: case {:?} view {v}", want, c), Some(v), &ident);
        }
        if v < 2000 {
            *counts.entry(gi).or_default() += 1;
        }
    }
    out.distinct_leaders = counts.len();
    // proportional share over the first 2000 turns (weighted, frequency 1)
    if c.weighted && c.freq == 1 && views_full.len() >= 2000 && out.viol.is_empty() {
        let total: f64 = (0..n).filter(|i| c.eligible >> i & 1 == 1).map(|i| c.weights[i] as f64).sum();
        for i in (0..n).filter(|i| c.eligible >> i & 1 == 1) {
            let p = c.weights[i] as f64 / total;
            let exp = 2000.0 * p;
            let tol = 5.0 * (2000.0 * p * (1.0 - p)).sqrt() + 1.0;
            let got = *counts.get(&i).unwrap_or(&0) as f64;
            if (got - exp).abs() > tol {
                add(&mut out, "weighted_share", format!("validator #{i} leads {got} of the first 2000 views, expected {exp:.0} +- {tol:.0}: case {:?}", c), None, &ident);
            }
        }
    }
    // order independence
    for p in perms {
        if p == &ident {
            continue;
        }
        let s2 = match catch(|| Schedule::new(infos(keys, c, p), selection(c))) {
            Ok(Ok(s)) => s,
            Ok(Err(e)) => {
                add(&mut out, "schedule_refused", format!("Schedule::new refused permutation {p:?} of {:?}: {e:#}", c), None, p);
                continue;
            }
            Err(pn) => {
                add(&mut out, "schedule_panic", format!("Schedule::new panicked on permutation {p:?} of {:?}: {pn}", c), None, p);
                continue;
            }
        };
        if s2 != sched {
            add(&mut out, "order_dependent_schedule", format!("Schedule::new gives a different schedule for input order {p:?}: case {:?}", c), None, p);
        }
        for &v in views_perm {
            out.evals += 1;
            let a = catch(|| sched.view_leader(ViewNumber(v)));
            let b = catch(|| s2.view_leader(ViewNumber(v)));
            if let (Ok(a), Ok(b)) = (a, b) {
                if a != b {
                    add(&mut out, "order_dependent_leader", format!("leader of view {v} depends on the listing order {p:?}: case {:?}", c), Some(v), p);
                }
            }
        }
    }
    out
}

fn cases(tier: Tier) -> Vec<Case> {
    let mut out = vec![];
    let maxlen = tier.pick(4, 5);
    for len in 1..=maxlen {
        for w in util::vectors(len, &[1, 2, 3]) {
            for el in 1u32..(1 << len) {
                for weighted in [false, true] {
                    for freq in [0u64, 1, 2, 3, 7] {
                        out.push(Case { weights: w.clone(), eligible: el, weighted, freq });
                    }
                }
            }
        }
    }
    // 10-validator unit schedule, a few eligible sets
    for el in [0x3ffu32, 0x155, 0x001, 0x200, 0x2aa] {
        for weighted in [false, true] {
            for freq in [0u64, 1, 2, 3, 7, u64::MAX] {
                out.push(Case { weights: vec![1; 10], eligible: el, weighted, freq });
            }
        }
    }
    // extreme weights
    for w in [vec![u64::MAX - 1, 1], vec![u64::MAX / 2, u64::MAX / 2], vec![1, u64::MAX - 1], vec![u64::MAX]] {
        for el in 1u32..(1 << w.len()) {
            for weighted in [false, true] {
                out.push(Case { weights: w.clone(), eligible: el, weighted, freq: 1 });
            }
        }
    }
    out
}

/// Use sites of the leader function in the replica (proposal.rs, proposer.rs): for a replica in view v,
/// a proposal for view w >= v is accepted only from `leader(w)` and never refused as "invalid leader"
/// when it comes from `leader(w)` - whatever v is; and the real run loops (`Config::run`: run_proposer)
/// only ever emit a proposal for view w signed by `leader(w)`. `leader` is the independent reference.
fn use_sites(seed: u64) -> (u64, u64, Vec<(String, String, serde_json::Value)>) {
    use zksync_consensus_roles::validator::v2;
    use crate::bftsim::{self, Input, Local, Policy, World};
    let mut viol: Vec<(String, String, serde_json::Value)> = vec![];
    let (mut steps, mut proposals_seen) = (0u64, 0u64);
    let modes = [(vec![1u64, 1, 1, 1], false, 1u64), (vec![1, 1, 1, 1], false, 2), (vec![2, 1, 1, 1], true, 1)];
    for (weights, weighted, freq) in modes {
        let case = Case { weights: weights.clone(), eligible: (1 << weights.len()) - 1, weighted, freq };
        let c = util::committee_with(seed, &weights, 0, 0, selection(&case));
        let pubkeys: Vec<validator::PublicKey> = c.keys.iter().map(|k| k.public()).collect();
        let w = World { c, proposals: vec![validator::Payload(vec![0x58]), validator::Payload(vec![0x59, 1])], invalid_payload: validator::Payload(vec![0xBA, 0xD0]) };
        let n = weights.len();
        let leader = |v: u64| reference(&pubkeys, &case, v).unwrap();
        let tq = |v: u64| {
            let votes: Vec<(usize, v2::ReplicaTimeout)> = (0..n).map(|i| (i, w.timeout_vote(v, None, None))).collect();
            w.timeout_qc(v, &votes)
        };
        // (U1) the replica's acceptance test
        for r in 0..2usize {
            let l0 = Local::initial();
            let l1 = bftsim::step(&w, r, &l0, &Input::Msg(w.new_view((r + 1) % n, &v2::ProposalJustification::Timeout(tq(0)))), &Policy::default()).local;
            for (v, local) in [(0u64, &l0), (1, &l1)] {
                if local.snap.view_number.0 != v {
                    viol.push(("machinery".into(), format!("use-site set-up: replica expected in view {v}, is in view {}", local.snap.view_number.0), json!({})));
                    continue;
                }
                for wv in v.max(1)..=v + 2 {
                    let j = v2::ProposalJustification::Timeout(tq(wv - 1));
                    for author in 0..n {
                        let out = bftsim::step(&w, r, local, &Input::Msg(w.proposal(author, &j, Some(w.proposals[0].clone()))), &Policy::default());
                        steps += 1;
                        let voted = out.sent.iter().any(|m| matches!(&m.msg, validator::ConsensusMsg::V2(v2::ChonkyMsg::ReplicaCommit(_))));
                        let refused_leader = matches!(&out.outcome, Some(Err(e)) if e.contains("InvalidLeader"));
                        let want = author == leader(wv);
                        let rp = json!({"harness": "c11-use", "mode": case.json(), "replica": r, "replica_view": v, "proposal_view": wv, "author": author});
                        if voted && !want && !viol.iter().any(|x| x.0 == "proposal_accepted_from_non_leader") {
                            viol.push(("proposal_accepted_from_non_leader".into(), format!("[proposal_accepted_from_non_leader] schedule {:?}: a replica in view {v} voted for a proposal for view {wv} signed by validator #{author}, but the leader of view {wv} is validator #{}", case, leader(wv)), rp.clone()));
                        }
                        if want && refused_leader && !viol.iter().any(|x| x.0 == "leader_refused") {
                            viol.push(("leader_refused".into(), format!("[leader_refused] schedule {:?}: a replica in view {v} refused the proposal of validator #{author}, the leader of view {wv}, as coming from the wrong leader: {:?}", case, out.outcome), rp));
                        }
                    }
                }
            }
        }
        // (U2) the proposer of the real run loops: a perfect network until 12 proposals have been made
        let ch = crate::core::Chooser::new(vec![], None);
        let nodes: Vec<(usize, Local)> = (0..n).map(|i| (i, Local::initial())).collect();
        let out = bftsim::run_loops_until_proposals(&ch, &w, &nodes, 3, 12);
        if std::env::var("VERIF_DEBUG").is_ok() {
            eprintln!("c11 use: mode {:?} -> {:?}", case, out);
        }
        for (view, signer) in &out.proposals_routed {
            proposals_seen += 1;
            if *signer != leader(*view) && !viol.iter().any(|x| x.0 == "proposal_by_non_leader") {
                viol.push(("proposal_by_non_leader".into(), format!("[proposal_by_non_leader] schedule {:?}: the run loop of validator #{signer} proposed in view {view}, whose leader is validator #{}", case, leader(*view)), json!({"harness": "c11-use", "mode": case.json()})));
            }
        }
    }
    (steps, proposals_seen, viol)
}

pub fn run(args: &Args) -> Report {
    let mut rep = Report::new("C11", "exploration");
    let keys: Vec<validator::PublicKey> = util::validator_keys(args.seed, 10).iter().map(|k| k.public()).collect();
    let views_full = util::boundary_u64(2000);
    let views_perm: Vec<u64> = util::boundary_u64(40);

    if let Some(r) = &args.replay {
        if r["replay"]["harness"] == "c11-use" {
            for (k, w, rp) in use_sites(args.seed).2 {
                rep.violations.push(Violation { key: k, what: w, replay: rp });
            }
            return rep;
        }
        let c = Case::from_json(&r["replay"]["case"]);
        let n = c.weights.len();
        let perms = if n <= 5 { util::permutations(n) } else { vec![(0..n).rev().collect(), (0..n).map(|i| (i + 3) % n).collect(), (0..n).map(|i| (i * 7) % n).collect()] };
        let o = check_case(&keys, &c, &views_full, &views_perm, &perms);
        for (k, w, rp) in o.viol {
            rep.violations.push(Violation { key: k, what: w, replay: rp });
        }
        return rep;
    }

    let cs = cases(args.tier);
    let perm_cache: Vec<Vec<Vec<usize>>> = (0..=5).map(util::permutations).collect();
    let outs = par_map(cs.len(), |i| {
        let c = &cs[i];
        let n = c.weights.len();
        let big: Vec<Vec<usize>> = vec![(0..n).rev().collect(), (0..n).map(|i| (i + 3) % n).collect(), (0..n).map(|i| (i * 7) % n).collect()];
        let perms: &[Vec<usize>] = if n <= 5 { &perm_cache[n] } else { &big };
        check_case(&keys, c, &views_full, &views_perm, perms)
    });
    let mut evals = 0;
    let mut nontrivial = 0;
    let mut multi_leader_cases = 0;
    let mut by_class: BTreeMap<String, (u64, String, serde_json::Value)> = BTreeMap::new();
    for o in outs {
        evals += o.evals;
        nontrivial += o.nontrivial;
        if o.distinct_leaders >= 2 {
            multi_leader_cases += 1;
        }
        for (k, w, r) in o.viol {
            let e = by_class.entry(k).or_insert((0, w, r));
            e.0 += 1;
        }
    }
    for (k, (cnt, w, r)) in by_class {
        rep.violations.push(Violation { key: k.clone(), what: format!("[{k}] {w} ({cnt} schedules affected)"), replay: r });
    }
    let (use_steps, use_proposals, use_viol) = use_sites(args.seed);
    for (k, w, rp) in use_viol {
        if k == "machinery" {
            rep.machinery_errors.push(w);
        } else {
            rep.violations.push(Violation { key: k, what: w, replay: rp });
        }
    }
    if rep.violations.is_empty() && use_proposals < 6 {
        rep.machinery_errors.push(format!("vacuous: the real run loops emitted only {use_proposals} proposals"));
    }
    if multi_leader_cases == 0 {
        rep.machinery_errors.push("vacuous: no schedule produced two different leaders".into());
    }
    rep.coverage = json!({
        "evaluations": evals,
        "distinct_nontrivial": nontrivial,
        "rule": "every schedule of the scope (weight vectors over {1,2,3} up to the tier's length x every non-empty eligible subset x both modes x frequency in {0,1,2,3,7}; unit schedule of 10; extreme weights) x every view of the boundary set (0..2000, 2^k-2..2^k+2, u64::MAX-2..) evaluated on the real Schedule::view_leader; additionally every permutation of the input list on a reduced view set. Each (schedule, view) pair is distinct by construction; non-trivial = at least two eligible validators",
        "exhaustive": true,
        "schedules": cs.len(),
        "use_sites": {"replica_steps": use_steps, "proposals_emitted_by_real_run_loops": use_proposals, "rule": "3 schedules (round-robin frequency 1 and 2, weighted) x replica in view 0 / 1 x proposal view v..v+2 x every author through the real on_proposal; the real Config::run loops of all validators on a perfect network until 12 proposals were made, per schedule (default task schedule)"},
        "views_per_schedule": views_full.len(),
        "schedules_with_two_or_more_observed_leaders": multi_leader_cases,
        "samples": [cs[cs.len()/3].json(), cs[cs.len()/2].json(), cs[cs.len()-1].json()],
    });
    rep.assumptions = vec!["Keccak-256 of the sha3 crate and ByteFmt key encoding are trusted for the reference".into(), "weights > 3 (except listed extremes), > 10 validators and unlisted views are outside the scope".into()];
    rep
}
