//! C19 — block fetch requests are never lost and go only to peers that have the block.
//! E2: requester tasks and peer-worker tasks around the real gossip fetch::Queue (hook
//! VFetchQueue) under the controlled scheduler; every schedule within a deviation bound;
//! success / failure / disconnect of every accepted call are environment choices.
use std::{
    sync::{Arc, Mutex},
    time::Duration,
};

use serde_json::json;
use zksync_concurrency::{ctx, scope, sync, time};
use zksync_consensus_engine::{BlockStoreState, Last};
use zksync_consensus_network::verif::VFetchQueue;
use zksync_consensus_roles::validator::BlockNumber;

use crate::{
    core::{self, env_choose, explore, fx_hash, Ch, ExecResult, ExploreCfg, Report, Violation},
    sched, Args,
};

#[derive(Clone, Debug, PartialEq)]
enum Ev {
    Accept { worker: usize, n: u64, avail_lo: u64, avail_hi: u64 },
    Success { worker: usize, n: u64 },
    Fail { worker: usize, n: u64 },
    Disconnect { worker: usize, n: u64 },
    RequestOk { n: u64 },
    RequestCanceled { n: u64 },
    Grow { worker: usize, hi: u64 },
}

fn range(hi: u64) -> BlockStoreState {
    BlockStoreState { first: BlockNumber(0), last: Some(Last::PreGenesis(BlockNumber(hi))) }
}

fn range2(lo: u64, hi: u64) -> BlockStoreState {
    BlockStoreState { first: BlockNumber(lo), last: Some(Last::PreGenesis(BlockNumber(hi))) }
}

struct Shared {
    log: Vec<Ev>,
    /// first block each peer connection announces (a peer that pruned its history starts above 0)
    avail_lo: [u64; 2],
    /// is the worker currently parked inside accept_block (alive and idle)?
    waiting: [bool; 2],
    alive: [bool; 2],
    avail: [u64; 2],
}

fn run_once(ch: &Ch, scenario: u32) -> ExecResult {
    let sh = Arc::new(Mutex::new(Shared { log: vec![], avail_lo: [0, 0], waiting: [false; 2], alive: [true; 2], avail: [5, 9] }));
    let sh2 = sh.clone();
    // Rc is not Send; environment choices are made through a Send wrapper used only on this thread
    struct SendCh(Ch);
    unsafe impl Send for SendCh {}
    unsafe impl Sync for SendCh {}
    let sch = Arc::new(SendCh(ch.clone()));
    let final_blocks: Arc<Mutex<Vec<u64>>> = Default::default();
    let fb2 = final_blocks.clone();
    let stuck = sched::run(ch, |idle| async move {
        let clock = ctx::ManualClock::new();
        let root = ctx::test_root(&clock);
        let q = VFetchQueue::default();
        let a0 = sync::watch::channel(if scenario == 3 { range(9) } else if scenario == 4 { range2(6, 9) } else { range(5) }).0;
        let a1 = sync::watch::channel(match scenario {
            2 => range(5),
            3 | 4 => range2(6, 9), // pruned peer: does not have blocks below 6
            _ => range(9),
        })
        .0;
        if scenario == 2 {
            sh2.lock().unwrap().avail = [5, 5];
        }
        if scenario == 3 {
            let mut g = sh2.lock().unwrap();
            g.avail = [9, 9];
            g.avail_lo = [0, 6];
        }
        // scenario 4: nobody stores block 5 (both peers pruned it); its requester gives up (deadline) while the request
        // is still queued: block 8, now the lowest outstanding one, must be handed to a peer that waits for work
        if scenario == 4 {
            let mut g = sh2.lock().unwrap();
            g.avail = [9, 9];
            g.avail_lo = [6, 6];
        }
        let (q, a0, a1, sh, root, sch, clock) = (&q, &a0, &a1, &sh2, &root, &sch, &clock);
        let idle_ref = &idle;
        let fut = async move {
            scope::run!(root, |ctx, s| async move {
                // requesters
                let wanted: &[u64] = match scenario {
                    2 => &[5, 6],
                    3 | 4 => &[5, 8],
                    _ => &[3, 5, 7],
                };
                for &n in wanted {
                    s.spawn(async move {
                        let c;
                        let rctx = if n == 7 || (scenario == 4 && n == 5) {
                            c = ctx.with_timeout(time::Duration::seconds(10));
                            &c
                        } else {
                            ctx
                        };
                        match q.request(rctx, BlockNumber(n)).await {
                            Ok(()) => sh.lock().unwrap().log.push(Ev::RequestOk { n }),
                            Err(_) => sh.lock().unwrap().log.push(Ev::RequestCanceled { n }),
                        }
                        Ok(())
                    });
                }
                // peer workers
                for wi in 0..2usize {
                    let avail = if wi == 0 { a0 } else { a1 };
                    s.spawn_bg(async move {
                        let mut sub = avail.subscribe();
                        loop {
                            sh.lock().unwrap().waiting[wi] = true;
                            let r = q.accept_block(ctx, &mut sub).await;
                            sh.lock().unwrap().waiting[wi] = false;
                            let Ok((n, comp)) = r else { break };
                            let (lo, hi) = {
                                let g = sh.lock().unwrap();
                                (g.avail_lo[wi], g.avail[wi])
                            };
                            sh.lock().unwrap().log.push(Ev::Accept { worker: wi, n: n.0, avail_lo: lo, avail_hi: hi });
                            sched::yield_now().await;
                            match env_choose(&sch.0, 3) {
                                0 => {
                                    sh.lock().unwrap().log.push(Ev::Success { worker: wi, n: n.0 });
                                    comp.success();
                                }
                                1 => {
                                    sh.lock().unwrap().log.push(Ev::Fail { worker: wi, n: n.0 });
                                    drop(comp);
                                }
                                _ => {
                                    let mut g = sh.lock().unwrap();
                                    g.log.push(Ev::Disconnect { worker: wi, n: n.0 });
                                    g.alive[wi] = false;
                                    drop(comp);
                                    return Ok(());
                                }
                            }
                        }
                        sh.lock().unwrap().alive[wi] = false;
                        anyhow::Ok(())
                    });
                }
                // environment: acts whenever the system is idle
                s.spawn(async move {
                    for step in 0..4 {
                        idle_ref.settle().await;
                        // lost wake-up check at every quiescent point
                        {
                            let g = sh.lock().unwrap();
                            let outstanding = q.current_blocks();
                            if let Some(lowest) = outstanding.first() {
                                for wi in 0..2 {
                                    if g.alive[wi] && g.waiting[wi] && g.avail_lo[wi] <= *lowest && *lowest <= g.avail[wi] {
                                        drop(g);
                                        sh.lock().unwrap().log.push(Ev::Grow { worker: 99, hi: *lowest });
                                        return Err(anyhow::format_err!("LOST-WAKEUP"));
                                    }
                                }
                            }
                        }
                        match step {
                            0 if scenario == 4 => {}
                            0 => {
                                let hi = if scenario == 2 { 6 } else { 9 };
                                a0.send_replace(range(hi));
                                let mut g = sh.lock().unwrap();
                                g.avail[0] = hi;
                                g.log.push(Ev::Grow { worker: 0, hi });
                            }
                            1 => clock.advance(time::Duration::seconds(11)),
                            _ => {}
                        }
                    }
                    *fb2.lock().unwrap() = q.current_blocks();
                    // end of the run: cancel everything still waiting
                    s.cancel();
                    Ok(())
                });
                anyhow::Ok(())
            })
            .await
        };
        match sched::drive(&idle, fut, |k| k < 40).await {
            sched::Driven::Done(r) => r.err().map(|e| format!("{e:#}")),
            sched::Driven::Stuck => Some("STUCK".into()),
        }
    });
    let g = sh.lock().unwrap();
    let log = g.log.clone();
    let mut violation: Option<String> = None;
    if let Some(s) = &stuck {
        if s.contains("LOST-WAKEUP") {
            violation = Some(format!("lost wake-up: the system is quiescent although the lowest outstanding request is available at an idle peer connection; events {log:?}"));
        } else if s.contains("STUCK") {
            violation = Some(format!("machinery: driver stuck; events {log:?}"));
        }
    }
    // event-log oracle
    let mut held: std::collections::BTreeMap<u64, usize> = Default::default();
    let mut succeeded: std::collections::BTreeSet<u64> = Default::default();
    for e in &log {
        match e {
            Ev::Accept { worker, n, avail_lo, avail_hi } => {
                if n > avail_hi || n < avail_lo {
                    violation.get_or_insert(format!("block {n} was handed to peer connection {worker} which has announced only blocks {avail_lo}..={avail_hi}; events {log:?}"));
                }
                if let Some(o) = held.get(n) {
                    violation.get_or_insert(format!("block {n} was handed to peer connection {worker} while connection {o} still holds it; events {log:?}"));
                }
                held.insert(*n, *worker);
            }
            Ev::Success { n, .. } => {
                held.remove(n);
                succeeded.insert(*n);
            }
            Ev::Fail { n, .. } | Ev::Disconnect { n, .. } => {
                held.remove(n);
            }
            Ev::RequestOk { n } => {
                if !succeeded.contains(n) {
                    violation.get_or_insert(format!("request({n}) returned Ok although no peer reported the block as stored; events {log:?}"));
                }
            }
            _ => {}
        }
    }
    // a failed / disconnected request must be outstanding again unless it was re-accepted or cancelled
    let fin = final_blocks.lock().unwrap().clone();
    let wanted: &[u64] = match scenario {
        2 => &[5, 6],
        3 | 4 => &[5, 8],
        _ => &[3, 5, 7],
    };
    if stuck.is_none() {
        for n in wanted {
            let ok = log.iter().any(|e| matches!(e, Ev::RequestOk { n: m } if m == n));
            let canceled = log.iter().any(|e| matches!(e, Ev::RequestCanceled { n: m } if m == n));
            let holding = held.contains_key(n);
            if !ok && !canceled && !fin.contains(n) && !holding {
                violation.get_or_insert(format!("request for block {n} was lost: it neither completed nor is it outstanding at the end; outstanding {fin:?}; events {log:?}"));
            }
            if canceled && fin.contains(n) && (*n == 7 || (scenario == 4 && *n == 5)) {
                violation.get_or_insert(format!("the cancelled request for block {n} is still in the queue; events {log:?}"));
            }
        }
    }
    let fails = log.iter().filter(|e| matches!(e, Ev::Fail { .. } | Ev::Disconnect { .. })).count() as u64;
    ExecResult { obs: fx_hash(&format!("{log:?}")), violation, nontrivial: true, witnesses: vec![("failed_or_disconnected_calls", fails), ("completed_requests", log.iter().filter(|e| matches!(e, Ev::RequestOk { .. })).count() as u64)] }
}

pub fn run(args: &Args) -> Report {
    let mut rep = Report::new("C19", "model_checking");
    if let Some(r) = &args.replay {
        let rp = &r["replay"];
        if super::gossipnet::replay_fetch(&mut rep, args.seed, rp, &["request_lost", "sent_to_peer_without_block"]) {
            return rep;
        }
        if rp["harness"] == "c19-extreme" {
            for (what, rp) in super::c10::stage_semantic_fetch_mismatches(args.seed).1.into_iter().take(1) {
                rep.violations.push(Violation { key: "extreme_range_decision".into(), what, replay: rp });
            }
            return rep;
        }
        let sc = rp["config"]["scenario"].as_u64().unwrap_or(1) as u32;
        let devs: core::Deviations = rp["deviations"].as_array().map(|a| a.iter().map(|p| (p[0].as_u64().unwrap() as u32, p[1].as_u64().unwrap() as u32)).collect()).unwrap_or_default();
        let (res, div) = core::replay_one(&|ch: &Ch| run_once(ch, sc), devs);
        if let Some(d) = div {
            rep.machinery_errors.push(d);
        }
        if let Some(v) = res.violation {
            rep.violations.push(Violation { key: "replay".into(), what: v, replay: rp.clone() });
        }
        return rep;
    }
    let bound = args.tier.pick(3, 5);
    let budget = Duration::from_secs(args.tier.pick(40, 1200));
    let t0 = std::time::Instant::now();
    let (mut execs, mut points, mut distinct) = (0u64, 0u64, 0u64);
    let mut stats = vec![];
    let mut capped = false;
    let mut fails = 0;
    for sc in [4u32, 3, 1, 2] {
        let cfg = ExploreCfg::new(&format!("fetch-queue[scenario {sc}]"), bound, budget.saturating_sub(t0.elapsed()) / match sc { 4 => 6, 3 => 3, _ => 3 - sc });
        let st = explore(&cfg, |ch| run_once(ch, sc));
        execs += st.execs;
        points += st.choice_points;
        distinct += st.distinct_obs;
        capped |= st.capped;
        fails += *st.witnesses.get("failed_or_disconnected_calls").unwrap_or(&0);
        rep.absorb("c19", &st, json!({"scenario": sc}));
        stats.push(st.to_json());
    }
    // extreme announced ranges (shared with C10 part c): the queue's decision equals range membership
    let (extreme_cases, mism) = super::c10::stage_semantic_fetch_mismatches(args.seed);
    for (what, rp) in mism.into_iter().take(1) {
        rep.violations.push(Violation { key: "extreme_range_decision".into(), what: format!("[extreme_range_decision] {what}"), replay: rp });
    }
    // the per-connection fetch loop (gossip/runner.rs) and run_block_fetcher (gossip/mod.rs) on real networks
    let net_cov = super::gossipnet::report_fetch(&mut rep, args.seed, &["request_lost", "sent_to_peer_without_block"], &|_| true);
    if rep.violations.is_empty() && fails == 0 {
        rep.machinery_errors.push("vacuous: no accepted call ever failed or disconnected".into());
    }
    rep.coverage = json!({
        "states": execs, "transitions": points, "traces_validated_against_impl": execs,
        "evaluations": execs, "distinct_nontrivial": distinct,
        "samples": [
            {"scenario": 1, "case": "requests for blocks 3,5,7 (7 with a deadline), peer 0 announces 0..5 then 0..9, peer 1 announces 0..9; every accepted call succeeds / fails / disconnects by environment choice"},
            {"scenario": 2, "case": "requests 5 and 6, both peers announce 0..5, peer 0 later 0..6"},
            {"scenario": 3, "case": "requests 5 and 8, peer 0 announces 0..9, peer 1 has pruned its history and announces 6..9: a failed call for 5 is re-queued while peer 1 is about to take 8"},
            {"scenario": 4, "case": "requests 5 (with a deadline) and 8, both peers have pruned their history and announce 6..9: the request for 5 is given up while still queued, 8 must then be handed to a waiting peer"},
            {"scenario": "extreme ranges", "case": "one peer announcing {first, last} over {0,1,2,2^63-1,2^64-2,2^64-1} (PreGenesis and FinalV2 ends), one wanted block from the same set: accepted iff first <= n <= last"},
        ],
        "rule": "a state is one complete execution (schedule + environment answers) of the driver around the real fetch::Queue; all executions within the deviation bound; distinct = distinct event logs",
        "deviation_bound": bound, "exhaustive": !capped, "capped_by_time_budget": capped,
        "witness_failed_or_disconnected_calls": fails,
        "extreme_announced_range_cases": extreme_cases,
        "real_network_part": net_cov,
        "explorations": stats,
    });
    rep.assumptions = vec!["task switches only at awaits that return Pending; 'lowest missing block first' is checked through the lost-wake-up condition at quiescence, not at every accept".into()];
    rep
}
