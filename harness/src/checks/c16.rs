//! C16 — pending consensus input stays bounded and always keeps the freshest vote.
//! (a1) every operation sequence send(m)|recv up to a length on the real create_input_channel()
//!      against a reference Vec;
//! (a2) two real sender THREADS interleaved at every lock acquisition of the underlying watch
//!      channel (thread-point hook of the vendored tokio), all interleavings, linearizability
//!      against the sequential reference;
//! (b)  the L1 replica search with a flood alphabet: cache sizes bounded by the committee size.
use std::{
    sync::{Arc, Condvar, Mutex},
    time::{Duration, Instant},
};

use serde_json::json;
use zksync_concurrency::{ctx, oneshot};
use zksync_consensus_bft::{create_input_channel, FromNetworkMessage};
use zksync_consensus_roles::validator::{self, v2};

use super::l1;
use crate::{
    bftmsgs,
    bftsim::SignedMsg,
    core::{catch, Report, Violation},
    Args,
};

#[derive(Clone, Debug, PartialEq)]
struct M {
    sender: usize,
    kind: u8,
    view: u64,
    valid: bool,
    id: usize,
}

fn req(m: &SignedMsg) -> FromNetworkMessage {
    FromNetworkMessage { msg: m.clone(), ack: oneshot::channel().0 }
}

/// The stated rule, on a Vec.
fn ref_send(buf: &mut Vec<M>, m: &M) {
    if !m.valid {
        return;
    }
    let mut keep = true;
    buf.retain(|p| {
        if p.sender != m.sender || p.kind != m.kind {
            true
        } else if p.view < m.view {
            false
        } else {
            keep = false;
            true
        }
    });
    if keep {
        buf.push(m.clone());
    }
}

fn messages(seed: u64) -> (Vec<M>, Vec<SignedMsg>) {
    let (w, _r) = l1::world(seed);
    let px = w.proposals[0].clone();
    let mut ms = vec![];
    let mut sm = vec![];
    for sender in 0..2usize {
        for kind in 0..4u8 {
            for view in 1..=3u64 {
                let msg = match kind {
                    0 => w.signed_commit(sender, &w.commit_vote(view, 0, &px)),
                    1 => w.signed_timeout(sender, &w.timeout_vote(view, None, None)),
                    2 => w.new_view(sender, &v2::ProposalJustification::Timeout(w.timeout_qc(view - 1, &[]))),
                    _ => w.proposal(sender, &v2::ProposalJustification::Timeout(w.timeout_qc(view - 1, &[])), Some(px.clone())),
                };
                ms.push(M { sender, kind, view, valid: true, id: ms.len() });
                sm.push(msg);
            }
        }
    }
    // one message with a bad signature (newer view than everything pending of its kind)
    let mut bad = w.signed_commit(0, &w.commit_vote(3, 0, &px));
    bad.sig = w.signed_commit(1, &w.commit_vote(9, 0, &px)).sig;
    ms.push(M { sender: 0, kind: 0, view: 3, valid: false, id: ms.len() });
    sm.push(bad);
    // validly signed commit votes of sender 0 that name ANOTHER chain (the genesis hash is a field the signer
    // chooses): they compete for the same (sender, kind) slot as its other commit votes
    let other = l1::world(seed ^ 0x0E5).0.c.genesis.hash();
    for view in [1u64, 3] {
        let mut v = w.commit_vote(view, 0, &px);
        v.view.genesis = other;
        ms.push(M { sender: 0, kind: 0, view, valid: true, id: ms.len() });
        sm.push(w.signed_commit(0, &v));
    }
    (ms, sm)
}

fn id_of(sm: &[SignedMsg], got: &SignedMsg) -> usize {
    sm.iter().position(|x| x == got).unwrap_or(usize::MAX)
}

/// (a1) every operation sequence up to `max_len`, each run on a fresh real channel.
fn sequences(seed: u64, max_len: usize, alphabet_ids: &[usize]) -> (u64, u64, Option<(String, serde_json::Value)>) {
    let (ms, sm) = messages(seed);
    let ops: Vec<i32> = std::iter::once(-1).chain(alphabet_ids.iter().map(|x| *x as i32)).collect();
    // only maximal sequences need to be run: every shorter sequence is a prefix of one of them and
    // the comparison with the reference is made after every step
    let mut seqs: Vec<Vec<i32>> = vec![vec![]];
    for _ in 0..max_len {
        seqs = seqs.iter().flat_map(|s| ops.iter().map(move |o| { let mut t = s.clone(); t.push(*o); t })).collect();
    }
    let results = crate::core::par_map(seqs.len(), |si| {
        let t = &seqs[si];
        let clock = ctx::ManualClock::new();
        let root = ctx::test_root(&clock);
        let rt = tokio::runtime::Builder::new_current_thread().build().unwrap();
        let (send, mut recv) = create_input_channel();
        let mut model: Vec<M> = vec![];
        let mut finals: Vec<Vec<usize>> = vec![];
        for (k, o) in t.iter().enumerate() {
            let mut bad: Option<String> = None;
            if *o >= 0 {
                let i = *o as usize;
                if let Err(p) = catch(|| send.send(req(&sm[i]))) {
                    bad = Some(format!("send panicked: {p}"));
                }
                ref_send(&mut model, &ms[i]);
            } else {
                // recv under a context that is cancelled as soon as the receiver has to wait
                let r = catch(|| rt.block_on(async { recv.recv(&root.with_timeout(zksync_concurrency::time::Duration::ZERO)).await }));
                match r {
                    Err(p) => bad = Some(format!("recv panicked: {p}")),
                    Ok(Ok(v)) => {
                        if model.is_empty() {
                            bad = Some("recv returned a message although nothing is pending according to the rule".into());
                        } else {
                            let want = model.remove(0);
                            let got = id_of(&sm, &v.msg);
                            if got != want.id {
                                bad = Some(format!("recv returned message #{got} ({:?}), the rule says #{} ({:?})", ms.get(got), want.id, want));
                            }
                        }
                    }
                    Ok(Err(_)) => {
                        if !model.is_empty() {
                            bad = Some(format!("recv found nothing although {:?} is pending according to the rule", model[0]));
                        }
                    }
                }
            }
            if let Some(b) = bad {
                return Err((format!("[channel_sequence] {b}; operations {:?} (step {k})", t.iter().map(|o| if *o < 0 { "recv".to_string() } else { format!("send({:?})", ms[*o as usize]) }).collect::<Vec<_>>()), json!({"harness":"c16-seq","ops": t})));
            }
            finals.push(model.iter().map(|m| m.id).collect());
        }
        Ok(finals)
    });
    let mut distinct: std::collections::HashSet<Vec<usize>> = Default::default();
    let mut evals = 0;
    for r in results {
        match r {
            Ok(f) => {
                evals += f.len() as u64;
                distinct.extend(f);
            }
            Err(e) => return (evals, distinct.len() as u64, Some(e)),
        }
    }
    (evals, distinct.len() as u64, None)
}

// ---------------------------------------------------------------------------------------------
// (a2) real threads, interleaved at watch lock acquisitions

struct BState {
    turn: Option<usize>,
    alive: Vec<bool>,
    prefix: Vec<usize>,
    pos: usize,
    arities: Vec<usize>,
}
struct Baton {
    s: Mutex<BState>,
    cv: Condvar,
}

impl Baton {
    fn pick(&self, st: &mut BState) {
        let cands: Vec<usize> = (0..st.alive.len()).filter(|i| st.alive[*i]).collect();
        if cands.is_empty() {
            st.turn = None;
            return;
        }
        let c = if cands.len() > 1 {
            let c = st.prefix.get(st.pos).copied().unwrap_or(0);
            st.arities.push(cands.len());
            st.pos += 1;
            c.min(cands.len() - 1)
        } else {
            0
        };
        st.turn = Some(cands[c]);
    }
    fn point(&self, me: usize, finished: bool) {
        let mut st = self.s.lock().unwrap();
        if finished {
            st.alive[me] = false;
        }
        self.pick(&mut st);
        self.cv.notify_all();
        if !finished {
            while st.turn != Some(me) {
                st = self.cv.wait(st).unwrap();
            }
        }
    }
    fn wait_turn(&self, me: usize) {
        let mut st = self.s.lock().unwrap();
        while st.turn != Some(me) {
            st = self.cv.wait(st).unwrap();
        }
    }
}

/// Runs the thread bodies under one interleaving; returns the recorded arities.
fn run_interleaving(prefix: &[usize], bodies: Vec<Box<dyn FnOnce() + Send>>) -> Vec<usize> {
    let n = bodies.len();
    let baton = Arc::new(Baton { s: Mutex::new(BState { turn: None, alive: vec![true; n], prefix: prefix.to_vec(), pos: 0, arities: vec![] }), cv: Condvar::new() });
    let hs: Vec<_> = bodies
        .into_iter()
        .enumerate()
        .map(|(i, b)| {
            let baton = baton.clone();
            std::thread::spawn(move || {
                baton.wait_turn(i);
                let b2 = baton.clone();
                tokio::verif_sched::install_thread_hook(Box::new(move || b2.point(i, false)));
                b();
                tokio::verif_sched::uninstall_thread_hook();
                baton.point(i, true);
            })
        })
        .collect();
    {
        let mut st = baton.s.lock().unwrap();
        baton.pick(&mut st);
        baton.cv.notify_all();
    }
    for h in hs {
        h.join().expect("interleaved thread panicked");
    }
    let st = baton.s.lock().unwrap();
    st.arities.clone()
}

fn threads(seed: u64) -> (u64, u64, u64, Option<(String, serde_json::Value)>) {
    let (ms, sm) = messages(seed);
    let clock = ctx::ManualClock::new();
    let root = ctx::test_root(&clock);
    let rt = tokio::runtime::Builder::new_current_thread().build().unwrap();
    let find = |sender: usize, kind: u8, view: u64| ms.iter().position(|m| m.sender == sender && m.kind == kind && m.view == view && m.valid).unwrap();
    // (pre-sent message, thread 1 message, thread 2 message)
    let cases: Vec<(Option<usize>, usize, usize)> = vec![
        (None, find(0, 0, 2), find(0, 0, 2)),
        (None, find(0, 0, 1), find(0, 0, 2)),
        (None, find(0, 0, 3), find(0, 0, 1)),
        (Some(find(0, 0, 1)), find(0, 0, 2), find(0, 0, 3)),
        (Some(find(0, 0, 2)), find(0, 0, 2), find(0, 0, 1)),
        (None, find(0, 0, 2), find(1, 0, 2)),
        (None, find(0, 0, 2), find(0, 1, 2)),
        (Some(find(1, 1, 1)), find(0, 1, 2), find(0, 1, 2)),
    ];
    let (mut execs, mut points, mut multi) = (0u64, 0u64, 0u64);
    for (pre, a, b) in cases {
        // sequential reference outcomes in both orders
        let mut allowed: Vec<Vec<usize>> = vec![];
        for order in [[a, b], [b, a]] {
            let mut model = vec![];
            if let Some(p) = pre {
                ref_send(&mut model, &ms[p]);
            }
            for i in order {
                ref_send(&mut model, &ms[i]);
            }
            allowed.push(model.iter().map(|m| m.id).collect());
        }
        let mut prefix: Vec<usize> = vec![];
        loop {
            let (send, mut recv) = create_input_channel();
            if let Some(p) = pre {
                send.send(req(&sm[p]));
            }
            let send = Arc::new(send);
            let (s1, s2) = (send.clone(), send.clone());
            let (m1, m2) = (sm[a].clone(), sm[b].clone());
            let ar = run_interleaving(&prefix, vec![Box::new(move || s1.send(req(&m1))), Box::new(move || s2.send(req(&m2)))]);
            execs += 1;
            points += ar.len() as u64;
            if ar.len() > 1 {
                multi += 1;
            }
            // drain
            let mut got = vec![];
            while let Ok(v) = rt.block_on(async { recv.recv(&root.with_timeout(zksync_concurrency::time::Duration::ZERO)).await }) {
                got.push(id_of(&sm, &v.msg));
                if got.len() > 10 {
                    break;
                }
            }
            if !allowed.contains(&got) {
                return (
                    execs,
                    points,
                    multi,
                    Some((
                        format!(
                            "[channel_threads] two concurrent senders: pending buffer ends as {:?}, but the rule allows only {:?} (pre-sent {:?}, thread 1 sends {:?}, thread 2 sends {:?}, interleaving {:?})",
                            got.iter().map(|i| ms.get(*i)).collect::<Vec<_>>(),
                            allowed.iter().map(|v| v.iter().map(|i| &ms[*i]).collect::<Vec<_>>()).collect::<Vec<_>>(),
                            pre.map(|p| &ms[p]),
                            ms[a],
                            ms[b],
                            prefix
                        ),
                        json!({"harness":"c16-threads"}),
                    )),
                );
            }
            // next interleaving (odometer over recorded arities)
            let mut next: Vec<usize> = (0..ar.len()).map(|i| prefix.get(i).copied().unwrap_or(0)).collect();
            let mut i = next.len();
            loop {
                if i == 0 {
                    next.clear();
                    break;
                }
                i -= 1;
                if next[i] + 1 < ar[i] {
                    next[i] += 1;
                    next.truncate(i + 1);
                    break;
                }
            }
            if next.is_empty() {
                break;
            }
            prefix = next;
        }
    }
    (execs, points, multi, None)
}

pub fn run(args: &Args) -> Report {
    let mut rep = Report::new("C16", "model_checking");
    let (w, r) = l1::world(args.seed);
    let total = args.tier.pick(30, 1200);
    let cfg = l1::L1Cfg {
        max_view: args.tier.pick(1, 2),
        crashes: false,
        flood: true,
        full: false,
        narrow: true,
        max_states: args.tier.pick(200_000, 5_000_000),
        deadline: Instant::now() + Duration::from_secs(total),
        seed: args.seed,
    };
    let mut cfg = cfg;
    let n = w.n();
    let cache_oracle = move |e: &l1::Edge| {
        let s = &e.out.local.snap;
        let mut v = vec![];
        let partial: usize = s.commit_qcs_cache.values().map(|m| m.len()).sum::<usize>() + s.timeout_qcs_cache.len();
        if s.commit_views_cache.len() > n || s.timeout_views_cache.len() > n || s.commit_qcs_cache.len() > n || s.timeout_qcs_cache.len() > n || partial > 2 * n * n {
            v.push(("cache_unbounded".into(), format!("vote bookkeeping exceeds the committee-size bound after '{}': commit_views {} timeout_views {} commit_qc views {} timeout_qc views {} partial certificates {partial} (n = {n})", e.input_desc, s.commit_views_cache.len(), s.timeout_views_cache.len(), s.commit_qcs_cache.len(), s.timeout_qcs_cache.len())));
        }
        // every cached partial certificate belongs to a view some validator's latest vote is at
        for view in s.commit_qcs_cache.keys() {
            if !s.commit_views_cache.values().any(|x| x == view) {
                v.push(("stale_cache_entry".into(), format!("commit certificates cached for view {} although no validator's latest commit vote is at that view (after '{}')", view.0, e.input_desc)));
            }
        }
        for view in s.timeout_qcs_cache.keys() {
            if !s.timeout_views_cache.values().any(|x| x == view) {
                v.push(("stale_cache_entry".into(), format!("timeout certificate cached for view {} although no validator's latest timeout vote is at that view (after '{}')", view.0, e.input_desc)));
            }
        }
        v
    };
    if let Some(rp) = &args.replay {
        let h = rp["replay"]["harness"].as_str().unwrap_or("");
        if h == "l1" {
            let path: Vec<String> = rp["replay"]["path"].as_array().map(|a| a.iter().filter_map(|x| x.as_str().map(|s| s.to_string())).collect()).unwrap_or_default();
            match l1::replay_path_with(&w, r, &cfg, &path, &cache_oracle) {
                Ok(Some(v)) => rep.violations.push(Violation { key: "replay".into(), what: v, replay: rp["replay"].clone() }),
                Ok(None) => {}
                Err(e) => rep.machinery_errors.push(e),
            }
        } else {
            let (_, _, _, v) = threads(args.seed);
            let (_, _, v2) = sequences(args.seed, 4, &[0, 1, 2, 3, 12, 24]);
            for x in [v, v2].into_iter().flatten() {
                rep.violations.push(Violation { key: "replay".into(), what: x.0, replay: x.1 });
            }
        }
        return rep;
    }
    // (a1)
    let (ms, _) = messages(args.seed);
    // alphabet: sender 0 commit views 1,2,3; sender 0 timeout view 2; sender 1 commit view 2; bad signature
    // ... and sender 0 commit views 1 and 3 naming another genesis
    let alpha: Vec<usize> = vec![0, 1, 2, 4, 12 + 1, ms.len() - 3, ms.len() - 2, ms.len() - 1];
    let (seq_evals, seq_distinct, v1) = sequences(args.seed, args.tier.pick(4, 6), &alpha);
    if let Some((wh, rp)) = v1 {
        rep.violations.push(Violation { key: "channel_sequence".into(), what: wh, replay: rp });
    }
    // (a2)
    let (t_execs, t_points, t_multi, v2) = threads(args.seed);
    if let Some((wh, rp)) = v2 {
        rep.violations.push(Violation { key: "channel_threads".into(), what: wh, replay: rp });
    }
    if t_multi == 0 {
        rep.machinery_errors.push("vacuous: no thread interleaving had more than one choice point".into());
    }
    // (b)
    cfg.deadline = Instant::now() + Duration::from_secs(total);
    let res = if rep.violations.is_empty() { l1::explore(&w, r, &cfg, &cache_oracle) } else { l1::L1Result::default() };
    for (k, wh, rp) in &res.violations {
        if k == "cache_unbounded" || k == "stale_cache_entry" {
            rep.violations.push(Violation { key: k.clone(), what: wh.clone(), replay: rp.clone() });
        }
    }
    rep.coverage = l1::coverage_json(&res, &cfg, "(a1) every operation sequence send(m)|recv up to the tier's length over an 8-message alphabet (two senders, two kinds, three views, a bad signature, two validly signed votes naming another genesis) on the real create_input_channel() against the stated rule on a Vec; (a2) two real sender threads interleaved at every lock acquisition of the underlying watch channel, all interleavings of 8 message pairs, final buffer must equal the rule's result for one of the two sequential orders; (b) L1 replica search (real handlers) with votes for far-future views (up to u64::MAX) interleaved with ordinary inputs: cache sizes stay within the committee-size bound and every cached partial certificate is at some validator's latest view");
    rep.coverage["channel_sequences"] = json!(seq_evals);
    rep.coverage["channel_distinct_final_buffers"] = json!(seq_distinct);
    rep.coverage["thread_interleavings"] = json!(t_execs);
    rep.coverage["thread_choice_points"] = json!(t_points);
    rep.coverage["evaluations"] = json!(seq_evals + t_execs + res.transitions as u64);
    rep.coverage["states"] = json!((res.states as u64).max(1));
    rep.coverage["transitions"] = json!((res.transitions as u64).max(1));
    rep.assumptions = vec!["thread interleavings are explored at the granularity of watch-channel lock acquisitions (the only shared state of the channel)".into(), "the flood comes from the environment's keys; views up to u64::MAX are in the alphabet".into()];
    let _ = bftmsgs::ph;
    rep
}
