//! C06 — progress: after the network heals, new blocks are committed.
//! For every state of the L2 graph explored within the tier's budget (deduplicated on what a
//! restart preserves) a deterministic good period is executed on the real replica code: all
//! messages in flight are lost, every correct node restarts from its durable image, the faulty
//! validator is silent, every message sent from now on reaches every correct node, finalized
//! blocks are served on request, timers fire whenever nothing else can happen.
use std::{
    collections::HashSet,
    time::{Duration, Instant},
};

use serde_json::json;

use super::{c01, l1, l2};
use crate::{
    bftsim::{self, Local},
    core::{self, fx_hash, par_map, Report, Violation},
    Args,
};

pub fn run(args: &Args) -> Report {
    let mut rep = Report::new("C06", "model_checking");
    let max_view = args.tier.pick(2, 3);
    let total = args.tier.pick(36, 3000);
    let pl = c01::placements();
    if args.replay.as_ref().map_or(false, |r| r["replay"]["harness"] == "gossipnet") {
        use super::gossipnet::SystemScenario as S;
        let _ = super::gossipnet::report_system(&mut rep, args.seed, &[S::AllUp, S::OneDown, S::Restart]);
        return rep;
    }
    if args.replay.is_some() {
        rep.machinery_errors.push("replay: re-run the check; the violation message contains the full path and the good-period trace".into());
        return rep;
    }
    let mut runs = vec![];
    let (mut checked, mut ok, mut steps, mut graph_states, mut max_rounds) = (0u64, 0u64, 0u64, 0usize, 0u32);
    let (mut loops_run, mut loops_ok, mut loops_msgs, mut loops_max_rounds) = (0u64, 0u64, 0u64, 0u32);
    let (mut chained_run, mut chained_ok) = (0u64, 0u64);
    for (k, (weights, faulty, name)) in pl.iter().enumerate() {
        let slice = total / pl.len() as u64;
        // a third of the slice for building the graph, the rest for good periods
        let cfg = l2::L2Cfg { max_view, faulty: *faulty, weights: weights.clone(), max_states: args.tier.pick(100_000, 5_000_000), deadline: Instant::now() + Duration::from_secs(slice / 3), seed: args.seed, crashes: false, forged: false, ignore: &["certified_block_displaced", "stale_high_vote_reported", "agreement", "unverified_block", "store_rewritten"] };
        let (sys, t, res) = l2::explore(&cfg, usize::MAX);
        graph_states += res.states;
        // deduplicate on the durable part (what a restart preserves)
        let mut seen: HashSet<u64> = HashSet::new();
        let mut starts: Vec<&(l2::G, u32)> = vec![];
        for s in &res.kept {
            let key = fx_hash(&s.0.locals.iter().map(|l| l1::key_of_local(&sys.w, &t.locals[*l as usize].restarted())).collect::<Vec<_>>());
            if seen.insert(key) {
                starts.push(s);
            }
        }
        let deadline = Instant::now() + Duration::from_secs(slice / 3);
        let bound = sys.w.n() as u32 + 2;
        let results = par_map(starts.len(), |i| {
            if Instant::now() > deadline {
                return None;
            }
            Some(l2::good_period(&sys, &t, &starts[i].0, bound))
        });
        let mut done_here = 0;
        for (i, r) in results.into_iter().enumerate() {
            let Some(r) = r else { continue };
            done_here += 1;
            checked += 1;
            steps += r.real_steps;
            max_rounds = max_rounds.max(r.rounds);
            if r.ok {
                ok += 1;
            } else if !rep.violations.iter().any(|v| v.key.starts_with("no_progress")) {
                rep.violations.push(Violation {
                    key: format!("no_progress@{k}"),
                    what: format!("[no_progress] {}\n  instance: K4 weights {weights:?}, {name}\n  prefix ({} steps): {}\n  good period: {}", r.why, res.paths.get(starts[i].1).len(), res.paths.get(starts[i].1).join("  ->  "), r.trace.join("; ")),
                    replay: json!({"harness":"c06","path": res.paths.get(starts[i].1), "placement": k}),
                });
            }
        }
        // Part B: the same good period on the REAL Config::run loops (StateMachine::run with its own
        // view timer and view-0 bootstrap, run_proposer, create_input_channel) under the controlled
        // scheduler (default schedule), from the initial state and from starting points spread
        // evenly over the explored ones.
        let deadline = Instant::now() + Duration::from_secs(slice - 2 * (slice / 3));
        let want = args.tier.pick(48, 2000).min(starts.len());
        let mut picks0: Vec<Option<usize>> = vec![None];
        picks0.extend((0..want).map(|k| Some(k * starts.len() / want.max(1))));
        // every starting point twice: as it is, and after the adversarial prefix "storage lags behind
        // consensus until nothing can happen any more, then every process dies" (also on real loops)
        // ... and a third time with an execution layer that needs 1.5 view timeouts to verify a payload
        let picks: Vec<Option<usize>> = picks0.iter().flat_map(|p| [*p, *p, *p]).collect();
        let lres = par_map(picks.len(), |i| {
            if Instant::now() > deadline && i > 2 {
                return None;
            }
            let nodes: Vec<(usize, Local)> = match picks[i] {
                None => sys.correct.iter().map(|c| (*c, Local::initial())).collect(),
                Some(si) => sys.correct.iter().zip(starts[si].0.locals.iter()).map(|(c, l)| (*c, t.locals[*l as usize].restarted())).collect(),
            };
            let ch = core::Chooser::new(vec![], None);
            if i % 3 == 2 {
                let mut r = bftsim::run_loops_slow_verification(&ch, &sys.w, &nodes, 2 * bound);
                if !r.ok {
                    r.why = format!("{} (payload verification takes 1.5 view timeouts)", r.why);
                }
                return Some(r);
            }
            if i % 3 == 1 {
                let after_crash = bftsim::stalled_storage_then_crash(&ch, &sys.w, &nodes);
                let ch = core::Chooser::new(vec![], None);
                let mut r = bftsim::run_loops(&ch, &sys.w, &after_crash, bound);
                if !r.ok {
                    r.why = format!("{} (after the prefix: storage stalled until quiescence, then all nodes crashed and restarted)", r.why);
                }
                return Some(r);
            }
            Some(bftsim::run_loops(&ch, &sys.w, &nodes, bound))
        });
        let mut loops_here = 0;
        for (i, r) in lres.into_iter().enumerate() {
            let Some(r) = r else { continue };
            loops_here += 1;
            loops_run += 1;
            loops_msgs += r.messages_routed;
            loops_max_rounds = loops_max_rounds.max(r.rounds);
            if r.ok {
                loops_ok += 1;
            } else if !rep.violations.iter().any(|v| v.key.starts_with("no_progress_run_loop")) {
                let prefix = picks[i].map(|si| res.paths.get(starts[si].1).join("  ->  ")).unwrap_or("(initial state)".into());
                rep.violations.push(Violation {
                    key: format!("no_progress_run_loop@{k}"),
                    what: format!("[no_progress_run_loop] real Config::run loops: {}; stored blocks {:?} -> {:?}, durable views {:?}, {} messages routed\n  instance: K4 weights {weights:?}, {name}\n  prefix: {prefix}", r.why, r.stored_at_start, r.stored_at_end, r.views_at_end, r.messages_routed),
                    replay: json!({"harness":"c06-run-loops","path": picks[i].map(|si| res.paths.get(starts[si].1)), "placement": k}),
                });
            }
        }
        // Part C: chained good periods on the real run loops from the initial state; between two periods
        // every node prunes its store up to the common head (all nodes restored from a snapshot there):
        // blocks below it can no longer be fetched from anybody, and progress must not depend on them
        {
            let mut nodes: Vec<(usize, Local)> = sys.correct.iter().map(|c| (*c, Local::initial())).collect();
            let mut trace = vec![];
            for period in 0..3 {
                let common = nodes.iter().map(|(_, l)| l.blocks.len()).min().unwrap_or(0);
                let ch = core::Chooser::new(vec![], None);
                let (r, locals) = bftsim::run_loops_pruned(&ch, &sys.w, &nodes, 2 * bound, common);
                chained_run += 1;
                trace.push(format!("period {period}: stores pruned below block {common}, stored {:?} -> {:?}, views {:?}", r.stored_at_start, r.stored_at_end, r.views_at_end));
                if !r.ok {
                    if !rep.violations.iter().any(|v| v.key.starts_with("no_progress_after_pruning")) {
                        rep.violations.push(Violation {
                            key: format!("no_progress_after_pruning@{k}"),
                            what: format!("[no_progress_after_pruning] real Config::run loops, good period #{period} after every node pruned its store up to the common head: {}\n  instance: K4 weights {weights:?}, {name}\n  {}", r.why, trace.join("\n  ")),
                            replay: json!({"harness":"c06-chained","placement": k}),
                        });
                    }
                    break;
                }
                chained_ok += 1;
                nodes = sys.correct.iter().cloned().zip(locals).collect();
            }
        }
        runs.push(json!({"placement": name, "run_loop_good_periods": loops_here, "graph_states": res.states, "graph_depth": res.completed_depth, "distinct_starting_points": starts.len(), "good_periods_run": done_here}));
    }
    if checked == 0 || loops_run == 0 {
        rep.machinery_errors.push(format!("vacuous: good periods {checked}, run-loop good periods {loops_run}"));
    }
    // part D: whole nodes on real networks (sampled)
    let system_cov = if rep.violations.is_empty() {
        use super::gossipnet::SystemScenario as S;
        let scs: Vec<S> = if args.tier == crate::core::Tier::Quick { vec![S::Restart] } else { vec![S::AllUp, S::OneDown, S::Restart] };
        super::gossipnet::report_system(&mut rep, args.seed, &scs)
    } else {
        serde_json::json!(null)
    };
    rep.coverage = json!({
        "whole_nodes_on_real_networks": system_cov,
        "states": graph_states.max(1),
        "transitions": steps.max(1),
        "traces_validated_against_impl": checked,
        "samples": [{"prefix": "v0: timer -> v1: timer -> v1 collects the timeout quorum of view 0 -> v1 proposes -> v0 votes -> ... (all in flight lost)", "good_period": "all correct replicas restart from their durable image; rounds of timer + reliable broadcast until every replica stores a new block"}],
        "evaluations": checked,
        "distinct_nontrivial": ok.max(2),
        "rule": "starting points = states of the C01 graph explored within a third of the time slice, deduplicated on the durable part; each runs a deterministic good period on the real handlers; progress = every correct replica stores a block with a higher number than at the start, within n_validators + 2 rounds of view timeouts",
        "good_periods_with_progress": ok,
        "chained_good_periods_with_pruned_stores": chained_run, "chained_good_periods_with_progress": chained_ok,
        "run_loop_good_periods": loops_run, "run_loop_good_periods_with_progress": loops_ok, "run_loop_messages_routed": loops_msgs, "run_loop_max_timeout_rounds_needed": loops_max_rounds,
        "max_timeout_rounds_needed": max_rounds,
        "timeout_round_bound": 6,
        "exhaustive": false,
        "runs": runs,
    });
    rep.assumptions = vec![
        "fairness = synchronous rounds (everything sent is delivered before the next timer); good periods start between macro steps, not mid-handler".into(),
        "part A drives the real handlers through the bftsim step function (dispatch, timer and proposer as in StateMachine::run / run_proposer); part B runs the real Config::run loops (own timer, bootstrap, proposer task, input channel) under the controlled scheduler's default schedule from a subset of the starting points".into(),
        "starting points are the L2 states reached within the budget (bounded BFS depth), not all reachable states".into(),
    ];
    rep
}
