//! C14 — multiplexed streams are isolated, ordered and flow-controlled.
//! E2: two real Mux endpoints over an in-memory pipe, driven by client / server tasks, every
//! schedule within a deviation bound; plus one real Mux against a scripted raw peer that
//! ignores flow control.
use std::{
    sync::{Arc, Mutex},
    time::Duration,
};

use serde_json::json;
use zksync_concurrency::{ctx, limiter, scope};
use zksync_consensus_network::verif as nv;

use crate::{
    core::{self, explore, fx_hash, Ch, ExecResult, ExploreCfg, Report, Violation},
    pipe, sched, Args,
};

fn cfg() -> nv::VMuxConfig {
    nv::VMuxConfig { read_frame_size: 8, read_buffer_size: 32, read_frame_count: 3, write_frame_size: 8 }
}

#[derive(Default)]
struct Shared {
    log: Vec<String>,
    violation: Option<String>,
    open_now: [i32; 4],
    open_max: [i32; 4],
    done: u32,
}

type Sh = Arc<Mutex<Shared>>;

fn tag(name: u8, n: usize) -> Vec<u8> {
    (0..n).map(|i| name.wrapping_add((i as u8) & 0x0f)).collect()
}

async fn read_to_end_stream(ctx: &ctx::Ctx, s: &mut nv::VStream) -> anyhow::Result<Vec<u8>> {
    let mut out = vec![];
    loop {
        let b = s.read_up_to(ctx, 7).await?;
        let n = b.len();
        out.extend(b);
        if n < 7 {
            return Ok(out);
        }
    }
}

async fn read_to_end_half(ctx: &ctx::Ctx, s: &mut nv::VReadHalf) -> anyhow::Result<Vec<u8>> {
    let mut out = vec![];
    loop {
        let b = s.read_up_to(ctx, 7).await?;
        let n = b.len();
        out.extend(b);
        if n < 7 {
            return Ok(out);
        }
    }
}

fn fail(sh: &Sh, what: String) {
    let mut g = sh.lock().unwrap();
    if g.violation.is_none() {
        g.violation = Some(what);
    }
}

/// Scenario 1: capability 0 with a single reusable stream (forces reuse). The server reads only
/// part of the first stream and drops it; the second stream must carry only its own bytes.
/// Scenario 2: capability 2 with limits 2/3: three clients open concurrently; echo servers.
fn pair_run(ch: &Ch, scenario: u32) -> ExecResult {
    let sh: Sh = Default::default();
    let sh2 = sh.clone();
    let stuck = sched::run(ch, |idle| async move {
        let clock = ctx::ManualClock::new();
        let root = ctx::test_root(&clock);
        let sh = sh2;
        // scenario 4 needs a link that can be congested
        let (pa, pb) = if scenario == 4 { pipe::pair_bounded(24) } else { pipe::pair() };
        let drain = zksync_concurrency::sync::watch::channel(false).0;
        let drain = &drain;
        let victim_open = zksync_concurrency::sync::watch::channel(false).0;
        let victim_open = &victim_open;
        let victim_done = zksync_concurrency::sync::watch::channel(false).0;
        let victim_done = &victim_done;
        let clock = &clock;
        let c0 = nv::VQueue::new(&root, 1, limiter::Rate::INF);
        let a0 = nv::VQueue::new(&root, 1, limiter::Rate::INF);
        let c2 = nv::VQueue::new(&root, 2, limiter::Rate::INF);
        let a2 = nv::VQueue::new(&root, 3, limiter::Rate::INF);
        let m1 = nv::VMux::new(cfg(), vec![], vec![(0, c0.clone()), (2, c2.clone())]);
        let m2 = nv::VMux::new(cfg(), vec![(0, a0.clone()), (2, a2.clone())], vec![]);
        let (sh, c0, a0, c2, a2, root) = (&sh, &c0, &a0, &c2, &a2, &root);
        let fut = async move { scope::run!(root, |ctx, s| async move {
            s.spawn_bg(async move {
                let _ = m1.run(ctx, pa).await;
                Ok(())
            });
            s.spawn_bg(async move {
                let _ = m2.run(ctx, pb).await;
                Ok(())
            });
            if scenario == 1 {
                // client: two consecutive streams on the single reusable stream of capability 0
                s.spawn(async move {
                    let mut st = c0.open(ctx).await?;
                    st.write_all(ctx, &tag(0x10, 20)).await?;
                    st.flush(ctx).await?;
                    let mut rh = st.close_write();
                    let got = read_to_end_half(ctx, &mut rh).await?;
                    if !got.is_empty() {
                        fail(sh, format!("client stream 1 received {got:?} although its peer wrote nothing"));
                    }
                    drop(rh);
                    let mut st = c0.open(ctx).await?;
                    st.write_all(ctx, &tag(0x40, 5)).await?;
                    let mut rh = st.close_write();
                    let got = read_to_end_half(ctx, &mut rh).await?;
                    if got != tag(0x70, 3) {
                        fail(sh, format!("client stream 2 received {got:?}, expected the 3 bytes its peer wrote"));
                    }
                    { let mut g = sh.lock().unwrap(); g.done += 1; g.log.push("client".into()); }
                    anyhow::Ok(())
                });
                // server: reads 10 of the 20 bytes of stream 1 and drops it; reads stream 2 to the end
                s.spawn(async move {
                    let mut st = a0.open(ctx).await?;
                    let got = st.read_up_to(ctx, 10).await?;
                    if got != tag(0x10, 20)[..10] {
                        fail(sh, format!("server stream 1 read {got:?}, expected the first 10 bytes written by the client"));
                    }
                    drop(st);
                    let mut st = a0.open(ctx).await?;
                    let got = read_to_end_stream(ctx, &mut st).await?;
                    if got != tag(0x40, 5) {
                        fail(sh, format!("server stream 2 read {got:?}, expected exactly the 5 bytes {:?} written on client stream 2 (bytes of another sub-stream leaked or were lost)", tag(0x40, 5)));
                    }
                    st.write_all(ctx, &tag(0x70, 3)).await?;
                    st.flush(ctx).await?;
                    drop(st);
                    sh.lock().unwrap().done += 1;
                    anyhow::Ok(())
                });
            } else if scenario == 4 {
                // a write and a flush are cancelled (deadline) while the link is congested by a sub-stream
                // the peer does not read; once the link drains, the flush is retried and the sub-stream is
                // used again: the peer must receive everything the successful writes accepted, in order
                s.spawn(async move {
                    use zksync_concurrency::time;
                    let mut victim = c0.open(ctx).await?;
                    victim_open.send_replace(true);
                    let mut blocker = c2.open(ctx).await?;
                    victim.write_all(ctx, &tag(0x10, 5)).await?;
                    let r = blocker.write_all(&ctx.with_timeout(time::Duration::seconds(10)), &tag(0x90, 200)).await;
                    let r2 = victim.flush(&ctx.with_timeout(time::Duration::seconds(10))).await;
                    { let mut g = sh.lock().unwrap(); g.log.push(format!("blocker write cancelled {} victim flush cancelled {}", r.is_err(), r2.is_err())); }
                    drain.send_replace(true);
                    drop(blocker);
                    victim.flush(ctx).await?;
                    victim.write_all(ctx, &tag(0x40, 6)).await?;
                    victim.flush(ctx).await?;
                    let mut rh = victim.close_write();
                    let got = read_to_end_half(ctx, &mut rh).await?;
                    if !got.is_empty() {
                        fail(sh, format!("the victim sub-stream received {got:?} although its peer wrote nothing"));
                    }
                    drop(rh);
                    victim_done.send_replace(true);
                    { let mut g = sh.lock().unwrap(); g.done += 1; if r2.is_err() { g.open_max[3] = 1; } }
                    anyhow::Ok(())
                });
                // an open() on the same capability (limit 1) while the victim holds the only sub-stream has to
                // wait and is cancelled by its deadline; once the victim is closed, open() must succeed
                // again (a cancelled open must not keep a sub-stream slot)
                s.spawn(async move {
                    use zksync_concurrency::{sync, time};
                    sync::wait_for(ctx, &mut victim_open.subscribe(), |d| *d).await?;
                    let r = c0.open(&ctx.with_timeout(time::Duration::seconds(5))).await;
                    if let Ok(st) = r {
                        fail(sh, "a second sub-stream of capability 0 was opened while the first one was open: the announced limit is 1".into());
                        drop(st);
                    }
                    sync::wait_for(ctx, &mut victim_done.subscribe(), |d| *d).await?;
                    let mut st = c0.open(ctx).await?;
                    st.write_all(ctx, &tag(0x70, 3)).await?;
                    st.flush(ctx).await?;
                    let mut rh = st.close_write();
                    let got = read_to_end_half(ctx, &mut rh).await?;
                    if !got.is_empty() {
                        fail(sh, format!("the sub-stream opened after a cancelled open() received {got:?} although its peer wrote nothing"));
                    }
                    { let mut g = sh.lock().unwrap(); g.done += 1; g.log.push("late-open".into()); }
                    anyhow::Ok(())
                });
                s.spawn(async move {
                    let mut victim = a0.open(ctx).await?;
                    let mut blocker = a2.open(ctx).await?;
                    zksync_concurrency::sync::wait_for(ctx, &mut drain.subscribe(), |d| *d).await?;
                    let got_b = read_to_end_stream(ctx, &mut blocker).await?;
                    if got_b != tag(0x90, 200)[..got_b.len().min(200)] {
                        fail(sh, format!("the blocker sub-stream delivered {got_b:?}, which is not a prefix of what was written on it"));
                    }
                    drop(blocker);
                    let got = read_to_end_stream(ctx, &mut victim).await?;
                    let want = [tag(0x10, 5), tag(0x40, 6)].concat();
                    if got != want {
                        fail(sh, format!("the peer of a sub-stream whose flush was cancelled under congestion and retried later read {got:?}; the successful writes were {want:?} (bytes accepted before the cancelled flush are lost / reordered)"));
                    }
                    drop(victim);
                    let mut st = a0.open(ctx).await?;
                    let got = read_to_end_stream(ctx, &mut st).await?;
                    if got != tag(0x70, 3) {
                        fail(sh, format!("the sub-stream opened after a cancelled open() delivered {got:?}, expected the 3 bytes written on it"));
                    }
                    drop(st);
                    sh.lock().unwrap().done += 1;
                    anyhow::Ok(())
                });
            } else if scenario == 3 {
                // the accepting side keeps the READ half of sub-stream 1 after its end-of-stream (as rpc
                // calls do) and asks it again while the peer already sends sub-stream 2 on the same
                // reusable stream: end-of-stream is final, the next sub-stream's frames are not its business
                s.spawn(async move {
                    let mut st = c0.open(ctx).await?;
                    st.write_all(ctx, &tag(0x10, 4)).await?;
                    st.flush(ctx).await?;
                    drop(st);
                    let mut st = c0.open(ctx).await?;
                    st.write_all(ctx, &tag(0x40, 6)).await?;
                    st.flush(ctx).await?;
                    let mut rh = st.close_write();
                    let got = read_to_end_half(ctx, &mut rh).await?;
                    if !got.is_empty() {
                        fail(sh, format!("client stream 2 received {got:?} although its peer wrote nothing"));
                    }
                    { let mut g = sh.lock().unwrap(); g.done += 1; g.log.push("client".into()); }
                    anyhow::Ok(())
                });
                s.spawn(async move {
                    let st = a0.open(ctx).await?;
                    let mut old_reader = st.close_write();
                    let got = read_to_end_half(ctx, &mut old_reader).await?;
                    if got != tag(0x10, 4) {
                        fail(sh, format!("server stream 1 read {got:?}, expected the 4 bytes written on client stream 1"));
                    }
                    let again = read_to_end_half(ctx, &mut old_reader).await?;
                    if !again.is_empty() {
                        fail(sh, format!("the reader of server stream 1, asked again after its end-of-stream, received {again:?}: frames of the next sub-stream"));
                    }
                    drop(old_reader);
                    let mut st = a0.open(ctx).await?;
                    let got = read_to_end_stream(ctx, &mut st).await?;
                    if got != tag(0x40, 6) {
                        fail(sh, format!("server stream 2 read {got:?}, expected exactly the 6 bytes written on client stream 2"));
                    }
                    drop(st);
                    sh.lock().unwrap().done += 1;
                    anyhow::Ok(())
                });
            } else {
                for k in 0..3u8 {
                    let c2 = c2.clone();
                    s.spawn(async move {
                        let mut st = c2.open(ctx).await?;
                        {
                            let mut g = sh.lock().unwrap();
                            g.open_now[2] += 1;
                            g.open_max[2] = g.open_max[2].max(g.open_now[2]);
                        }
                        let mine = tag(0x20 + 0x20 * k, 12);
                        st.write_all(ctx, &mine).await?;
                        st.flush(ctx).await?;
                        // read the echo of the first 12 bytes, then close
                        let got = st.read_up_to(ctx, 12).await?;
                        if got != mine {
                            fail(sh, format!("client {k} received {got:?} as echo of {mine:?}"));
                        }
                        let mut rh = st.close_write();
                        let rest = read_to_end_half(ctx, &mut rh).await?;
                        if !rest.is_empty() {
                            fail(sh, format!("client {k} received extra bytes {rest:?} after its echo"));
                        }
                        sh.lock().unwrap().open_now[2] -= 1;
                        drop(rh);
                        { let mut g = sh.lock().unwrap(); g.done += 1; g.log.push(format!("client{k}")); }
                        anyhow::Ok(())
                    });
                }
                for _ in 0..3 {
                    let a2 = a2.clone();
                    s.spawn(async move {
                        let mut st = a2.open(ctx).await?;
                        let got = st.read_up_to(ctx, 12).await?;
                        st.write_all(ctx, &got).await?;
                        st.flush(ctx).await?;
                        let rest = read_to_end_stream(ctx, &mut st).await?;
                        if !rest.is_empty() {
                            fail(sh, format!("server received extra bytes {rest:?}"));
                        }
                        if got.len() != 12 || got.iter().enumerate().any(|(i, b)| *b != got[0].wrapping_add((i as u8) & 0x0f)) {
                            fail(sh, format!("server stream read {got:?}: bytes of different sub-streams are mixed"));
                        }
                        { let mut g = sh.lock().unwrap(); g.done += 1; g.log.push(format!("server:{:02x}", got.first().copied().unwrap_or(0))); }
                        anyhow::Ok(())
                    });
                }
            }
            anyhow::Ok(())
        }).await };
        matches!(
            sched::drive(&idle, fut, |k| {
                if scenario == 4 && k <= 6 {
                    // nothing can move: time passes (deadlines of the cancelled operations)
                    clock.advance(zksync_concurrency::time::Duration::seconds(11));
                    return true;
                }
                false
            })
            .await,
            sched::Driven::Stuck
        )
    });
    let g = sh.lock().unwrap();
    let mut violation = g.violation.clone();
    let want_done = match scenario { 2 => 6, 4 => 3, _ => 2 };
    if violation.is_none() && (stuck || g.done != want_done) {
        violation = Some(format!("deadlock: no task is runnable but only {} of {want_done} client/server tasks completed (stuck={stuck})", g.done));
    }
    if violation.is_none() && g.open_max[2] > 2 {
        violation = Some(format!("{} sub-streams of capability 2 were open simultaneously, the announced limits are 2 (connect) and 3 (accept)", g.open_max[2]));
    }
    ExecResult { obs: fx_hash(&(g.done, g.open_max, &g.log)), violation, nontrivial: true, witnesses: vec![("two_streams_open_at_once", (g.open_max[2] >= 2) as u64), ("flush_cancelled_under_congestion", g.open_max[3] as u64)] }
}

fn mux_handshake(accept: &[(u64, u32)], connect: &[(u64, u32)]) -> Vec<u8> {
    use crate::wire::{self, Field, Val};
    let cap = |num: u32, (id, n): (u64, u32)| Field { num, val: Val::Msg(vec![Field { num: 1, val: Val::Varint(id) }, Field { num: 2, val: Val::Varint(n as u64) }]) };
    let mut f: Vec<Field> = accept.iter().map(|c| cap(5, *c)).collect();
    f.extend(connect.iter().map(|c| cap(6, *c)));
    let body = wire::write(&f);
    let mut v = (body.len() as u32).to_le_bytes().to_vec();
    v.extend(body);
    v
}

/// A raw peer that opens one stream and floods DATA frames; the application never reads (or reads
/// `consume` bytes). Returns bytes pulled from the transport beyond the handshake.
fn flood_run(ch: &Ch, frame: usize, nframes: usize, consume: usize, unopened: bool) -> ExecResult {
    let res: Arc<Mutex<(u64, usize, bool, Option<String>)>> = Default::default();
    let res2 = res.clone();
    let hs = mux_handshake(&[], &[(0, 1)]);
    let hs_len = hs.len() as u64;
    sched::run(ch, |idle| async move {
        let clock = ctx::ManualClock::new();
        let root = ctx::test_root(&clock);
        let (pa, pb) = pipe::pair();
        let pulled = pa.rx.clone();
        let a0 = nv::VQueue::new(&root, 1, limiter::Rate::INF);
        let m = nv::VMux::new(cfg(), vec![(0, a0.clone())], vec![]);
        let mut script = hs.clone();
        if !unopened {
            script.extend_from_slice(&0x2000u16.to_le_bytes());
        }
        for i in 0..nframes {
            script.extend_from_slice(&0x6000u16.to_le_bytes());
            script.extend_from_slice(&(frame as u16).to_le_bytes());
            script.extend(std::iter::repeat(if unopened { 0xEE } else { i as u8 }).take(frame));
        }
        if unopened {
            // DATA sent before any OPEN belongs to no sub-stream; now OPEN and send 8 genuine bytes
            script.extend_from_slice(&0x2000u16.to_le_bytes());
            script.extend_from_slice(&0x6000u16.to_le_bytes());
            script.extend_from_slice(&8u16.to_le_bytes());
            script.extend([0x11u8; 8]);
        }
        pipe::inject(&pb.tx, &script);
        let (res, a0, root, idle2) = (&res2, &a0, &root, &idle);
        let fut = async move { scope::run!(root, |ctx, s| async move {
            s.spawn_bg(async move {
                let _ = m.run(ctx, pa).await;
                Ok(())
            });
            s.spawn_bg(async move {
                // the application accepts the stream, reads `consume` bytes and then just holds it
                let mut st = a0.open(ctx).await?;
                let got = if consume > 0 { st.read_up_to(ctx, consume).await.unwrap_or_default() } else { vec![] };
                if unopened && got != [0x11u8; 8] {
                    res.lock().unwrap().3 = Some(format!("DATA frames sent before the OPEN frame reached the sub-stream opened afterwards: the application read {got:?}, expected [0x11; 8]"));
                }
                res.lock().unwrap().1 = got.len();
                ctx.canceled().await;
                drop(st);
                anyhow::Ok(())
            });
            // a main task that waits for the system to go idle twice, then ends the scope
            s.spawn(async move {
                idle2.settle().await;
                let p = pulled.lock().unwrap().read;
                let mut g = res.lock().unwrap();
                g.0 = p;
                g.2 = true;
                anyhow::Ok(())
            });
            anyhow::Ok(())
        }).await };
        let _keep = pb;
        let _ = sched::drive(&idle, fut, |_| true).await;
    });
    let (pulled, consumed, observed, early) = res.lock().unwrap().clone();
    let c = cfg();
    // The script is known, so the number of bytes pulled from the transport tells exactly which DATA
    // payload bytes (and how many chunks: frames above read_frame_size are read in chunks of that size)
    // the multiplexer has taken. What it holds = taken - consumed by the application; that is what the
    // configured limits bound (a chunk counts until the application has consumed all of it).
    let beyond = pulled.saturating_sub(hs_len) as usize;
    let chunk_sz = (c.read_frame_size as usize).max(1);
    let mut off = if unopened { 0 } else { 2 };
    let (mut payload_pulled, mut chunks_pulled) = (0usize, 0usize);
    let mut chunk_sizes: Vec<usize> = vec![];
    for _ in 0..nframes {
        let start = off + 4;
        let got = beyond.saturating_sub(start).min(frame);
        payload_pulled += got;
        chunks_pulled += got.div_ceil(chunk_sz);
        let mut rest = frame;
        while rest > 0 {
            chunk_sizes.push(rest.min(chunk_sz));
            rest -= rest.min(chunk_sz);
        }
        off = start + frame;
    }
    let mut chunks_consumed = 0usize;
    let mut left = consumed;
    for cs in &chunk_sizes {
        if left >= *cs {
            left -= cs;
            chunks_consumed += 1;
        } else {
            break;
        }
    }
    let held_bytes = payload_pulled.saturating_sub(consumed);
    let held_chunks = chunks_pulled.saturating_sub(chunks_consumed);
    let mut violation = None;
    if !observed {
        violation = Some("machinery: flood harness did not reach its observation point".to_string());
    } else if let Some(e) = early {
        violation = Some(e);
    } else if !unopened && (held_bytes > c.read_buffer_size as usize || held_chunks > c.read_frame_count as usize) {
        violation = Some(format!(
            "from a peer flooding {nframes} DATA frames of {frame} bytes the multiplexer took {payload_pulled} payload bytes in {chunks_pulled} chunks off the transport while the application consumed {consumed} bytes ({chunks_consumed} whole chunks): it holds {held_bytes} unconsumed bytes in {held_chunks} chunks, its limits are read_buffer_size {} and read_frame_count {} (read_frame_size {})",
            c.read_buffer_size, c.read_frame_count, c.read_frame_size
        ));
    }
    let beyond = beyond as u64;
    ExecResult { obs: fx_hash(&(pulled, consumed)), violation, nontrivial: true, witnesses: vec![("mux_blocked_by_flow_control", (beyond > 0 && beyond < (nframes * (frame + 4)) as u64) as u64)] }
}

/// A raw peer that floods OPEN / CLOSE frames (sub-streams opened and closed without data) at a
/// reusable stream that the application does not serve: control frames count against read_frame_count.
pub fn control_flood_run(ch: &Ch, nframes: usize, accept_first: bool) -> ExecResult {
    let res: Arc<Mutex<(u64, bool)>> = Default::default();
    let res2 = res.clone();
    let hs = mux_handshake(&[], &[(0, 1)]);
    let hs_len = hs.len() as u64;
    sched::run(ch, |idle| async move {
        let clock = ctx::ManualClock::new();
        let root = ctx::test_root(&clock);
        let (pa, pb) = pipe::pair();
        let pulled = pa.rx.clone();
        let a0 = nv::VQueue::new(&root, 1, limiter::Rate::INF);
        let m = nv::VMux::new(cfg(), vec![(0, a0.clone())], vec![]);
        let mut script = hs.clone();
        for i in 0..nframes {
            // OPEN | CONNECT | stream 0, CLOSE | CONNECT | stream 0
            script.extend_from_slice(&(if i % 2 == 0 { 0x2000u16 } else { 0xA000u16 }).to_le_bytes());
        }
        pipe::inject(&pb.tx, &script);
        let (res, a0, root, idle2) = (&res2, &a0, &root, &idle);
        let fut = async move { scope::run!(root, |ctx, s| async move {
            s.spawn_bg(async move {
                let _ = m.run(ctx, pa).await;
                Ok(())
            });
            if accept_first {
                s.spawn_bg(async move {
                    // the application accepts one sub-stream and then just holds it
                    let st = a0.open(ctx).await?;
                    ctx.canceled().await;
                    drop(st);
                    anyhow::Ok(())
                });
            }
            s.spawn(async move {
                idle2.settle().await;
                let p = pulled.lock().unwrap().read;
                *res.lock().unwrap() = (p, true);
                anyhow::Ok(())
            });
            anyhow::Ok(())
        }).await };
        let _keep = (pb, a0.clone());
        let _ = sched::drive(&idle, fut, |_| true).await;
    });
    let (pulled, observed) = *res.lock().unwrap();
    let c = cfg();
    let beyond = pulled.saturating_sub(hs_len);
    // 2 bytes per control frame; the frames the mux may hold (read_frame_count) + the ones in flight
    // between its tasks (one being dispatched, one consumed by the stream task, the sub-stream held by
    // the application: OPEN and CLOSE) + the header it is blocked on
    let bound = 2 * (c.read_frame_count as u64 + 6);
    let mut violation = None;
    if !observed {
        violation = Some("machinery: control-flood harness did not reach its observation point".to_string());
    } else if beyond > bound {
        violation = Some(format!("the multiplexer pulled {} control frames (OPEN / CLOSE) from a peer flooding {nframes} of them at a stream nobody serves; read_frame_count {} allows at most {} unconsumed frames", beyond / 2, c.read_frame_count, bound / 2));
    }
    ExecResult { obs: fx_hash(&pulled), violation, nontrivial: true, witnesses: vec![("mux_blocked_by_flow_control", (beyond > 0 && beyond < 2 * nframes as u64) as u64)] }
}

/// Frame-size boundaries of the configuration: for every combination of write / read frame size around the
/// 16-bit length field of the frame header, both endpoints either refuse the configuration (`RunError::Config`)
/// or carry a full-frame burst (exactly `write_frame_size` bytes written without an intermediate flush) on one
/// capability and 4 bytes on another to exactly the matching sub-streams.
fn frame_bounds_run(ch: &Ch, wfs: u64, rfs: u64) -> ExecResult {
    let out: Arc<Mutex<(Option<String>, u32, u32)>> = Default::default();
    let out2 = out.clone();
    let stuck = sched::run(ch, |idle| async move {
        let clock = ctx::ManualClock::new();
        let root = ctx::test_root(&clock);
        let out = out2;
        let (pa, pb) = pipe::pair();
        let mk = || nv::VMuxConfig { read_frame_size: rfs, read_buffer_size: 4 * rfs.max(wfs), read_frame_count: 8, write_frame_size: wfs };
        let c0 = nv::VQueue::new(&root, 1, limiter::Rate::INF);
        let a0 = nv::VQueue::new(&root, 1, limiter::Rate::INF);
        let c1 = nv::VQueue::new(&root, 1, limiter::Rate::INF);
        let a1 = nv::VQueue::new(&root, 1, limiter::Rate::INF);
        let m1 = nv::VMux::new(mk(), vec![], vec![(0, c0.clone()), (1, c1.clone())]);
        let m2 = nv::VMux::new(mk(), vec![(0, a0.clone()), (1, a1.clone())], vec![]);
        let bulk: Vec<u8> = (0..wfs as usize).map(|i| (i % 251) as u8).collect();
        let (out, c0, a0, c1, a1, root, bulk) = (&out, &c0, &a0, &c1, &a1, &root, &bulk);
        let refused = zksync_concurrency::sync::watch::channel(false).0;
        let refused = &refused;
        let fut = async move {
            scope::run!(root, |ctx, s| async move {
                s.spawn_bg(async move {
                    if let Err(e) = m1.run(ctx, pa).await {
                        if e.starts_with("Config") {
                            out.lock().unwrap().1 += 1;
                            refused.send_replace(true);
                        }
                    }
                    Ok(())
                });
                s.spawn_bg(async move {
                    if let Err(e) = m2.run(ctx, pb).await {
                        if e.starts_with("Config") {
                            out.lock().unwrap().1 += 1;
                            refused.send_replace(true);
                        }
                    }
                    Ok(())
                });
                // a refused configuration ends the run: cancel the transfer tasks
                s.spawn_bg(async move {
                    let mut rx = refused.subscribe();
                    if zksync_concurrency::sync::wait_for(ctx, &mut rx, |x| *x).await.is_ok() {
                        s.cancel();
                    }
                    Ok(())
                });
                s.spawn(async move {
                    let mut ctrl = c1.open(ctx).await?;
                    ctrl.write_all(ctx, b"ctrl").await?;
                    ctrl.flush(ctx).await?;
                    let mut st = c0.open(ctx).await?;
                    st.write_all(ctx, bulk).await?;
                    st.flush(ctx).await?;
                    drop(st.close_write());
                    drop(ctrl.close_write());
                    anyhow::Ok(())
                });
                s.spawn(async move {
                    let mut st = a1.open(ctx).await?;
                    let mut got = vec![];
                    loop {
                        let b = st.read_up_to(ctx, 4096).await?;
                        let n = b.len();
                        got.extend(b);
                        if n < 4096 {
                            break;
                        }
                    }
                    if got != b"ctrl" {
                        let mut g = out.lock().unwrap();
                        g.0.get_or_insert(format!("the control sub-stream (capability 1) received {} bytes although its peer wrote the 4 bytes \"ctrl\" (first bytes {:?})", got.len(), &got[..got.len().min(8)]));
                    }
                    out.lock().unwrap().2 += 1;
                    anyhow::Ok(())
                });
                let mut st = a0.open(ctx).await?;
                let mut got = vec![];
                loop {
                    let b = st.read_up_to(ctx, 4096).await?;
                    let n = b.len();
                    got.extend(b);
                    if n < 4096 {
                        break;
                    }
                }
                if &got != bulk {
                    let mut g = out.lock().unwrap();
                    let first_diff = got.iter().zip(bulk.iter()).position(|(a, b)| a != b).unwrap_or(got.len().min(bulk.len()));
                    g.0.get_or_insert(format!("the bulk sub-stream (capability 0) received {} bytes, its peer wrote {} (first difference at offset {first_diff})", got.len(), bulk.len()));
                }
                out.lock().unwrap().2 += 1;
                anyhow::Ok(())
            })
            .await
        };
        match sched::drive(&idle, fut, |_| false).await {
            sched::Driven::Stuck => (true, None),
            sched::Driven::Done(r) => (false, r.err().map(|e| format!("{e:#}"))),
        }
    });
    let (stuck, err) = stuck;
    let (viol, refusals, readers_done) = out.lock().unwrap().clone();
    let mut violation = viol;
    if violation.is_none() && stuck {
        violation = Some(format!("deadlock: with write_frame_size {wfs} / read_frame_size {rfs} accepted by both endpoints the burst never arrived"));
    }
    if violation.is_none() && refusals == 0 {
        if let Some(e) = err {
            violation = Some(format!("transfer failed although both endpoints accepted the configuration: {e}"));
        }
    }
    if violation.is_none() && refusals == 0 && readers_done != 2 {
        violation = Some(format!("transfer incomplete ({readers_done} of 2 readers finished) with write_frame_size {wfs} / read_frame_size {rfs}"));
    }
    let violation = violation.map(|v| format!("frame-size boundary: mux configuration write_frame_size {wfs}, read_frame_size {rfs} (accepted by Config::verify): {v}"));
    ExecResult { obs: fx_hash(&(refusals, readers_done)), violation, nontrivial: true, witnesses: vec![("config_refused", (refusals > 0) as u64), ("full_frame_burst_delivered", (readers_done == 2) as u64)] }
}

const FRAME_BOUNDS: [(u64, u64); 8] = [(65534, 8), (65535, 8), (65536, 8), (131072, 8), (65535, 65535), (8, 65535), (8, 65536), (65536, 65536)];

pub fn run(args: &Args) -> Report {
    let mut rep = Report::new("C14", "model_checking");
    let devs_of = |rp: &serde_json::Value| -> core::Deviations { rp["deviations"].as_array().map(|a| a.iter().map(|p| (p[0].as_u64().unwrap() as u32, p[1].as_u64().unwrap() as u32)).collect()).unwrap_or_default() };
    let flood_cfgs: Vec<(usize, usize, usize, bool)> = vec![(8, 40, 0, false), (8, 40, 5, false), (20, 30, 0, false), (3, 60, 0, false), (8, 10, 8, true), (8, 40, 17, false)];
    if let Some(r) = &args.replay {
        let rp = &r["replay"];
        let c = &rp["config"];
        let (res, div) = if c["kind"] == "pair" {
            let sc = c["scenario"].as_u64().unwrap_or(1) as u32;
            core::replay_one(&|ch: &Ch| pair_run(ch, sc), devs_of(rp))
        } else {
            if c["kind"] == "frame-bounds" {
                let (w, r) = (c["write_frame_size"].as_u64().unwrap_or(65535), c["read_frame_size"].as_u64().unwrap_or(8));
                let (res, div) = core::replay_one(&|ch: &Ch| frame_bounds_run(ch, w, r), devs_of(rp));
                if let Some(d) = div {
                    rep.machinery_errors.push(d);
                }
                if let Some(v) = res.violation {
                    rep.violations.push(Violation { key: "replay".into(), what: v, replay: rp.clone() });
                }
                return rep;
            }
            if c["kind"] == "control-flood" {
                let (n, a) = (c["nframes"].as_u64().unwrap_or(60) as usize, c["accept_first"].as_bool().unwrap_or(false));
                let (res, div) = core::replay_one(&|ch: &Ch| control_flood_run(ch, n, a), devs_of(rp));
                if let Some(d) = div {
                    rep.machinery_errors.push(d);
                }
                if let Some(v) = res.violation {
                    rep.violations.push(Violation { key: "replay".into(), what: v, replay: rp.clone() });
                }
                return rep;
            }
            let i = c["flood"].as_u64().unwrap_or(0) as usize;
            let f = flood_cfgs[i];
            core::replay_one(&|ch: &Ch| flood_run(ch, f.0, f.1, f.2, f.3), devs_of(rp))
        };
        if let Some(d) = div {
            rep.machinery_errors.push(d);
        }
        if let Some(v) = res.violation {
            rep.violations.push(Violation { key: "replay".into(), what: v, replay: rp.clone() });
        }
        return rep;
    }
    let bound = args.tier.pick(2, 3);
    let budget = Duration::from_secs(args.tier.pick(50, 1500));
    let t0 = std::time::Instant::now();
    let mut stats = vec![];
    let (mut execs, mut points, mut distinct) = (0u64, 0u64, 0u64);
    let mut capped = false;
    let mut wit2 = 0;
    let mut witf = 0;
    let mut wit4 = 0;
    // frame-size boundaries (default schedule; the bursts are up to 128 KiB)
    let (mut wit_refused, mut wit_burst) = (0u64, 0u64);
    for (w, r) in FRAME_BOUNDS {
        let cfgx = ExploreCfg::new(&format!("mux-frame-bounds[write {w} read {r}]"), 0, Duration::from_secs(20));
        let st = explore(&cfgx, |ch| frame_bounds_run(ch, w, r));
        execs += st.execs;
        points += st.choice_points;
        distinct += st.distinct_obs;
        wit_refused += *st.witnesses.get("config_refused").unwrap_or(&0);
        wit_burst += *st.witnesses.get("full_frame_burst_delivered").unwrap_or(&0);
        rep.absorb("c14", &st, json!({"kind": "frame-bounds", "write_frame_size": w, "read_frame_size": r}));
        stats.push(st.to_json());
    }
    if rep.violations.is_empty() && (wit_refused == 0 || wit_burst == 0) {
        rep.machinery_errors.push(format!("vacuous frame-bounds part: configurations refused {wit_refused}, full-frame bursts delivered {wit_burst}"));
    }
    for sc in [4u32, 3, 1, 2] {
        let cfgx = ExploreCfg::new(&format!("mux-pair[scenario {sc}]"), bound, budget.saturating_sub(t0.elapsed()) / match sc { 4 => 5, 3 => 4, _ => 2 });
        let st = explore(&cfgx, |ch| pair_run(ch, sc));
        execs += st.execs;
        points += st.choice_points;
        distinct += st.distinct_obs;
        capped |= st.capped;
        wit2 += *st.witnesses.get("two_streams_open_at_once").unwrap_or(&0);
        wit4 += *st.witnesses.get("flush_cancelled_under_congestion").unwrap_or(&0);
        rep.absorb("c14", &st, json!({"kind": "pair", "scenario": sc}));
        stats.push(st.to_json());
    }
    for (nframes, accept_first) in [(60usize, false), (60, true)] {
        let cfgx = ExploreCfg::new(&format!("mux-control-flood[{nframes} OPEN/CLOSE frames, application accepts one: {accept_first}]"), args.tier.pick(1, 2), budget.saturating_sub(t0.elapsed()).min(Duration::from_secs(args.tier.pick(6, 120))));
        let st = explore(&cfgx, |ch| control_flood_run(ch, nframes, accept_first));
        execs += st.execs;
        points += st.choice_points;
        distinct += st.distinct_obs;
        capped |= st.capped;
        rep.absorb("c14", &st, json!({"kind": "control-flood", "nframes": nframes, "accept_first": accept_first}));
        stats.push(st.to_json());
    }
    for (i, f) in flood_cfgs.iter().enumerate() {
        let cfgx = ExploreCfg::new(&format!("mux-flood[frame {} x{} consume {} unopened {}]", f.0, f.1, f.2, f.3), args.tier.pick(1, 2), budget.saturating_sub(t0.elapsed()));
        let st = explore(&cfgx, |ch| flood_run(ch, f.0, f.1, f.2, f.3));
        execs += st.execs;
        points += st.choice_points;
        distinct += st.distinct_obs;
        capped |= st.capped;
        witf += *st.witnesses.get("mux_blocked_by_flow_control").unwrap_or(&0);
        rep.absorb("c14", &st, json!({"kind": "flood", "flood": i}));
        stats.push(st.to_json());
    }
    if rep.violations.is_empty() && (wit2 == 0 || witf == 0 || wit4 == 0) {
        rep.machinery_errors.push(format!("vacuous: two_streams_open_at_once={wit2} mux_blocked_by_flow_control={witf} flush_cancelled_under_congestion={wit4}"));
    }
    rep.coverage = json!({
        "states": execs,
        "transitions": points,
        "traces_validated_against_impl": execs,
        "evaluations": execs,
        "distinct_nontrivial": distinct.max(2),
        "samples": [
            {"harness": "pair scenario 4", "case": "link bounded to 24 bytes in flight; the client buffers 5 bytes on sub-stream A, writes 200 bytes on sub-stream B that the peer does not read (write cancelled by its deadline), flushes A under a deadline (cancelled while the link is congested), then the peer drains B, the client flushes A again, writes 6 more bytes and closes: the peer must read the 5 + 6 bytes; meanwhile a second open() on A's capability (limit 1) waits, is cancelled by its deadline, and after A is closed another open() must succeed and carry its own 3 bytes"},
            {"harness": "pair scenario 1", "case": "client writes 20 bytes on stream 1 of the single reusable stream, server reads 10 and drops it; stream 2 must deliver exactly its own 5 bytes"},
            {"harness": "flood", "case": "raw peer: handshake, OPEN, 40 DATA frames of 8 bytes; application holds the stream without reading"},
        ],
        "rule": "a state is one complete execution (schedule) of a driver around the real Mux; transitions are scheduler choice points (the mux runs ~15 internal tasks); all schedules within the deviation bound",
        "deviation_bound": bound,
        "exhaustive": !capped,
        "capped_by_time_budget": capped,
        "witness_two_streams_open_at_once": wit2,
        "witness_flush_cancelled_under_congestion": wit4,
        "witness_mux_blocked_by_flow_control": witf,
        "frame_size_boundary_configurations": FRAME_BOUNDS.len(), "frame_size_boundary_configurations_refused": wit_refused, "frame_size_boundary_full_frame_bursts_delivered": wit_burst,
        "explorations": stats,
    });
    rep.assumptions = vec!["more than 3 concurrent streams and head-of-line blocking (a documented non-goal) are outside the scope".into(), "task switches only at awaits that return Pending".into()];
    rep
}
