//! C05 — view changes are justified, monotone and follow the specification.
//! L1 search (one real replica, adversarial environment); on every transition the reference
//! replica (refmodel.rs: spec/informal-spec + refinements R1-R11) is stepped on the abstraction of
//! the same (state, input) and must agree on outcome, resulting state and emitted messages.
use std::time::{Duration, Instant};

use zksync_consensus_roles::validator::{self, v2};

use super::l1::{self, Edge, InputKind};
use crate::{
    bftmsgs,
    bftsim::World,
    core::{Report, Violation},
    refmodel::{self, Outcome, Ref},
    Args,
};

pub fn conformance(w: &World, r: usize, e: &Edge) -> Vec<(String, String)> {
    let mut v = vec![];
    if let (InputKind::Restart, Some(p)) = (e.input, &e.out.panicked) {
        v.push(("replica_restart_fails".into(), format!("the restarted node does not come back up: {p}")));
        return v;
    }
    let InputKind::Step(input, policy) = e.input else { return v };
    if let Some(p) = &e.out.panicked {
        v.push(("replica_panic".into(), format!("on input '{}' the replica panicked - the node is built with panic = abort, so the process dies; the specification never aborts: {}", e.input_desc, p.lines().take(2).collect::<Vec<_>>().join(" "))));
        return v;
    }
    if policy.crash.is_some() {
        return v;
    }
    if let Some(Err(err)) = &e.out.outcome {
        if err.starts_with("Internal") && !err.contains("Canceled") {
            // StateMachine::run returns on an internal error: the bft component of the node stops
            v.push(("replica_internal_error".into(), format!("on input '{}' the handler failed with an internal error, on which the replica's run loop terminates: {err}", e.input_desc)));
            return v;
        }
    }
    let rf = Ref { w, me: r, sync: policy.sync.iter().map(|b| (b.number().0, bftmsgs::ph(&b.payload.hash()))).collect(), first_block: w.c.genesis.first_block.0 };
    let s0 = refmodel::abstract_state(w, &e.from.local);
    let valid = refmodel::input_valid(w, input);
    let (want_outcome, want_state, mut want_msgs) = rf.step(&s0, input, valid);
    let got_outcome = if e.out.blocked {
        Outcome::Blocked
    } else {
        match &e.out.outcome {
            Some(Ok(())) => Outcome::Accepted,
            Some(Err(_)) => Outcome::Refused,
            None => Outcome::Blocked,
        }
    };
    if got_outcome != want_outcome {
        v.push(("conformance_outcome".into(), format!("on input '{}' the replica's reaction is {:?} ({:?}) but the specification prescribes {:?}", e.input_desc, got_outcome, e.out.outcome, want_outcome)));
        return v;
    }
    if want_outcome == Outcome::Blocked {
        return v;
    }
    let got_state = refmodel::abstract_state(w, &e.out.local);
    if got_state != want_state {
        v.push(("conformance_state".into(), format!("on input '{}' the resulting state differs from the specification:\n    got  {:?}\n    want {:?}", e.input_desc, got_state, want_state)));
    }
    let me = w.c.keys[r].public();
    let mut got_msgs: Vec<_> = e.out.sent.iter().filter(|m| m.key == me).map(refmodel::amsg).collect();
    got_msgs.sort();
    want_msgs.sort();
    if got_msgs != want_msgs {
        v.push(("conformance_messages".into(), format!("on input '{}' the emitted messages differ from the specification:\n    got  {:?}\n    want {:?}", e.input_desc, got_msgs, want_msgs)));
    }
    v
}

pub fn invariants(w: &World, r: usize, e: &Edge) -> Vec<(String, String)> {
    let mut v = vec![];
    let (a, b) = (&e.from.local, &e.out.local);
    let crashy = e.out.crashed || e.out.blocked || matches!(e.input, InputKind::Restart);
    let qv = |q: &Option<v2::CommitQC>| q.as_ref().map(|q| q.view().number.0);
    let tv = |q: &Option<v2::TimeoutQC>| q.as_ref().map(|q| q.view.number.0);
    if !crashy {
        if b.snap.view_number < a.snap.view_number {
            v.push(("view_decreases".into(), format!("view went from {} to {} on '{}'", a.snap.view_number.0, b.snap.view_number.0, e.input_desc)));
        }
        if qv(&b.snap.high_commit_qc) < qv(&a.snap.high_commit_qc) {
            v.push(("high_commit_qc_decreases".into(), format!("highest commit certificate went from view {:?} to {:?} on '{}'", qv(&a.snap.high_commit_qc), qv(&b.snap.high_commit_qc), e.input_desc)));
        }
        if tv(&b.snap.high_timeout_qc) < tv(&a.snap.high_timeout_qc) {
            v.push(("high_timeout_qc_decreases".into(), format!("highest timeout certificate went from view {:?} to {:?} on '{}'", tv(&a.snap.high_timeout_qc), tv(&b.snap.high_timeout_qc), e.input_desc)));
        }
        // the view increases only on a certificate for new_view - 1 that verifies
        if b.snap.view_number > a.snap.view_number {
            let nv = b.snap.view_number.0;
            let (g, ep, sch) = (w.c.genesis.hash(), w.c.epoch, &w.c.schedule);
            let ok_c = b.snap.high_commit_qc.as_ref().map(|q| q.view().number.0 + 1 == nv && q.verify(g, ep, sch).is_ok()).unwrap_or(false);
            let ok_t = b.snap.high_timeout_qc.as_ref().map(|q| q.view.number.0 + 1 == nv && q.verify(g, ep, sch).is_ok()).unwrap_or(false);
            if !ok_c && !ok_t {
                v.push(("unjustified_view_change".into(), format!("moved to view {nv} on '{}' without holding a valid certificate for view {}", e.input_desc, nv - 1)));
            }
        }
    }
    // durable state never goes backwards, whatever happens
    let validator::ReplicaState::V2(da) = &a.durable;
    let validator::ReplicaState::V2(db) = &b.durable;
    if db.view_number < da.view_number {
        v.push(("durable_view_decreases".into(), format!("durable view went from {} to {} on '{}'", da.view_number.0, db.view_number.0, e.input_desc)));
    }
    if b.blocks.len() < a.blocks.len() || a.blocks.iter().zip(b.blocks.iter()).any(|(x, y)| x != y) {
        v.push(("store_rewritten".into(), format!("stored blocks were removed or replaced on '{}'", e.input_desc)));
    }
    // every emitted message is self-justifying
    let (g, ep, sch) = (w.c.genesis.hash(), w.c.epoch, &w.c.schedule);
    let me = w.c.keys[r].public();
    for m in e.out.sent.iter().filter(|m| m.key == me) {
        let validator::ConsensusMsg::V2(x) = &m.msg;
        let ok = m.verify().is_ok()
            && match x {
                v2::ChonkyMsg::LeaderProposal(p) => p.verify(g, ep, sch).is_ok(),
                v2::ChonkyMsg::ReplicaCommit(c) => c.verify(g, ep).is_ok(),
                v2::ChonkyMsg::ReplicaTimeout(t) => t.verify(g, ep, sch).is_ok(),
                v2::ChonkyMsg::ReplicaNewView(n) => n.verify(g, ep, sch).is_ok(),
            };
        if !ok {
            v.push(("emitted_message_does_not_verify".into(), format!("emitted {} on '{}' does not verify in isolation", bftmsgs::describe(w, m), e.input_desc)));
        }
    }
    v
}

pub fn run(args: &Args) -> Report {
    let mut rep = Report::new("C05", "model_checking");
    let (w, r) = l1::world_fb(args.seed, args.replay.as_ref().and_then(|rp| rp["replay"]["first_block"].as_u64()).unwrap_or(0));
    // the minimal-alphabet (deep) pass runs on a chain whose genesis starts at block 3
    let (w3, _) = l1::world_fb(args.seed, 3);
    let total = args.tier.pick(50, 1500);
    let cfg = l1::L1Cfg {
        max_view: args.tier.pick(2, 3),
        crashes: false,
        flood: false,
        full: true,
        narrow: false,
        max_states: args.tier.pick(200_000, 5_000_000),
        deadline: Instant::now() + Duration::from_secs(total),
        seed: args.seed,
    };
    if let Some(rp) = &args.replay {
        let path: Vec<String> = rp["replay"]["path"].as_array().map(|a| a.iter().filter_map(|x| x.as_str().map(|s| s.to_string())).collect()).unwrap_or_default();
        match l1::replay_path_with(&w, r, &cfg, &path, &|e| {
            let mut v = conformance(&w, r, e);
            v.extend(invariants(&w, r, e));
            v
        }) {
            Ok(Some(v)) => rep.violations.push(Violation { key: "replay".into(), what: v, replay: rp["replay"].clone() }),
            Ok(None) => {}
            Err(e) => rep.machinery_errors.push(e),
        }
        return rep;
    }
    let narrow = l1::L1Cfg { narrow: true, full: false, deadline: Instant::now() + Duration::from_secs(total / 2), max_view: cfg.max_view, crashes: false, flood: false, max_states: cfg.max_states, seed: cfg.seed };
    let oracle = |e: &Edge| {
        let mut v = conformance(&w, r, e);
        v.extend(invariants(&w, r, e));
        v
    };
    // vote-by-vote pass: certificates (also of future views) form inside the replica
    let votes_cfg = l1::L1Cfg { narrow: false, full: false, deadline: Instant::now() + Duration::from_secs(total / 5), max_view: cfg.max_view, crashes: false, flood: false, max_states: cfg.max_states, seed: cfg.seed };
    let res_v = l1::explore_alphabet(&w, r, &votes_cfg, l1::votes_alphabet(&w, r, &votes_cfg), &oracle);
    let narrow = l1::L1Cfg { deadline: Instant::now() + Duration::from_secs(total * 3 / 10), ..narrow };
    let oracle3 = |e: &Edge| {
        let mut v = conformance(&w3, r, e);
        v.extend(invariants(&w3, r, e));
        v
    };
    let res_n = if res_v.violations.is_empty() { l1::explore(&w3, r, &narrow, &oracle3) } else { l1::L1Result::default() };
    let cfg = l1::L1Cfg { deadline: Instant::now() + Duration::from_secs(total / 2), ..cfg };
    let res = if res_n.violations.is_empty() && res_v.violations.is_empty() { l1::explore(&w, r, &cfg, &oracle) } else { l1::L1Result::default() };
    for (k, wh, rp) in res_v.violations.iter().chain(res_n.violations.iter()).chain(res.violations.iter()) {
        if k != "equivocation" {
            rep.violations.push(Violation { key: k.clone(), what: wh.clone(), replay: rp.clone() });
        }
    }
    if res_n.accepted_steps == 0 || res_n.rejected_steps == 0 {
        rep.machinery_errors.push("vacuous: no accepted / no rejected steps".into());
    }
    let narrow_cov = l1::coverage_json(&res_n, &narrow, "minimal alphabet pass");
    let res = if res.states == 0 { res_n } else { res };
    rep.coverage = l1::coverage_json(&res, &cfg, "every reachable local state of one real replica of K4=[2,2,1,1] (weight-1 validator, the other three keys held by the environment) x every input of the finite adversarial alphabet (valid, stale, future-view, wrong leader, non-member, bad signature, other epoch, under-weight certificate, invalid / oversized / missing / superfluous payload, timer, block sync, restart); on every transition: lock-step agreement with the reference replica (outcome, abstract state, emitted messages), monotonicity of view / certificates / durable state / store, justification of view changes, self-justification of emitted messages");
    rep.coverage["minimal_alphabet_pass"] = narrow_cov;
    rep.coverage["genesis_first_block"] = serde_json::json!({"wide_pass": 0, "minimal_alphabet_pass": 3, "vote_by_vote_pass": 0});
    rep.coverage["vote_by_vote_pass"] = l1::coverage_json(&res_v, &votes_cfg, "vote-by-vote alphabet (commit votes for (0,X) and plain timeout votes of every other validator for views up to max+1, view timer): certificates, also of future views, form inside the replica");
    rep.assumptions = vec![
        "certificate / signature validity is decided by the roles library (the subject of C04)".into(),
        "refinements R1-R11 of the implementation over the informal specification are part of the reference (DESIGN.md §4 C05)".into(),
        "views above the alphabet's bound and block numbers above first+1 are outside the scope".into(),
    ];
    rep
}
