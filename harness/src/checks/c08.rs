//! C08 — the block store is a verified, gap-free, append-only chain.
//! E2: submitter / reader tasks around the real EngineManager + EngineManagerRunner over a harness
//! EngineInterface whose persistence is an environment actor (completes queued writes one at a
//! time, lags, jumps ahead through a side channel, prunes), every schedule and environment choice
//! within a deviation bound.
use std::{
    sync::{Arc, Mutex},
    time::Duration,
};

use serde_json::json;
use zksync_concurrency::{ctx, scope, sync, time};
use zksync_consensus_engine::{BlockStoreState, EngineInterface, EngineManager, Last, Transaction};
use zksync_consensus_roles::validator::{self, v2, BlockNumber, Payload};

use super::util;
use crate::{
    bftsim::World,
    core::{self, env_choose, explore, fx_hash, Ch, ExecResult, ExploreCfg, Report, Violation},
    sched, Args,
};

pub(super) struct Chain {
    seed: u64,
    pub(super) w: World,
    /// the canonical chain
    pub(super) blocks: Vec<v2::FinalBlock>,
    /// a conflicting, validly certified block for number 1
    conflicting1: v2::FinalBlock,
    /// block 2 with a certificate that does not verify
    pub(super) invalid2: v2::FinalBlock,
    /// the genuine certificate of block 3 attached to another payload (payload does not hash to the certified header)
    pub(super) swapped3: v2::FinalBlock,
}

pub(super) fn chain(seed: u64, len: usize) -> Chain {
    let c = util::committee(seed, &[1, 1, 1]);
    let w = World { c, proposals: vec![Payload(vec![1])], invalid_payload: Payload(vec![0xBA]) };
    let full = 0b111u32;
    let blocks: Vec<v2::FinalBlock> = (0..len as u64)
        .map(|n| {
            let p = Payload(vec![0x10 + n as u8, 7]);
            w.final_block(&p, &w.commit_qc(&w.commit_vote(n + 1, n, &p), full))
        })
        .collect();
    let pc = Payload(vec![0xCC]);
    let conflicting1 = w.final_block(&pc, &w.commit_qc(&w.commit_vote(9, 1, &pc), full));
    let pi = Payload(vec![0x12, 7]);
    let invalid2 = w.final_block(&pi, &w.commit_qc(&w.commit_vote(3, 2, &pi), 0b001));
    let mut swapped3 = blocks.get(3).cloned().unwrap_or_else(|| blocks[blocks.len() - 1].clone());
    swapped3.payload = Payload(vec![0x5A, 0x5A, 3]);
    Chain { seed, w, blocks, conflicting1, invalid2, swapped3 }
}

#[derive(Clone, Debug, PartialEq)]
enum Ev {
    /// queue_next_block called with this block while the durable head was `durable_next`
    Submit { n: u64, id: u64, durable_next: u64, prev_submitted: Option<u64> },
    Persisted { n: u64 },
    SideChannel { upto: u64 },
    Prune { first: u64 },
    Read { n: u64, id: Option<u64> },
    QueueOk { n: u64, id: u64 },
    QueueErr { n: u64, id: u64 },
    Observed { queued_first: u64, queued_next: u64, persisted_first: u64, persisted_next: u64 },
    /// the process restarts: a new manager is built over the durable image
    Restart { durable_first: u64, durable_next: u64 },
}

struct StoreInner {
    genesis: validator::Genesis,
    persisted: sync::watch::Sender<BlockStoreState>,
    first: Mutex<u64>,
    blocks: Mutex<Vec<validator::Block>>, // index = number - 0 (pruned ones stay for lookup)
    log: Mutex<Vec<Ev>>,
    prev_submitted: Mutex<Option<u64>>,
    /// writes waiting for the persistence actor
    release: sync::Semaphore,
    /// get_block calls that reached storage (cache misses)
    storage_reads: Mutex<u64>,
    /// rotating validator schedule: (committee of epoch 0 from block 0, committee of epoch 1, its first block)
    dynamic: Option<(validator::Schedule, validator::Schedule, u64)>,
    /// ids of blocks that a hostile peer offers at once, whether or not the committee of the epoch they claim is known
    hostile: Mutex<Vec<u64>>,
    /// replica states written through set_state (epoch hand-over part)
    state_writes: Mutex<Vec<validator::ReplicaState>>,
}

#[derive(Clone)]
struct Store(Arc<StoreInner>);

impl std::fmt::Debug for Store {
    fn fmt(&self, f: &mut std::fmt::Formatter<'_>) -> std::fmt::Result {
        f.write_str("Store")
    }
}

fn block_id(b: &validator::Block) -> u64 {
    fx_hash(&zksync_protobuf::encode(&b.payload().hash())) ^ b.number().0
}

impl Store {
    fn next(&self) -> u64 {
        self.0.blocks.lock().unwrap().len() as u64
    }
    fn publish(&self) {
        let b = self.0.blocks.lock().unwrap();
        let first = *self.0.first.lock().unwrap();
        let last = b.last().map(|x| match x {
            validator::Block::FinalV2(f) => Last::FinalV2(f.justification.clone()),
            validator::Block::PreGenesis(p) => Last::PreGenesis(p.number),
        });
        self.0.persisted.send_replace(BlockStoreState { first: BlockNumber(first), last });
    }
}

#[async_trait::async_trait]
impl EngineInterface for Store {
    async fn genesis(&self, _ctx: &ctx::Ctx) -> ctx::Result<validator::Genesis> {
        Ok(self.0.genesis.clone())
    }
    async fn get_validator_schedule(&self, _ctx: &ctx::Ctx, n: BlockNumber) -> ctx::Result<(validator::Schedule, BlockNumber)> {
        match &self.0.dynamic {
            None => Err(anyhow::format_err!("static").into()),
            // the schedule that is active at block n, with its activation block
            Some((a, b, b_from)) => Ok(if n.0 < *b_from { (a.clone(), BlockNumber(0)) } else { (b.clone(), BlockNumber(*b_from)) }),
        }
    }
    async fn get_pending_validator_schedule(&self, _ctx: &ctx::Ctx, n: BlockNumber) -> ctx::Result<Option<(validator::Schedule, BlockNumber)>> {
        match &self.0.dynamic {
            // the next epoch's committee is known while the chain is still in epoch 0
            Some((_, b, b_from)) if n.0 < *b_from => Ok(Some((b.clone(), BlockNumber(*b_from)))),
            _ => Ok(None),
        }
    }
    fn persisted(&self) -> sync::watch::Receiver<BlockStoreState> {
        self.0.persisted.subscribe()
    }
    async fn get_block(&self, _ctx: &ctx::Ctx, n: BlockNumber) -> ctx::Result<validator::Block> {
        let first = *self.0.first.lock().unwrap();
        *self.0.storage_reads.lock().unwrap() += 1;
        if n.0 < first {
            return Err(anyhow::format_err!("pruned").into());
        }
        Ok(self.0.blocks.lock().unwrap().get(n.0 as usize).cloned().ok_or_else(|| anyhow::format_err!("not found"))?)
    }
    async fn queue_next_block(&self, ctx: &ctx::Ctx, block: validator::Block) -> ctx::Result<()> {
        let n = block.number().0;
        {
            let mut prev = self.0.prev_submitted.lock().unwrap();
            self.0.log.lock().unwrap().push(Ev::Submit { n, id: block_id(&block), durable_next: self.next(), prev_submitted: *prev });
            *prev = Some(n);
        }
        // the write completes when the persistence actor gets to it
        let permit = sync::acquire(ctx, &self.0.release).await?;
        permit.forget();
        let mut b = self.0.blocks.lock().unwrap();
        if n == b.len() as u64 {
            b.push(block);
            drop(b);
            self.0.log.lock().unwrap().push(Ev::Persisted { n });
            self.publish();
        }
        // a block at or below the durable head (overtaken by the side channel) is ignored
        Ok(())
    }
    async fn verify_pregenesis_block(&self, _ctx: &ctx::Ctx, _b: &validator::PreGenesisBlock) -> ctx::Result<()> {
        Ok(())
    }
    async fn verify_payload(&self, _ctx: &ctx::Ctx, _n: BlockNumber, _p: &Payload) -> ctx::Result<()> {
        Ok(())
    }
    async fn propose_payload(&self, _ctx: &ctx::Ctx, _n: BlockNumber) -> ctx::Result<Payload> {
        Ok(Payload(vec![]))
    }
    async fn get_state(&self, _ctx: &ctx::Ctx) -> ctx::Result<validator::ReplicaState> {
        Ok(self.0.state_writes.lock().unwrap().last().cloned().unwrap_or_default())
    }
    async fn set_state(&self, _ctx: &ctx::Ctx, s: &validator::ReplicaState) -> ctx::Result<()> {
        self.0.state_writes.lock().unwrap().push(s.clone());
        Ok(())
    }
    async fn push_tx(&self, _ctx: &ctx::Ctx, _tx: Transaction) -> ctx::Result<bool> {
        Ok(false)
    }
}

struct SendCh(Ch);
unsafe impl Send for SendCh {}
unsafe impl Sync for SendCh {}

fn run_once(ch: &Ch, chn: &Chain, scenario: u32) -> ExecResult {
    let store = Store(Arc::new(StoreInner {
        genesis: chn.w.c.genesis.clone(),
        persisted: sync::watch::channel(BlockStoreState { first: BlockNumber(0), last: None }).0,
        first: Mutex::new(0),
        blocks: Mutex::new(vec![]),
        log: Mutex::new(vec![]),
        prev_submitted: Mutex::new(None),
        release: sync::Semaphore::new(0),
        storage_reads: Mutex::new(0),
        dynamic: None,
        hostile: Mutex::new(vec![]),
        state_writes: Mutex::new(vec![]),
    }));
    let st2 = store.clone();
    let sch = Arc::new(SendCh(ch.clone()));
    let stuck = sched::run(ch, |idle| async move {
        let clock = ctx::ManualClock::new();
        let root = ctx::test_root(&clock);
        let (mgr, runner) = EngineManager::new(&root, Box::new(st2.clone()), time::Duration::seconds(1)).await.expect("manager");
        let (mgr, root, st, sch, idle_ref) = (&mgr, &root, &st2, &sch, &idle);
        let log = |e: Ev| st.0.log.lock().unwrap().push(e);
        let log = &log;
        let fut = async move {
            scope::run!(root, |ctx, s| async move {
                s.spawn_bg(async move {
                    if let Err(e) = runner.run(ctx).await {
                        st.0.log.lock().unwrap().push(Ev::QueueErr { n: 999, id: fx_hash(&format!("{e:#}")) });
                        return Err(anyhow::format_err!("RUNNER-ERROR: {e:#}"));
                    }
                    Ok(())
                });
                // submitters
                let plans: Vec<Vec<validator::Block>> = match scenario {
                    1 => vec![
                        // a block for genesis.first_block that carries an external justification instead of
                        // a commit certificate (the execution layer of this harness accepts any such block):
                        // offered first, it must be refused - blocks from first_block on need a certificate
                        vec![validator::Block::PreGenesis(validator::PreGenesisBlock { number: BlockNumber(0), payload: Payload(vec![0xF0, 0x0D]), justification: validator::Justification(vec![1]) })],
                        vec![chn.blocks[0].clone().into(), chn.blocks[1].clone().into(), chn.blocks[2].clone().into()],
                        vec![chn.blocks[1].clone().into(), chn.conflicting1.clone().into(), chn.blocks[3].clone().into()],
                        vec![chn.invalid2.clone().into(), chn.blocks[0].clone().into()],
                        // the genuine certificate of block 3 with a foreign payload, offered before the real block 3
                        vec![chn.swapped3.clone().into()],
                    ],
                    // blocks 2 and 3 never come through queue_block: only the side channel brings them
                    _ => vec![vec![chn.blocks[0].clone().into(), chn.blocks[1].clone().into()], vec![chn.blocks[4].clone().into()], vec![chn.blocks[1].clone().into()]],
                };
                for plan in plans {
                    s.spawn(async move {
                        for b in plan {
                            let (n, id) = (b.number().0, block_id(&b));
                            match mgr.queue_block(ctx, b).await {
                                Ok(()) => log(Ev::QueueOk { n, id }),
                                Err(ctx::Error::Canceled(_)) => return Ok(()),
                                Err(_) => log(Ev::QueueErr { n, id }),
                            }
                        }
                        anyhow::Ok(())
                    });
                }
                // reader
                s.spawn_bg(async move {
                    loop {
                        let q = mgr.queued();
                        let p = mgr.persisted();
                        log(Ev::Observed { queued_first: q.first.0, queued_next: q.next().0, persisted_first: p.first.0, persisted_next: p.next().0 });
                        for n in q.first.0..q.next().0 {
                            if let Ok(b) = mgr.get_block(ctx, BlockNumber(n)).await {
                                log(Ev::Read { n, id: b.as_ref().map(block_id) });
                            }
                        }
                        if mgr.wait_for_queued_change(ctx, &q).await.is_err() {
                            return Ok(());
                        }
                    }
                });
                // persistence actor: acts at quiescent points
                s.spawn(async move {
                    let mut jumped = false;
                    let side_channel = |jumped: &mut bool| {
                        *jumped = true;
                        // side channel: blocks up to 3 appear in storage directly
                        let mut b = st.0.blocks.lock().unwrap();
                        while b.len() < 4 {
                            let k = b.len();
                            b.push(chn.blocks[k].clone().into());
                        }
                        drop(b);
                        st.0.log.lock().unwrap().push(Ev::SideChannel { upto: 3 });
                        st.publish();
                    };
                    for _ in 0..8 {
                        idle_ref.settle().await;
                        let nopts = if scenario == 1 { 2 } else { 3 };
                        match env_choose(&sch.0, nopts) {
                            0 => st.0.release.add_permits(1), // complete one queued write
                            1 => {
                                // lag: do nothing this round, then release
                                idle_ref.settle().await;
                                st.0.release.add_permits(1);
                            }
                            _ => {
                                if !jumped {
                                    side_channel(&mut jumped);
                                } else {
                                    st.0.release.add_permits(1);
                                }
                            }
                        }
                    }
                    if scenario != 1 && !jumped {
                        side_channel(&mut jumped);
                        idle_ref.settle().await;
                    }
                    // drain everything that is still queued
                    st.0.release.add_permits(100);
                    idle_ref.settle().await;
                    anyhow::Ok(())
                });
                anyhow::Ok(())
            })
            .await
        };
        match sched::drive(&idle, fut, |k| k < 400).await {
            sched::Driven::Done(r) => r.err().map(|e| format!("{e:#}")),
            sched::Driven::Stuck => Some("STUCK".into()),
        }
    });
    let lg = store.0.log.lock().unwrap().clone();
    let mut violation: Option<String> = None;
    if let Some(s) = &stuck {
        violation = Some(if s.contains("RUNNER-ERROR") { format!("the engine runner stopped with an error: {s}; events {lg:?}") } else { format!("deadlock / error: {s}; events {lg:?}") });
    }
    // ids of legitimate blocks
    let canon: Vec<u64> = chn.blocks.iter().map(|b| block_id(&b.clone().into())).collect();
    let conf1 = block_id(&chn.conflicting1.clone().into());
    let inv2 = block_id(&chn.invalid2.clone().into());
    let mut accepted: std::collections::BTreeMap<u64, u64> = Default::default(); // number -> id first seen in the store
    let mut last_queued_next = 0u64;
    for e in &lg {
        match e {
            Ev::Submit { n, id, durable_next, prev_submitted } => {
                let follows_prev = prev_submitted.map(|p| p + 1 == *n).unwrap_or(false);
                let follows_head = *durable_next == *n;
                if !follows_prev && !follows_head {
                    violation.get_or_insert(format!("block {n} was handed to durable storage although the previous submission was {prev_submitted:?} and the durable head expects {durable_next} (gap or reordering); events {lg:?}"));
                }
                if *id == inv2 && *n == 2 && canon[2] != inv2 {
                    violation.get_or_insert(format!("a block whose certificate does not verify was handed to durable storage; events {lg:?}"));
                }
                let known = canon.get(*n as usize) == Some(id) || (*n == 1 && *id == conf1);
                if !known {
                    violation.get_or_insert(format!("an unknown / unverified block (number {n}) was handed to durable storage; events {lg:?}"));
                }
                if let Some(prev) = accepted.get(n) {
                    if prev != id {
                        violation.get_or_insert(format!("a different block was substituted for number {n}, which had already been accepted; events {lg:?}"));
                    }
                }
                accepted.entry(*n).or_insert(*id);
            }
            Ev::Read { n, id } => {
                match id {
                    Some(id) => {
                        if let Some(prev) = accepted.get(n) {
                            if prev != id && canon.get(*n as usize) != Some(id) {
                                violation.get_or_insert(format!("get_block({n}) returned a block different from the one accepted for that number; events {lg:?}"));
                            }
                        }
                        let legit = canon.get(*n as usize) == Some(id) || (*n == 1 && *id == conf1);
                        if !legit {
                            violation.get_or_insert(format!("get_block({n}) returned a block that is not block {n} of any accepted chain (wrong number or unverified); events {lg:?}"));
                        }
                    }
                    None => {}
                }
            }
            Ev::Observed { queued_first, queued_next, persisted_first, persisted_next } => {
                if queued_next < persisted_next || queued_first > persisted_first && false {
                    violation.get_or_insert(format!("queued range [{queued_first},{queued_next}) does not cover the persisted range [{persisted_first},{persisted_next}); events {lg:?}"));
                }
                if *queued_next < last_queued_next {
                    violation.get_or_insert(format!("queued.next went backwards from {last_queued_next} to {queued_next}; events {lg:?}"));
                }
                last_queued_next = *queued_next;
            }
            _ => {}
        }
    }
    // progress: everything submitted in order must end up stored
    let stored = store.next();
    let want = if scenario == 1 { 4 } else { 5 };
    if violation.is_none() && stored < want {
        violation = Some(format!("only {stored} of {want} blocks reached durable storage although every predecessor was supplied and persistence kept completing writes; events {lg:?}"));
    }
    let side = lg.iter().any(|e| matches!(e, Ev::SideChannel { .. })) as u64;
    ExecResult { obs: fx_hash(&format!("{lg:?}")), violation, nontrivial: true, witnesses: vec![("side_channel_jump", side), ("submissions", lg.iter().filter(|e| matches!(e, Ev::Submit { .. })).count() as u64)] }
}

fn new_store(genesis: &validator::Genesis) -> Store {
    Store(Arc::new(StoreInner {
        genesis: genesis.clone(),
        persisted: sync::watch::channel(BlockStoreState { first: BlockNumber(0), last: None }).0,
        first: Mutex::new(0),
        blocks: Mutex::new(vec![]),
        log: Mutex::new(vec![]),
        prev_submitted: Mutex::new(None),
        release: sync::Semaphore::new(0),
        storage_reads: Mutex::new(0),
        dynamic: None,
        hostile: Mutex::new(vec![]),
        state_writes: Mutex::new(vec![]),
    }))
}

fn new_store_dynamic(genesis: &validator::Genesis, a: &validator::Schedule, b: &validator::Schedule, b_from: u64) -> Store {
    Store(Arc::new(StoreInner {
        genesis: genesis.clone(),
        persisted: sync::watch::channel(BlockStoreState { first: BlockNumber(0), last: None }).0,
        first: Mutex::new(0),
        blocks: Mutex::new(vec![]),
        log: Mutex::new(vec![]),
        prev_submitted: Mutex::new(None),
        release: sync::Semaphore::new(0),
        storage_reads: Mutex::new(0),
        dynamic: Some((a.clone(), b.clone(), b_from)),
        hostile: Mutex::new(vec![]),
        state_writes: Mutex::new(vec![]),
    }))
}

/// One incarnation of the node: a manager + runner over `st`, submitters with the given plans, a
/// reader, and a persistence actor `actor` (returns when this incarnation ends). Background tasks
/// are cancelled when the actor returns - which is what a crash does to them.
async fn incarnation<'a, F, Fut>(root: &'a ctx::Ctx, st: &'a Store, plans: Vec<Vec<validator::Block>>, read_all: bool, actor: F) -> anyhow::Result<()>
where
    F: FnOnce(Arc<EngineManager>) -> Fut + Send + 'a,
    Fut: std::future::Future<Output = anyhow::Result<()>> + Send + 'a,
{
    let (mgr, runner) = EngineManager::new(root, Box::new(st.clone()), time::Duration::seconds(1)).await.map_err(|e| anyhow::format_err!("EngineManager::new: {e:?}"))?;
    let mgr2 = mgr.clone();
    let mgr = &mgr;
    scope::run!(root, |ctx, s| async move {
        s.spawn_bg(async move {
            if let Err(e) = runner.run(ctx).await {
                return Err(anyhow::format_err!("RUNNER-ERROR: {e:#}"));
            }
            Ok(())
        });
        for plan in plans {
            s.spawn_bg(async move {
                for b in plan {
                    let (n, id) = (b.number().0, block_id(&b));
                    if st.0.dynamic.is_some() && !st.0.hostile.lock().unwrap().contains(&id) {
                        // rotating schedule: an honest peer offers a block once the committee of the epoch it claims is
                        // known (a forged block is offered at once: `hostile`)
                        if let validator::Block::FinalV2(f) = &b {
                            if mgr.wait_for_validator_schedule(ctx, f.epoch()).await.is_err() {
                                return Ok(());
                            }
                        }
                    }
                    match mgr.queue_block(ctx, b).await {
                        Ok(()) => st.0.log.lock().unwrap().push(Ev::QueueOk { n, id }),
                        Err(ctx::Error::Canceled(_)) => return Ok(()),
                        Err(_) => st.0.log.lock().unwrap().push(Ev::QueueErr { n, id }),
                    }
                }
                anyhow::Ok(())
            });
        }
        s.spawn_bg(async move {
            loop {
                let q = mgr.queued();
                let p = mgr.persisted();
                st.0.log.lock().unwrap().push(Ev::Observed { queued_first: q.first.0, queued_next: q.next().0, persisted_first: p.first.0, persisted_next: p.next().0 });
                let ns: Vec<u64> = if read_all || q.next().0 - q.first.0 <= 3 { (q.first.0..q.next().0).collect() } else { vec![q.first.0, (q.first.0 + q.next().0) / 2, q.next().0 - 1] };
                for n in ns {
                    if let Ok(b) = mgr.get_block(ctx, BlockNumber(n)).await {
                        st.0.log.lock().unwrap().push(Ev::Read { n, id: b.as_ref().map(block_id) });
                    }
                }
                if mgr.wait_for_queued_change(ctx, &q).await.is_err() {
                    return Ok(());
                }
            }
        });
        actor(mgr2).await
    })
    .await
}

/// Oracle shared by the scenarios 3 and 4: `canon[n]` is the id of the only legitimate block n.
fn check_log(lg: &[Ev], canon: &[u64]) -> Option<String> {
    let mut violation: Option<String> = None;
    let mut last_queued_next = 0u64;
    let mut prev_sub: Option<u64> = None;
    for e in lg {
        match e {
            Ev::Restart { .. } => {
                prev_sub = None;
                last_queued_next = 0;
            }
            Ev::Submit { n, id, durable_next, .. } => {
                let follows_prev = prev_sub.map(|p| p + 1 == *n).unwrap_or(false);
                if !follows_prev && *durable_next != *n {
                    violation.get_or_insert(format!("block {n} was handed to durable storage although the previous submission of this incarnation was {prev_sub:?} and the durable head expects {durable_next} (gap or reordering)"));
                }
                if canon.get(*n as usize) != Some(id) {
                    violation.get_or_insert(format!("a block that is not block {n} of the chain was handed to durable storage"));
                }
                prev_sub = Some(*n);
            }
            Ev::Read { n, id: Some(id) } => {
                if canon.get(*n as usize) != Some(id) {
                    violation.get_or_insert(format!("get_block({n}) returned a block that is not block {n} of the chain"));
                }
            }
            Ev::Observed { queued_first, queued_next, persisted_first, persisted_next } => {
                if queued_next < persisted_next {
                    violation.get_or_insert(format!("queued range [{queued_first},{queued_next}) does not cover the persisted range [{persisted_first},{persisted_next})"));
                }
                if *queued_next < last_queued_next {
                    violation.get_or_insert(format!("queued.next went backwards from {last_queued_next} to {queued_next}"));
                }
                last_queued_next = *queued_next;
            }
            _ => {}
        }
    }
    violation
}

fn short_log(lg: &[Ev]) -> String {
    let v: Vec<String> = lg.iter().filter(|e| !matches!(e, Ev::Read { .. } | Ev::QueueOk { .. })).map(|e| format!("{e:?}")).collect();
    if v.len() > 80 {
        format!("{} ... {}", v[..40].join(", "), v[v.len() - 40..].join(", "))
    } else {
        v.join(", ")
    }
}

/// Scenario 3: pruning of the start of the range and one restart (crash: in-flight writes are lost,
/// a new manager is built over the durable image, a syncing peer re-submits the whole chain).
fn run_prune_restart(ch: &Ch, chn: &Chain) -> ExecResult {
    let store = new_store(&chn.w.c.genesis);
    let st2 = store.clone();
    let sch = Arc::new(SendCh(ch.clone()));
    let stuck = sched::run(ch, |idle| async move {
        let clock = ctx::ManualClock::new();
        let root = ctx::test_root(&clock);
        let (root, st, sch, idle_ref) = (&root, &st2, &sch, &idle);
        let blk = |i: usize| -> validator::Block { chn.blocks[i].clone().into() };
        let fut = async move {
            // first incarnation
            let plans = vec![vec![blk(0), blk(1), blk(2)], vec![blk(1), blk(2), blk(3)]];
            incarnation(root, st, plans, true, |_mgr| async move {
                for _ in 0..5 {
                    idle_ref.settle().await;
                    match env_choose(&sch.0, 3) {
                        0 => st.0.release.add_permits(1),
                        1 => {
                            // prune the oldest stored block
                            let next = st.next();
                            let mut f = st.0.first.lock().unwrap();
                            if *f + 1 < next {
                                *f += 1;
                                let nf = *f;
                                drop(f);
                                st.0.log.lock().unwrap().push(Ev::Prune { first: nf });
                                st.publish();
                            } else {
                                drop(f);
                                st.0.release.add_permits(1);
                            }
                        }
                        _ => break, // crash now
                    }
                }
                idle_ref.settle().await;
                Ok(())
            })
            .await?;
            // the crash: permits that nobody consumed are gone, in-flight writes never happened
            while st.0.release.try_acquire().map(|p| p.forget()).is_ok() {}
            *st.0.prev_submitted.lock().unwrap() = None;
            st.0.log.lock().unwrap().push(Ev::Restart { durable_first: *st.0.first.lock().unwrap(), durable_next: st.next() });
            // second incarnation: a syncing peer offers the whole chain again
            let plans = vec![(0..5).map(blk).collect::<Vec<_>>()];
            incarnation(root, st, plans, true, |mgr| async move {
                let at_start = (mgr.queued(), mgr.persisted());
                if at_start.0 != at_start.1 || at_start.1.next().0 != st.next() {
                    return Err(anyhow::format_err!("RESTART-STATE: after the restart queued = {:?}, persisted = {:?}, durable next = {}", at_start.0, at_start.1, st.next()));
                }
                for _ in 0..3 {
                    idle_ref.settle().await;
                    match env_choose(&sch.0, 2) {
                        0 => st.0.release.add_permits(1),
                        _ => {
                            idle_ref.settle().await;
                            st.0.release.add_permits(1)
                        }
                    }
                }
                st.0.release.add_permits(100);
                idle_ref.settle().await;
                Ok(())
            })
            .await
        };
        match sched::drive(&idle, fut, |k| k < 400).await {
            sched::Driven::Done(r) => r.err().map(|e| format!("{e:#}")),
            sched::Driven::Stuck => Some("STUCK".into()),
        }
    });
    let lg = store.0.log.lock().unwrap().clone();
    let canon: Vec<u64> = chn.blocks.iter().map(|b| block_id(&b.clone().into())).collect();
    let mut violation = stuck.map(|s| format!("deadlock / error: {s}"));
    if violation.is_none() {
        violation = check_log(&lg, &canon);
    }
    if violation.is_none() && store.next() < 5 {
        violation = Some(format!("only {} of 5 blocks reached durable storage after the restart although the whole chain was offered and persistence kept completing writes", store.next()));
    }
    let violation = violation.map(|v| format!("{v}; events: {}", short_log(&lg)));
    let prunes = lg.iter().filter(|e| matches!(e, Ev::Prune { .. })).count() as u64;
    let lost = lg.iter().any(|e| matches!(e, Ev::Restart { durable_next, .. } if *durable_next < 4)) as u64;
    ExecResult { obs: fx_hash(&format!("{lg:?}")), violation, nontrivial: true, witnesses: vec![("prunes", prunes), ("restart_with_unpersisted_blocks", lost)] }
}

/// Scenario 5: a rotating validator schedule (none in the genesis): blocks 0-2 belong to epoch 0 and
/// are certified by committee A, blocks 3-4 to epoch 1 and committee B (other keys). The node stores
/// some blocks, restarts at an explorer-chosen point (in particular exactly at the last block of epoch
/// 0), and is then offered blocks of the wrong committee for their epoch next to the genuine ones.
struct EpochChain {
    genesis: validator::Genesis,
    a: validator::Schedule,
    b: validator::Schedule,
    blocks: Vec<validator::Block>,
    /// block 3 claiming epoch 0, certified by committee B (the committee of epoch 1)
    forged3_epoch0_by_b: validator::Block,
    /// block 3 claiming epoch 1, certified by committee A (the committee of epoch 0)
    forged3_epoch1_by_a: validator::Block,
}

fn epoch_chain(seed: u64) -> EpochChain {
    let ca = util::committee(seed, &[1, 1, 1]);
    let cb = util::committee(seed ^ 0xB0B, &[1, 1, 1]);
    let genesis = validator::GenesisRaw { chain_id: validator::ChainId(1337), fork_number: validator::ForkNumber(0), protocol_version: validator::ProtocolVersion::CURRENT, first_block: BlockNumber(0), validators_schedule: None }.with_hash();
    let world = |c: &util::Committee, epoch: u64| World { c: util::Committee { keys: c.keys.clone(), weights: c.weights.clone(), schedule: c.schedule.clone(), genesis: genesis.clone(), epoch: validator::EpochNumber(epoch) }, proposals: vec![], invalid_payload: Payload(vec![]) };
    let (wa0, wb1, wb0, wa1) = (world(&ca, 0), world(&cb, 1), world(&cb, 0), world(&ca, 1));
    let mk = |w: &World, n: u64, p: Payload| -> validator::Block { w.final_block(&p, &w.commit_qc(&w.commit_vote(n + 1, n, &p), 0b111)).into() };
    let blocks: Vec<validator::Block> = (0..5u64).map(|n| mk(if n < 3 { &wa0 } else { &wb1 }, n, Payload(vec![0x20 + n as u8, 9]))).collect();
    EpochChain { genesis: genesis.clone(), a: ca.schedule.clone(), b: cb.schedule.clone(), blocks, forged3_epoch0_by_b: mk(&wb0, 3, Payload(vec![0xF0, 3])), forged3_epoch1_by_a: mk(&wa1, 3, Payload(vec![0xF1, 3])) }
}

fn run_epochs(ch: &Ch, ec: &EpochChain) -> ExecResult {
    let store = new_store_dynamic(&ec.genesis, &ec.a, &ec.b, 3);
    *store.0.hostile.lock().unwrap() = vec![block_id(&ec.forged3_epoch0_by_b), block_id(&ec.forged3_epoch1_by_a)];
    let st2 = store.clone();
    let sch = Arc::new(SendCh(ch.clone()));
    let restart_at: Arc<Mutex<u64>> = Default::default();
    let ra2 = restart_at.clone();
    let stuck = sched::run(ch, |idle| async move {
        let clock = ctx::ManualClock::new();
        let root = ctx::test_root(&clock);
        let (root, st, sch, idle_ref, clock) = (&root, &st2, &sch, &idle, &clock);
        let blk = |i: usize| -> validator::Block { ec.blocks[i].clone() };
        let fut = async move {
            // first incarnation: blocks 0..2 (epoch 0) are offered; the node dies after 1, 2 or 3 of them
            // are durable (3 = exactly the last block of epoch 0)
            let plans = vec![vec![blk(0), blk(1), blk(2)]];
            let stop_after = 3 - env_choose(&sch.0, 3) as u64;
            *ra2.lock().unwrap() = stop_after;
            incarnation(root, st, plans, true, |_mgr| async move {
                for _ in 0..stop_after {
                    idle_ref.settle().await;
                    st.0.release.add_permits(1);
                }
                idle_ref.settle().await;
                Ok(())
            })
            .await?;
            while st.0.release.try_acquire().map(|p| p.forget()).is_ok() {}
            *st.0.prev_submitted.lock().unwrap() = None;
            st.0.log.lock().unwrap().push(Ev::Restart { durable_first: *st.0.first.lock().unwrap(), durable_next: st.next() });
            // second incarnation: two peers; one offers the forged blocks 3 before the genuine chain, the
            // other the genuine chain. A block whose epoch's committee is not known yet is refused (the
            // peer retries later, as the fetch loop does), so both offer everything three times.
            let offer = |forged: bool| -> Vec<validator::Block> {
                let mut v = vec![];
                for round in 0..3 {
                    for i in 0..5 {
                        // the hostile peer offers its forged blocks again before every block of the first round:
                        // in particular while the committee of epoch 0 is known and that of epoch 1 is not yet
                        if forged && (round == 0 || i == 0) {
                            v.push(ec.forged3_epoch0_by_b.clone());
                            v.push(ec.forged3_epoch1_by_a.clone());
                        }
                        v.push(blk(i));
                    }
                }
                v
            };
            let plans = vec![offer(true), offer(false)];
            incarnation(root, st, plans, true, |_mgr| async move {
                for _ in 0..40 {
                    idle_ref.settle().await;
                    st.0.release.add_permits(1);
                    // the runner polls for the next epoch's committee once per fetch interval
                    clock.advance(time::Duration::seconds(1));
                }
                idle_ref.settle().await;
                Ok(())
            })
            .await
        };
        match sched::drive(&idle, fut, |k| k < 400).await {
            sched::Driven::Done(r) => r.err().map(|e| format!("{e:#}")),
            sched::Driven::Stuck => Some("STUCK".into()),
        }
    });
    let lg = store.0.log.lock().unwrap().clone();
    let canon: Vec<u64> = ec.blocks.iter().map(block_id).collect();
    let mut violation = stuck.map(|s| format!("deadlock / error: {s}"));
    if violation.is_none() {
        violation = check_log(&lg, &canon).map(|v| format!("rotating validator schedule (epoch 0: blocks 0-2, committee A; epoch 1: blocks 3-4, committee B), restart with {} durable blocks: {v}", restart_at.lock().unwrap()));
    }
    if violation.is_none() && store.next() < 5 {
        violation = Some(format!("rotating validator schedule, restart with {} durable blocks: only {} of 5 blocks reached durable storage although the genuine chain was offered three times and persistence kept completing writes", restart_at.lock().unwrap(), store.next()));
    }
    let violation = violation.map(|v| format!("{v}; events: {}", short_log(&lg)));
    let at_boundary = (*restart_at.lock().unwrap() == 3) as u64;
    ExecResult { obs: fx_hash(&format!("{lg:?}")), violation, nontrivial: true, witnesses: vec![("restart_at_epoch_boundary", at_boundary), ("epoch1_blocks_stored", (store.next() >= 5) as u64)] }
}

const LONG: usize = 108; // CACHE_CAPACITY (100) + 8

/// Scenario 4: a chain longer than the cache capacity with a lagging persister: eviction may only
/// drop blocks that are already persisted, and evicted blocks are served from storage.
fn run_eviction(ch: &Ch, genesis: &validator::Genesis, long: &[validator::Block]) -> ExecResult {
    let store = new_store(genesis);
    let st2 = store.clone();
    let sch = Arc::new(SendCh(ch.clone()));
    let stuck = sched::run(ch, |idle| async move {
        let clock = ctx::ManualClock::new();
        let root = ctx::test_root(&clock);
        let (root, st, sch, idle_ref) = (&root, &st2, &sch, &idle);
        let fut = async move {
            incarnation(root, st, vec![long.to_vec()], false, |mgr| async move {
                // reads by the actor itself: the reader task only wakes up on queue changes, evictions
                // happen when persistence catches up
                let read = |n: u64| {
                    let mgr = mgr.clone();
                    async move {
                        if let Ok(b) = mgr.get_block(root, BlockNumber(n)).await {
                            st.0.log.lock().unwrap().push(Ev::Read { n, id: b.as_ref().map(block_id) });
                        }
                    }
                };
                for _ in 0..6 {
                    idle_ref.settle().await;
                    let q = mgr.queued();
                    if q.last.is_some() {
                        read(q.first.0).await;
                        read((q.first.0 + q.next().0) / 2).await;
                    }
                    match env_choose(&sch.0, 3) {
                        0 => st.0.release.add_permits(1),
                        1 => st.0.release.add_permits(60),
                        _ => {
                            // prune everything stored but the newest block
                            let next = st.next();
                            if next >= 2 {
                                *st.0.first.lock().unwrap() = next - 1;
                                st.0.log.lock().unwrap().push(Ev::Prune { first: next - 1 });
                                st.publish();
                            }
                            st.0.release.add_permits(1);
                        }
                    }
                }
                st.0.release.add_permits(1000);
                idle_ref.settle().await;
                let q = mgr.queued();
                for n in [q.first.0, q.first.0 + 1, (q.first.0 + q.next().0) / 2, q.next().0 - 1] {
                    read(n).await;
                }
                Ok(())
            })
            .await
        };
        match sched::drive(&idle, fut, |k| k < 2000).await {
            sched::Driven::Done(r) => r.err().map(|e| format!("{e:#}")),
            sched::Driven::Stuck => Some("STUCK".into()),
        }
    });
    let lg = store.0.log.lock().unwrap().clone();
    let canon: Vec<u64> = long.iter().map(block_id).collect();
    let mut violation = stuck.map(|s| format!("deadlock / error: {s}"));
    if violation.is_none() {
        violation = check_log(&lg, &canon);
    }
    if violation.is_none() && (store.next() as usize) < long.len() {
        violation = Some(format!("only {} of {} blocks reached durable storage although they were submitted in order and persistence kept completing writes (a queued block was lost from the cache before it was persisted)", store.next(), long.len()));
    }
    let violation = violation.map(|v| format!("{v}; events: {}", short_log(&lg)));
    let reads = *store.0.storage_reads.lock().unwrap();
    ExecResult { obs: fx_hash(&format!("{lg:?}")), violation, nontrivial: true, witnesses: vec![("reads_served_by_storage", reads), ("prunes", lg.iter().filter(|e| matches!(e, Ev::Prune { .. })).count() as u64)] }
}

fn long_chain(seed: u64) -> (validator::Genesis, Vec<validator::Block>) {
    // genesis.first_block above the chain: all blocks are pre-genesis blocks (no certificates to
    // verify, so an execution over 108 blocks stays cheap)
    let c = util::committee_with(seed, &[1, 1, 1], 0, 1000, Default::default());
    let blocks = (0..LONG as u64).map(|n| validator::Block::PreGenesis(validator::PreGenesisBlock { number: BlockNumber(n), payload: Payload(vec![n as u8, (n >> 8) as u8, 0x77]), justification: validator::Justification(vec![n as u8]) })).collect();
    (c.genesis, blocks)
}


/// Scenario 6: the side channel brings the first k blocks (k = 1, 2 or 4, an environment choice) into an EMPTY
/// store before anything was queued; the manager must follow (queued covers persisted, the blocks can be read
/// back), and the rest of the chain - offered afterwards together with block 0 again - must follow the durable head.
fn run_side_channel_into_empty_store(ch: &Ch, chn: &Chain) -> ExecResult {
    let store = new_store(&chn.w.c.genesis);
    let st2 = store.clone();
    let sch = Arc::new(SendCh(ch.clone()));
    let found: Arc<Mutex<Option<String>>> = Default::default();
    let f2 = found.clone();
    let k_chosen: Arc<Mutex<usize>> = Default::default();
    let k2 = k_chosen.clone();
    let stuck = sched::run(ch, |idle| async move {
        let clock = ctx::ManualClock::new();
        let root = ctx::test_root(&clock);
        let (mgr, runner) = EngineManager::new(&root, Box::new(st2.clone()), time::Duration::seconds(1)).await.expect("manager");
        let (mgr, root, st, sch, idle_ref, found) = (&mgr, &root, &st2, &sch, &idle, &f2);
        let fut = async move {
            scope::run!(root, |ctx, s| async move {
                s.spawn_bg(async move { runner.run(ctx).await.map_err(|e| anyhow::format_err!("RUNNER-ERROR: {e:#}")) });
                idle_ref.settle().await;
                let k = [1usize, 2, 4][env_choose(&sch.0, 3)];
                *k2.lock().unwrap() = k;
                {
                    let mut b = st.0.blocks.lock().unwrap();
                    for i in 0..k {
                        b.push(chn.blocks[i].clone().into());
                    }
                    drop(b);
                    st.0.log.lock().unwrap().push(Ev::SideChannel { upto: k as u64 - 1 });
                    st.publish();
                }
                idle_ref.settle().await;
                let (q, p) = (mgr.queued(), mgr.persisted());
                if q.next() < p.next() || q.first != p.first {
                    *found.lock().unwrap() = Some(format!("after the first {k} block(s) reached an empty store through the side channel the manager reports queued {}..{} while persisted is {}..{} (queued must cover persisted)", q.first.0, q.next().0, p.first.0, p.next().0));
                    return Ok(());
                }
                for n in 0..k as u64 {
                    let got = mgr.get_block(ctx, BlockNumber(n)).await.ok().flatten().map(|b| block_id(&b));
                    if got != Some(block_id(&chn.blocks[n as usize].clone().into())) {
                        *found.lock().unwrap() = Some(format!("block {n} is durable (side channel, {k} block(s) into an empty store) but get_block({n}) does not return it"));
                        return Ok(());
                    }
                }
                // the rest of the chain, and block 0 once more
                s.spawn_bg(async move {
                    for i in std::iter::once(0).chain(k..5) {
                        let _ = mgr.queue_block(ctx, chn.blocks[i].clone().into()).await;
                    }
                    Ok(())
                });
                for _ in 0..8 {
                    idle_ref.settle().await;
                    st.0.release.add_permits(1);
                }
                idle_ref.settle().await;
                anyhow::Ok(())
            })
            .await
        };
        match sched::drive(&idle, fut, |k| k < 400).await {
            sched::Driven::Done(r) => r.err().map(|e| format!("{e:#}")),
            sched::Driven::Stuck => Some("STUCK".into()),
        }
    });
    let lg = store.0.log.lock().unwrap().clone();
    let k = *k_chosen.lock().unwrap();
    let mut violation = found.lock().unwrap().clone();
    if violation.is_none() {
        violation = stuck.map(|s| format!("deadlock / error after {k} block(s) reached an empty store through the side channel: {s}"));
    }
    if violation.is_none() && store.next() < 5 {
        violation = Some(format!("after {k} block(s) reached an empty store through the side channel only {} of 5 blocks became durable although the rest of the chain was offered and persistence kept completing writes", store.next()));
    }
    let canon: Vec<u64> = chn.blocks.iter().map(|b| block_id(&b.clone().into())).collect();
    if violation.is_none() {
        let stored: Vec<u64> = store.0.blocks.lock().unwrap().iter().map(block_id).collect();
        if stored != canon {
            violation = Some(format!("the durable chain is not the canonical one after a side-channel start with {k} block(s)"));
        }
    }
    let violation = violation.map(|v| format!("{v}; events: {}", short_log(&lg)));
    ExecResult { obs: fx_hash(&format!("{lg:?}")), violation, nontrivial: true, witnesses: vec![("side_channel_into_empty_store", 1), ("side_channel_jump", 1)] }
}

fn run_scenario(ch: &Ch, chn: &Chain, lgen: &validator::Genesis, long: &[validator::Block], sc: u32) -> ExecResult {
    match sc {
        5 => run_epochs(ch, &epoch_chain(chn.seed)),
        3 => run_prune_restart(ch, chn),
        4 => run_eviction(ch, lgen, long),
        6 => run_side_channel_into_empty_store(ch, chn),
        _ => run_once(ch, chn, sc),
    }
}

pub fn run(args: &Args) -> Report {
    let mut rep = Report::new("C08", "model_checking");
    let chn = chain(args.seed, 5);
    if let Some(r) = &args.replay {
        let rp = &r["replay"];
        if super::gossipnet::replay_fetch(&mut rep, args.seed, rp, &["foreign_block_stored"]) {
            return rep;
        }
        let sc = rp["config"]["scenario"].as_u64().unwrap_or(1) as u32;
        let devs: core::Deviations = rp["deviations"].as_array().map(|a| a.iter().map(|p| (p[0].as_u64().unwrap() as u32, p[1].as_u64().unwrap() as u32)).collect()).unwrap_or_default();
        let (lg, lb) = long_chain(args.seed);
        let (res, div) = core::replay_one(&|ch: &Ch| run_scenario(ch, &chn, &lg, &lb, sc), devs);
        if let Some(d) = div {
            rep.machinery_errors.push(d);
        }
        if let Some(v) = res.violation {
            rep.violations.push(Violation { key: "replay".into(), what: v, replay: rp.clone() });
        }
        return rep;
    }
    let bound = args.tier.pick(2, 3);
    let budget = Duration::from_secs(args.tier.pick(50, 1500));
    let t0 = std::time::Instant::now();
    let (mut execs, mut points, mut distinct, mut side) = (0u64, 0u64, 0u64, 0u64);
    let mut capped = false;
    let mut stats = vec![];
    let (lg, lb) = long_chain(args.seed);
    let (mut prunes, mut restarts_lossy, mut storage_reads) = (0u64, 0u64, 0u64);
    let mut epoch_boundary_restarts = 0u64;
    for (k, sc) in [6u32, 5, 2, 3, 4, 1].into_iter().enumerate() {
        let b = bound;
        let cfg = ExploreCfg::new(&format!("engine-manager[scenario {sc}]"), b, if sc == 6 { Duration::from_secs(args.tier.pick(4, 60)) } else if sc == 5 { Duration::from_secs(args.tier.pick(6, 120)) } else { budget.saturating_sub(t0.elapsed()) / (6 - k as u32) });
        let st = explore(&cfg, |ch| run_scenario(ch, &chn, &lg, &lb, sc));
        epoch_boundary_restarts += *st.witnesses.get("restart_at_epoch_boundary").unwrap_or(&0);
        prunes += *st.witnesses.get("prunes").unwrap_or(&0);
        restarts_lossy += *st.witnesses.get("restart_with_unpersisted_blocks").unwrap_or(&0);
        storage_reads += *st.witnesses.get("reads_served_by_storage").unwrap_or(&0);
        execs += st.execs;
        points += st.choice_points;
        distinct += st.distinct_obs;
        capped |= st.capped;
        side += *st.witnesses.get("side_channel_jump").unwrap_or(&0);
        rep.absorb("c08", &st, json!({"scenario": sc}));
        stats.push(st.to_json());
    }
    if rep.violations.is_empty() && epoch_boundary_restarts == 0 {
        rep.machinery_errors.push("vacuous: no execution restarted exactly at the last block of an epoch".into());
    }
    if rep.violations.is_empty() && side == 0 {
        rep.machinery_errors.push("vacuous: no execution had a side-channel persistence jump".into());
    }
    if rep.violations.is_empty() && (prunes == 0 || restarts_lossy == 0 || storage_reads == 0) {
        rep.machinery_errors.push(format!("vacuous: prunes {prunes}, restarts that lost queued blocks {restarts_lossy}, reads served by storage {storage_reads}"));
    }
    // blocks received from peers over real gossip connections (gossip/runner.rs): only certified blocks of the chain are stored
    let net_cov = super::gossipnet::report_fetch(&mut rep, args.seed, &["foreign_block_stored"], &|s| ["honest_peer", "wrong_block_number_then_other_peer", "bad_certificate_then_other_peer", "certificate_with_foreign_payload_then_other_peer"].contains(&s.name));
    rep.coverage = json!({
        "blocks_from_peers_part": net_cov,
        "states": execs, "transitions": points, "traces_validated_against_impl": execs,
        "evaluations": execs, "distinct_nontrivial": distinct,
        "witness_restarts_at_epoch_boundary": epoch_boundary_restarts,
        "samples": [
            {"scenario": 5, "case": "rotating validator schedule (no schedule in the genesis; the execution layer reports committee A for blocks 0-2 = epoch 0 and committee B from block 3 = epoch 1): blocks 0-2 are offered, the node dies with 1, 2 or 3 of them durable (3 = exactly the last block of epoch 0), a new manager is built over the durable image, and two peers offer the chain three times over, one of them preceded each time by a block 3 claiming epoch 0 but certified by committee B and a block 3 claiming epoch 1 but certified by committee A; the fetch interval passes on the manual clock"},
            {"scenario": 1, "case": "five submitters: [a pre-genesis-style block (external justification only) numbered genesis.first_block], [b0,b1,b2], [b1, a conflicting certified block 1, b3], [block 2 with an under-weight certificate, b0], [the certificate of b3 attached to a foreign payload]; persistence completes writes one at a time or lags"},
            {"scenario": 6, "case": "the first 1 / 2 / 4 blocks reach an EMPTY store through the side channel before anything was queued; the manager must cover them, serve them, and accept the rest of the chain after the durable head"},
            {"scenario": 2, "case": "submitters [b0,b1], [b4], [b1]; blocks 2-3 only arrive through a side-channel persistence jump that overtakes the queue"},
            {"scenario": 3, "case": "submitters [b0,b1,b2], [b1,b2,b3]; persistence completes a write / prunes the oldest block / the node crashes (in-flight writes lost); a new manager over the durable image; a syncing peer offers b0..b4 again"},
            {"scenario": 4, "case": "108 pre-genesis blocks (cache capacity 100 + 8) submitted in order; persistence completes 1 or 60 writes or prunes all but the newest block at each quiescent point; reads of first / middle / last queued block"},
        ],
        "rule": "a state is one complete execution (schedule + persistence actor choices) of the driver around the real EngineManager and its runner; all executions within the deviation bound; distinct = distinct event logs",
        "deviation_bound": bound, "exhaustive": !capped, "capped_by_time_budget": capped,
        "witness_side_channel_jumps": side, "witness_prunes": prunes, "witness_restarts_losing_queued_blocks": restarts_lossy, "witness_reads_served_by_storage": storage_reads,
        "explorations": stats,
    });
    rep.assumptions = vec!["scenarios 1-3: a 5-block chain on a 3-validator committee; scenario 4: 108 pre-genesis blocks (no certificates)".into(), "a crash loses in-flight writes atomically (queue_next_block is atomic by contract)".into(), "task switches only at awaits that return Pending".into()];
    rep
}


// ---------------------------------------------------------------------------------------------
// Epoch hand-over (reported by C03): a node has ONE durable replica-state slot. The consensus instance
// of epoch e+1 is started as soon as that epoch's committee is known - long before epoch e ends - and must
// stay dormant (sign nothing, write nothing) until the last block of epoch e is persisted; otherwise it
// overwrites the slot in which the replica of epoch e records its votes, and a restart makes that replica
// forget them. Driven on the real `bft::Config::run` over the real `EngineManager` with a rotating
// schedule (same committee in both epochs), controlled scheduler, manual clock.

pub struct Handover {
    pub steps: u64,
    pub woke_up_after_the_boundary: bool,
    pub violation: Option<String>,
}

pub fn epoch_handover(seed: u64) -> Handover {
    use zksync_consensus_bft as bft;
    let ca = util::committee(seed, &[1, 1, 1]);
    let genesis = validator::GenesisRaw { chain_id: validator::ChainId(1337), fork_number: validator::ForkNumber(0), protocol_version: validator::ProtocolVersion::CURRENT, first_block: BlockNumber(0), validators_schedule: None }.with_hash();
    let w0 = World { c: util::Committee { keys: ca.keys.clone(), weights: ca.weights.clone(), schedule: ca.schedule.clone(), genesis: genesis.clone(), epoch: validator::EpochNumber(0) }, proposals: vec![], invalid_payload: Payload(vec![]) };
    let blocks: Vec<validator::Block> = (0..3u64).map(|n| { let p = Payload(vec![0x30 + n as u8, 7]); w0.final_block(&p, &w0.commit_qc(&w0.commit_vote(n + 1, n, &p), 0b111)).into() }).collect();
    // epoch 1 (same committee) starts at block 3
    let store = new_store_dynamic(&genesis, &ca.schedule, &ca.schedule, 3);
    let st2 = store.clone();
    let key = ca.keys[0].clone();
    let out: Arc<Mutex<Handover>> = Arc::new(Mutex::new(Handover { steps: 0, woke_up_after_the_boundary: false, violation: None }));
    let out2 = out.clone();
    let ch = crate::core::Chooser::new(vec![], None);
    let stuck = sched::run(&ch, |idle| async move {
        let clock = ctx::ManualClock::new();
        let root = ctx::test_root(&clock);
        let (root, st, idle_ref, clock, out, blocks) = (&root, &st2, &idle, &clock, &out2, &blocks);
        let fut = async move {
            let (mgr, runner) = EngineManager::new(root, Box::new(st.clone()), time::Duration::seconds(1)).await.map_err(|e| anyhow::format_err!("EngineManager::new: {e:?}"))?;
            let mgr = &mgr;
            scope::run!(root, |ctx, s| async move {
                s.spawn_bg(async move { runner.run(ctx).await.map_err(|e| anyhow::format_err!("RUNNER-ERROR: {e:#}")) });
                // blocks 0 and 1 of epoch 0 become durable; the committee of epoch 1 becomes known
                for b in &blocks[..2] {
                    mgr.wait_for_validator_schedule(ctx, validator::EpochNumber(0)).await?;
                    let b = b.clone();
                    s.spawn_bg(async move {
                        let _ = mgr.queue_block(ctx, b).await;
                        Ok(())
                    });
                    idle_ref.settle().await;
                    st.0.release.add_permits(1);
                    idle_ref.settle().await;
                }
                for _ in 0..5 {
                    clock.advance(time::Duration::seconds(1));
                    idle_ref.settle().await;
                }
                if mgr.validator_schedule(validator::EpochNumber(1)).is_none() || st.next() != 2 {
                    anyhow::bail!("set-up: committee of epoch 1 known = {}, durable blocks = {}", mgr.validator_schedule(validator::EpochNumber(1)).is_some(), st.next());
                }
                let writes_before = st.0.state_writes.lock().unwrap().len();
                // the executor starts the consensus instance of epoch 1 now
                let (_consensus_send, consensus_recv) = bft::create_input_channel();
                let (network_send, mut network_recv) = ctx::channel::unbounded();
                let cfg = bft::Config::new(key, 1 << 20, time::Duration::seconds(2), mgr.clone(), validator::EpochNumber(1))?;
                s.spawn_bg(async move {
                    let _ = cfg.run(ctx, network_send, consensus_recv).await;
                    Ok(())
                });
                let mut sent = 0u64;
                for _ in 0..12 {
                    idle_ref.settle().await;
                    clock.advance(time::Duration::seconds(3));
                    out.lock().unwrap().steps += 1;
                    while network_recv.try_recv().is_some() {
                        sent += 1;
                    }
                }
                idle_ref.settle().await;
                let writes = st.0.state_writes.lock().unwrap().len() - writes_before;
                if sent > 0 || writes > 0 {
                    out.lock().unwrap().violation = Some(format!("the consensus instance of epoch 1 (first block 3) sent {sent} message(s) and wrote the node's only replica-state slot {writes} time(s) while block 2, the last block of epoch 0, was not yet persisted: the replica of epoch 0 would forget its votes at a restart"));
                    return Ok(());
                }
                // the last block of epoch 0 becomes durable: now the instance must wake up
                {
                    let b = blocks[2].clone();
                    s.spawn_bg(async move {
                        let _ = mgr.queue_block(ctx, b).await;
                        Ok(())
                    });
                    idle_ref.settle().await;
                    st.0.release.add_permits(1);
                }
                for _ in 0..6 {
                    idle_ref.settle().await;
                    clock.advance(time::Duration::seconds(3));
                    while network_recv.try_recv().is_some() {
                        sent += 1;
                    }
                }
                let writes = st.0.state_writes.lock().unwrap().len() - writes_before;
                out.lock().unwrap().woke_up_after_the_boundary = sent > 0 || writes > 0;
                anyhow::Ok(())
            })
            .await
        };
        match sched::drive(&idle, fut, |k| k < 400).await {
            sched::Driven::Done(r) => r.err().map(|e| format!("{e:#}")),
            sched::Driven::Stuck => Some("STUCK".into()),
        }
    });
    let mut o = std::mem::replace(&mut *out.lock().unwrap(), Handover { steps: 0, woke_up_after_the_boundary: false, violation: None });
    if let (None, Some(s)) = (&o.violation, stuck) {
        o.violation = Some(format!("MACHINERY: {s}"));
    }
    o
}
