//! Registry of every wire / storage message type with well-formed sample values.
use rand::Rng;
use zksync_concurrency::{limiter, time};
use zksync_consensus_network::verif::{private_wire_types, wire_type, WireType};
use zksync_consensus_roles::{node, validator};

use super::util;

fn gen<T>(rng: &mut impl Rng, n: usize) -> Vec<T>
where
    rand::distributions::Standard: rand::distributions::Distribution<T>,
{
    (0..n).map(|_| rng.gen()).collect()
}

pub fn net_addresses() -> Vec<validator::NetAddress> {
    let mut out = vec![];
    let addrs: [std::net::SocketAddr; 6] = [
        "127.0.0.1:3000".parse().unwrap(),
        "0.0.0.0:0".parse().unwrap(),
        "255.255.255.255:65535".parse().unwrap(),
        "[::1]:1".parse().unwrap(),
        "[ffff:ffff:ffff:ffff:ffff:ffff:ffff:ffff]:65535".parse().unwrap(),
        "[::ffff:10.1.2.3]:3054".parse().unwrap(),
    ];
    let stamps = [
        time::UNIX_EPOCH,
        time::UNIX_EPOCH + time::Duration::new(1_700_000_000, 123_456_789),
        time::UNIX_EPOCH + time::Duration::new(-5, 0),
        time::UNIX_EPOCH + time::Duration::new(-5, -300_000_000),
        time::UNIX_EPOCH + time::Duration::new(i64::MAX, 999_999_999),
        time::UNIX_EPOCH + time::Duration::new(i64::MIN + 1, 0),
        time::UNIX_EPOCH + time::Duration::new(0, 999_999_999),
        time::UNIX_EPOCH + time::Duration::new(0, -1),
    ];
    for (i, a) in addrs.iter().enumerate() {
        for (j, t) in stamps.iter().enumerate() {
            let version = [0u64, 1, u64::MAX, 1 << 32][(i + j) % 4];
            out.push(validator::NetAddress { addr: *a, version, timestamp: *t });
        }
    }
    out
}

pub fn durations() -> Vec<time::Duration> {
    let mut v = vec![];
    for s in [0i64, 1, -1, 59, i64::MAX, i64::MIN + 1, 1 << 32, -(1 << 32)] {
        for n in [0i32, 1, -1, 999_999_999, -999_999_999, 500_000_000] {
            // `time::Duration::new` normalises; keep only combinations that do not overflow
            if (s == i64::MAX && n > 0) || (s == i64::MIN + 1 && n < 0) {
                continue;
            }
            v.push(time::Duration::new(s, n));
        }
    }
    // the extremes of the type itself (reachable by decoding: seconds = i64::MIN with negative nanos)
    v.push(time::Duration::MIN);
    v.push(time::Duration::MAX);
    v.push(time::Duration::seconds(i64::MIN) + time::Duration::nanoseconds(-1));
    v
}

pub fn bitvecs() -> Vec<bit_vec::BitVec> {
    let mut v = vec![];
    for len in [0usize, 1, 7, 8, 9, 15, 16, 17, 64, 65] {
        v.push(bit_vec::BitVec::from_elem(len, false));
        v.push(bit_vec::BitVec::from_elem(len, true));
        v.push(bit_vec::BitVec::from_fn(len, |i| i % 3 == 0));
        v.push(bit_vec::BitVec::from_fn(len, |i| i + 1 == len));
    }
    v
}

pub fn all(seed: u64, big_payload: bool) -> Vec<WireType> {
    let rng = &mut util::rng(seed, 0xc09);
    let mut v: Vec<WireType> = vec![];
    // --- std
    v.push(wire_type("std::Void", vec![()]));
    v.push(wire_type(
        "std::SocketAddr",
        // incl. one representative of every special IPv6 range that some std / OS function maps to
        // another address (IPv4-mapped, IPv4-compatible, NAT64, 6to4, unspecified, link-local, multicast)
        vec![
            "127.0.0.1:3000", "0.0.0.0:0", "255.255.255.255:65535", "10.1.2.3:3054", "169.254.0.1:1", "[::1]:1", "[2001:db8::1]:443", "[ffff:ffff:ffff:ffff:ffff:ffff:ffff:ffff]:65535",
            "[::]:0", "[::ffff:10.1.2.3]:3054", "[::ffff:0.0.0.0]:1", "[::ffff:255.255.255.255]:65535", "[::10.1.2.3]:3054", "[64:ff9b::a01:203]:3054", "[2002:a01:203::1]:3054", "[fe80::1]:1", "[ff02::1]:1",
        ].into_iter().map(|s| s.parse::<std::net::SocketAddr>().unwrap()).collect(),
    ));
    v.push(wire_type("std::Duration", durations()));
    v.push(wire_type("std::Timestamp", durations().into_iter().map(|d| time::UNIX_EPOCH + d).collect()));
    v.push(wire_type("std::BitVector", bitvecs()));
    v.push(wire_type(
        "std::RateLimit",
        vec![limiter::Rate { burst: 0, refresh: time::Duration::ZERO }, limiter::Rate { burst: 10, refresh: time::Duration::milliseconds(30) }, limiter::Rate { burst: usize::MAX, refresh: time::Duration::new(i64::MAX, 0) }, limiter::Rate::INF],
    ));
    // --- node roles
    let nk: node::SecretKey = rng.gen();
    v.push(wire_type("node::PublicKey", gen::<node::PublicKey>(rng, 2)));
    v.push(wire_type("node::Signature", vec![nk.sign_msg(node::SessionId(vec![1, 2, 3])).sig, nk.sign_msg(node::SessionId(vec![])).sig]));
    v.push(wire_type("node::Signed<SessionId>", vec![nk.sign_msg(node::SessionId(vec![9; 32])), nk.sign_msg(node::SessionId(vec![]))]));
    // --- validator roles
    v.push(wire_type("validator::PublicKey", gen::<validator::PublicKey>(rng, 2)));
    v.push(wire_type("validator::Signature", gen::<validator::Signature>(rng, 2)));
    v.push(wire_type("validator::AggregateSignature", {
        let mut x = gen::<validator::AggregateSignature>(rng, 2);
        x.push(validator::AggregateSignature::default());
        x
    }));
    v.push(wire_type("validator::MsgHash", gen::<validator::MsgHash>(rng, 2)));
    v.push(wire_type("validator::GenesisHash", gen::<validator::GenesisHash>(rng, 2)));
    v.push(wire_type("validator::PayloadHash", gen::<validator::PayloadHash>(rng, 2)));
    v.push(wire_type("validator::ValidatorInfo", gen::<validator::ValidatorInfo>(rng, 3)));
    v.push(wire_type("validator::LeaderSelectionMode", vec![validator::LeaderSelectionMode::RoundRobin, validator::LeaderSelectionMode::Weighted]));
    v.push(wire_type(
        "validator::LeaderSelection",
        vec![
            validator::LeaderSelection { frequency: 0, mode: validator::LeaderSelectionMode::RoundRobin },
            validator::LeaderSelection { frequency: 1, mode: validator::LeaderSelectionMode::Weighted },
            validator::LeaderSelection { frequency: u64::MAX, mode: validator::LeaderSelectionMode::RoundRobin },
        ],
    ));
    v.push(wire_type("validator::Schedule", {
        let mut x = gen::<validator::Schedule>(rng, 2);
        x.push(util::committee(seed, &[1]).schedule);
        x.push(util::committee(seed, &[2, 2, 1, 1]).schedule);
        x
    }));
    v.push(wire_type("validator::GenesisRaw", {
        let mut x = gen::<validator::GenesisRaw>(rng, 2);
        x.push(validator::GenesisRaw {
            chain_id: validator::ChainId(u64::MAX),
            fork_number: validator::ForkNumber(u64::MAX),
            protocol_version: validator::ProtocolVersion::CURRENT,
            first_block: validator::BlockNumber(u64::MAX),
            validators_schedule: None,
        });
        x
    }));
    // the genesis WITH its cached hash has its own decoder (the hash must be that of the decoded value)
    v.push(wire_type("validator::Genesis", {
        let mut x: Vec<validator::Genesis> = gen::<validator::GenesisRaw>(rng, 3).into_iter().map(|g| g.with_hash()).collect();
        x.push(util::committee(7, &[3, 1, 2, 1]).genesis);
        x
    }));
    v.push(wire_type("validator::View", gen::<validator::v2::View>(rng, 2)));
    v.push(wire_type("validator::Signers", bitvecs().into_iter().take(16).map(validator::v2::Signers).collect()));
    v.push(wire_type("validator::Phase", vec![validator::v2::Phase::Prepare, validator::v2::Phase::Commit, validator::v2::Phase::Timeout]));
    v.push(wire_type("validator::BlockHeader", gen::<validator::v2::BlockHeader>(rng, 2)));
    v.push(wire_type("validator::ReplicaCommit", gen::<validator::v2::ReplicaCommit>(rng, 2)));
    v.push(wire_type("validator::CommitQC", gen::<validator::v2::CommitQC>(rng, 2)));
    v.push(wire_type("validator::ReplicaTimeout", {
        let mut x = gen::<validator::v2::ReplicaTimeout>(rng, 3);
        x.push(validator::v2::ReplicaTimeout { view: rng.gen(), high_vote: None, high_qc: None });
        x
    }));
    v.push(wire_type("validator::TimeoutQC", {
        let mut x = gen::<validator::v2::TimeoutQC>(rng, 3);
        x.push(validator::v2::TimeoutQC::new(rng.gen()));
        x
    }));
    v.push(wire_type("validator::ProposalJustification", gen::<validator::v2::ProposalJustification>(rng, 4)));
    v.push(wire_type("validator::LeaderProposal", {
        let mut x = gen::<validator::v2::LeaderProposal>(rng, 3);
        x.push(validator::v2::LeaderProposal { proposal_payload: None, justification: rng.gen() });
        x.push(validator::v2::LeaderProposal { proposal_payload: Some(validator::Payload(vec![])), justification: rng.gen() });
        x
    }));
    v.push(wire_type("validator::ReplicaNewView", gen::<validator::v2::ReplicaNewView>(rng, 2)));
    v.push(wire_type("validator::ChonkyMsg", gen::<validator::v2::ChonkyMsg>(rng, 6)));
    v.push(wire_type("validator::ConsensusMsg", gen::<validator::ConsensusMsg>(rng, 4)));
    v.push(wire_type("validator::FinalBlock", {
        let mut x = gen::<validator::v2::FinalBlock>(rng, 2);
        let mut fb: validator::v2::FinalBlock = rng.gen();
        fb.payload = validator::Payload(vec![]);
        x.push(fb);
        if big_payload {
            let mut fb: validator::v2::FinalBlock = rng.gen();
            fb.payload = validator::Payload(vec![0xab; 100_000]);
            x.push(fb);
        }
        x
    }));
    v.push(wire_type("validator::PreGenesisBlock", vec![
        validator::PreGenesisBlock { number: validator::BlockNumber(0), payload: validator::Payload(vec![]), justification: validator::Justification(vec![]) },
        validator::PreGenesisBlock { number: validator::BlockNumber(u64::MAX), payload: validator::Payload(vec![1]), justification: validator::Justification(vec![2, 3]) },
    ]));
    v.push(wire_type("validator::Block", gen::<validator::Block>(rng, 4)));
    v.push(wire_type("validator::Proposal", vec![
        validator::Proposal { number: validator::BlockNumber(0), payload: validator::Payload(vec![]) },
        validator::Proposal { number: validator::BlockNumber(u64::MAX), payload: validator::Payload(vec![5; 33]) },
    ]));
    v.push(wire_type("validator::ChonkyV2State", {
        let mut x = gen::<validator::v2::ChonkyV2State>(rng, 3);
        x.push(Default::default());
        x
    }));
    v.push(wire_type("validator::ReplicaState", {
        let mut x = gen::<validator::ReplicaState>(rng, 2);
        x.push(Default::default());
        x
    }));
    v.push(wire_type("validator::NetAddress", net_addresses()));
    v.push(wire_type("validator::Msg", {
        let mut x = gen::<validator::Msg>(rng, 6);
        x.push(validator::Msg::SessionId(node::SessionId(vec![])));
        for a in net_addresses().into_iter().step_by(7) {
            x.push(validator::Msg::NetAddress(a));
        }
        x
    }));
    let vk: validator::SecretKey = rng.gen();
    v.push(wire_type("validator::Signed<ConsensusMsg>", (0..4).map(|_| vk.sign_msg(rng.gen::<validator::ConsensusMsg>())).collect()));
    v.push(wire_type("validator::Signed<NetAddress>", net_addresses().into_iter().step_by(5).map(|a| vk.sign_msg(a)).collect()));
    v.push(wire_type("validator::Signed<SessionId>", vec![vk.sign_msg(node::SessionId(vec![3; 32]))]));
    // --- network (crate-private types through the hook)
    v.extend(private_wire_types(rng));
    v
}
