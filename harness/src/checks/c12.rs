//! C12 — connections are admitted only for authenticated, expected, unique peers.
//! (a) handshake transcripts: the real gossip / validator handshakes (through the real
//!     preface::accept / connect, noise session and run_inbound_stream / run_outbound_stream) over
//!     loop-back TCP against an adversary whose message is every element of a listed set
//!     (honest for this session, replayed from another session, relayed from a third party's
//!     session, signed by another key, other genesis, foreign signature bytes, truncated);
//! (b) admission sequences on the real inbound pools (duplicates, quota, non-members);
//! (c) every schedule (deviation-bounded) of concurrent insert / remove on the real PoolWatch.
use std::{
    collections::HashSet,
    sync::{Arc, Mutex},
    time::Duration,
};

use rand::Rng;
use serde_json::json;
use tokio::net::{TcpListener, TcpStream};
use zksync_concurrency::{ctx, io, limiter, scope, time};
use zksync_consensus_engine::EngineManager;
use zksync_consensus_network::{verif as nv, Config, GossipConfig, RpcConfig};
use zksync_consensus_roles::{node, validator};

use super::util;
use crate::{
    bftsim::World,
    core::{self, explore, fx_hash, Ch, ExecResult, ExploreCfg, Report, Violation},
    sched, wire, Args,
};

fn frame(body: &[u8]) -> Vec<u8> {
    let mut v = (body.len() as u32).to_le_bytes().to_vec();
    v.extend_from_slice(body);
    v
}

async fn send_frame<S: io::AsyncWrite + Unpin>(ctx: &ctx::Ctx, s: &mut S, body: &[u8]) -> Result<(), String> {
    io::write_all(ctx, s, &frame(body)).await.map_err(|_| "canceled")?.map_err(|e| e.to_string())?;
    io::flush(ctx, s).await.map_err(|_| "canceled")?.map_err(|e| e.to_string())
}

async fn recv_frame<S: io::AsyncRead + Unpin>(ctx: &ctx::Ctx, s: &mut S) -> Result<Vec<u8>, String> {
    let mut l = [0u8; 4];
    io::read_exact(ctx, s, &mut l).await.map_err(|_| "canceled")?.map_err(|e| e.to_string())?;
    let n = u32::from_le_bytes(l) as usize;
    if n > 1 << 20 {
        return Err("frame too large".into());
    }
    let mut b = vec![0u8; n];
    io::read_exact(ctx, s, &mut b).await.map_err(|_| "canceled")?.map_err(|e| e.to_string())?;
    Ok(b)
}

const ENCRYPTION_NOISE_NN: &[u8] = &[0x0a, 0x00]; // Encryption { noise_nn: {} }
fn endpoint(gossip: bool) -> Vec<u8> {
    // Endpoint { t: consensus_net = 1 | gossip_net = 2 }
    vec![if gossip { 0x12 } else { 0x0a }, 0x00]
}

/// The adversary as a client: preface + noise, returns the encrypted stream and the session id.
async fn adv_connect(ctx: &ctx::Ctx, addr: std::net::SocketAddr, gossip: bool) -> Result<(nv::VNoise<TcpStream>, Vec<u8>), String> {
    let mut tcp = TcpStream::connect(addr).await.map_err(|e| e.to_string())?;
    send_frame(ctx, &mut tcp, ENCRYPTION_NOISE_NN).await?;
    let mut s = nv::VNoise::client(ctx, tcp).await.map_err(|e| format!("{e:?}"))?;
    send_frame(ctx, &mut s, &endpoint(gossip)).await?;
    let id = s.id();
    Ok((s, id))
}

/// The adversary as a server: accepts one connection, preface + noise.
async fn adv_accept(ctx: &ctx::Ctx, l: &TcpListener) -> Result<(nv::VNoise<TcpStream>, Vec<u8>), String> {
    let (mut tcp, _) = l.accept().await.map_err(|e| e.to_string())?;
    let _enc = recv_frame(ctx, &mut tcp).await?;
    let mut s = nv::VNoise::server(ctx, tcp).await.map_err(|e| format!("{e:?}"))?;
    let _ep = recv_frame(ctx, &mut s).await?;
    let id = s.id();
    Ok((s, id))
}

/// Encodings of small-order points of edwards25519 (neutral element, the point of order 2, the two of order 4).
fn small_order_points() -> Vec<(&'static str, [u8; 32])> {
    let mut neutral = [0u8; 32];
    neutral[0] = 1;
    let mut order2 = [0xffu8; 32];
    order2[0] = 0xec;
    order2[31] = 0x7f;
    let order4a = [0u8; 32];
    let mut order4b = [0u8; 32];
    order4b[31] = 0x80;
    vec![("neutral element", neutral), ("order 2", order2), ("order 4 (a)", order4a), ("order 4 (b)", order4b)]
}

fn gossip_handshake(key: &node::SecretKey, claimed: Option<node::PublicKey>, session: &[u8], genesis: validator::GenesisHash, foreign_sig: bool) -> Vec<u8> {
    use wire::{Field, Val};
    let mut signed = key.sign_msg(node::SessionId(session.to_vec()));
    if let Some(k) = claimed {
        signed.key = k;
    }
    if foreign_sig {
        signed.sig = key.sign_msg(node::SessionId(vec![0xEE; 32])).sig;
    }
    wire::write(&[Field { num: 1, val: Val::Bytes(zksync_protobuf::encode(&signed)) }, Field { num: 3, val: Val::Bytes(zksync_protobuf::encode(&genesis)) }, Field { num: 2, val: Val::Varint(0) }])
}

fn consensus_handshake(key: &validator::SecretKey, claimed: Option<validator::PublicKey>, session: &[u8], genesis: validator::GenesisHash, foreign_sig: bool) -> Vec<u8> {
    use wire::{Field, Val};
    let mut signed = key.sign_msg(node::SessionId(session.to_vec()));
    if let Some(k) = claimed {
        signed.key = k;
    }
    if foreign_sig {
        signed.sig = key.sign_msg(node::SessionId(vec![0xEE; 32])).sig;
    }
    wire::write(&[Field { num: 1, val: Val::Bytes(zksync_protobuf::encode(&signed)) }, Field { num: 2, val: Val::Bytes(zksync_protobuf::encode(&genesis)) }])
}

fn make_cfg(rng: &mut impl Rng, dynamic_inbound_limit: usize, static_inbound: HashSet<node::PublicKey>, validator_key: Option<validator::SecretKey>) -> Config {
    let addr = zksync_concurrency::net::tcp::testonly::reserve_listener();
    Config {
        build_version: None,
        server_addr: addr,
        public_addr: (*addr).into(),
        ping_timeout: None,
        validator_key,
        gossip: GossipConfig { key: rng.gen(), dynamic_inbound_limit, static_inbound, static_outbound: Default::default() },
        max_block_size: usize::MAX,
        max_tx_size: usize::MAX,
        tcp_accept_rate: limiter::Rate::INF,
        rpc: RpcConfig::default(),
        max_block_queue_size: 10,
    }
}

#[derive(Default)]
struct Tally {
    cases: u64,
    accepted: u64,
    refused: u64,
    viol: Vec<(String, String)>,
}

impl Tally {
    fn expect(&mut self, name: &str, got_admitted: bool, want_admitted: bool, detail: String) {
        self.cases += 1;
        if got_admitted {
            self.accepted += 1
        } else {
            self.refused += 1
        }
        if got_admitted != want_admitted {
            self.viol.push((name.to_string(), format!("[{name}] {} — {detail}", if got_admitted { "the connection was admitted although it must be refused" } else { "the connection was refused although it must be admitted" })));
        }
    }
}

/// Polls `f` every 5 ms; gives up after `secs` seconds. Outcomes the property *requires* are awaited
/// for 30 s (they end the wait as soon as they happen), so that a loaded machine cannot turn a slow
/// admission into an alarm; outcomes the property forbids are awaited for 2 s.
async fn wait_for(secs: u64, mut f: impl FnMut() -> bool) -> bool {
    for _ in 0..secs * 200 {
        if f() {
            return true;
        }
        tokio::time::sleep(Duration::from_millis(5)).await;
    }
    f()
}

/// (a)+(b) over loop-back TCP.
fn tcp_part(seed: u64) -> Tally {
    let mut tally = Tally::default();
    let rt = tokio::runtime::Builder::new_multi_thread().worker_threads(4).enable_all().build().unwrap();
    let rng = &mut util::rng(seed, 0xc12);
    let c = util::committee(seed, &[1, 1, 1]);
    let w = World { c, proposals: vec![], invalid_payload: validator::Payload(vec![]) };
    let genesis = w.c.genesis.hash();
    let other_genesis = util::committee_with(seed, &[1, 1, 1], 9, 0, Default::default()).genesis.hash();
    let (ka, kb, kc): (node::SecretKey, node::SecretKey, node::SecretKey) = (rng.gen(), rng.gen(), rng.gen());
    let outsider_val: validator::SecretKey = rng.gen();
    let res: Result<(), String> = rt.block_on(async {
        let root = ctx::test_root(&ctx::RealClock);
        let ctx = &root;
        // engine manager for the node under test (empty store)
        let eng = crate::bftsim::SimEngine::new_empty(&w);
        let (mgr, runner) = EngineManager::new(ctx, Box::new(eng), time::Duration::seconds(1)).await.map_err(|e| format!("{e:?}"))?;
        let tally = Mutex::new(&mut tally);
        let (tally, w, mgr, ka, kb, kc, outsider_val) = (&tally, &w, &mgr, &ka, &kb, &kc, &outsider_val);
        scope::run!(ctx, |ctx, s| async move {
            s.spawn_bg(async move {
                let _ = runner.run(ctx).await;
                Ok(())
            });
            // ---------- gossip inbound: node N (quota 1 for non-configured peers)
            let cfg_n = make_cfg(rng, 1, HashSet::new(), Some(w.c.keys[0].clone()));
            let n_gossip_key = cfg_n.gossip.key.clone();
            let net = nv::VGossip::new(cfg_n, mgr.clone(), Some(w.c.epoch));
            let listener = TcpListener::bind("127.0.0.1:0").await.map_err(|e| anyhow::format_err!("{e}"))?;
            let addr = listener.local_addr().unwrap();
            // acceptor: every connection is handled concurrently by the real code
            {
                let net = net.clone();
                let mut listener = listener;
                s.spawn_bg(async move {
                    while let Ok(tcp) = nv::accept_tcp(ctx, &mut listener).await {
                        let net = net.clone();
                        s.spawn_bg(async move {
                            let _ = net.handle_inbound(ctx, tcp).await;
                            Ok(())
                        });
                    }
                    Ok(())
                });
            }
            let admitted = |k: &node::SecretKey| net.inbound_keys().contains(&k.public());
            // 1. honest handshake for this session
            let (mut s1, id1) = adv_connect(ctx, addr, true).await.map_err(|e| anyhow::format_err!(e))?;
            let h1 = gossip_handshake(ka, None, &id1, genesis, false);
            send_frame(ctx, &mut s1, &h1).await.map_err(|e| anyhow::format_err!(e))?;
            let ok = wait_for(30, || admitted(ka)).await;
            tally.lock().unwrap().expect("gossip_inbound_honest", ok, true, "A signs this session's id".into());
            // 2. the same transcript replayed on another session (while A is connected: also a duplicate)
            let (mut s2, _id2) = adv_connect(ctx, addr, true).await.map_err(|e| anyhow::format_err!(e))?;
            send_frame(ctx, &mut s2, &h1).await.map_err(|e| anyhow::format_err!(e))?;
            let r = recv_frame(ctx, &mut s2).await;
            tally.lock().unwrap().expect("gossip_inbound_replayed_transcript", r.is_ok(), false, "A's handshake recorded on session 1 replayed on session 2".into());
            // 3. B's key claimed, signed by C
            let (mut s3, id3) = adv_connect(ctx, addr, true).await.map_err(|e| anyhow::format_err!(e))?;
            send_frame(ctx, &mut s3, &gossip_handshake(kc, Some(kb.public()), &id3, genesis, false)).await.map_err(|e| anyhow::format_err!(e))?;
            let r = recv_frame(ctx, &mut s3).await;
            tally.lock().unwrap().expect("gossip_inbound_wrong_signer", r.is_ok() || admitted(kb), false, "identity B claimed, signed with C's key".into());
            // 3b. the node's OWN identity claimed, signed by C ("we signed it ourselves" must not be assumed)
            {
                let (mut s3b, id3b) = adv_connect(ctx, addr, true).await.map_err(|e| anyhow::format_err!(e))?;
                send_frame(ctx, &mut s3b, &gossip_handshake(kc, Some(n_gossip_key.public()), &id3b, genesis, false)).await.map_err(|e| anyhow::format_err!(e))?;
                let r = recv_frame(ctx, &mut s3b).await;
                tally.lock().unwrap().expect("gossip_inbound_own_identity_claimed", r.is_ok() || net.inbound_keys().contains(&n_gossip_key.public()), false, "the node's own identity claimed, signed with C's key".into());
            }
            // 4. other genesis
            let (mut s4, id4) = adv_connect(ctx, addr, true).await.map_err(|e| anyhow::format_err!(e))?;
            send_frame(ctx, &mut s4, &gossip_handshake(kb, None, &id4, other_genesis, false)).await.map_err(|e| anyhow::format_err!(e))?;
            let r = recv_frame(ctx, &mut s4).await;
            tally.lock().unwrap().expect("gossip_inbound_other_genesis", r.is_ok() || admitted(kb), false, "B announces another chain".into());
            // 5. signature bytes of another message
            let (mut s5, id5) = adv_connect(ctx, addr, true).await.map_err(|e| anyhow::format_err!(e))?;
            send_frame(ctx, &mut s5, &gossip_handshake(kb, None, &id5, genesis, true)).await.map_err(|e| anyhow::format_err!(e))?;
            let r = recv_frame(ctx, &mut s5).await;
            tally.lock().unwrap().expect("gossip_inbound_foreign_signature", r.is_ok() || admitted(kb), false, "B's session id with the signature of another message".into());
            // 6. truncated handshake
            let (mut s6, id6) = adv_connect(ctx, addr, true).await.map_err(|e| anyhow::format_err!(e))?;
            let hb = gossip_handshake(kb, None, &id6, genesis, false);
            send_frame(ctx, &mut s6, &hb[..hb.len() / 2]).await.map_err(|e| anyhow::format_err!(e))?;
            let r = recv_frame(ctx, &mut s6).await;
            tally.lock().unwrap().expect("gossip_inbound_truncated", r.is_ok() || admitted(kb), false, "truncated handshake message".into());
            // 6b. identities that have no secret key: small-order points of the curve as public key with the
            // degenerate signature (R small-order, s = 0), which satisfies the plain verification equation for
            // every message (always for the neutral element, with probability 1/2 - 1/4 for the others): the same
            // 64 bytes on every session. Nobody can have proved possession of such a key.
            for (kn, kbytes) in small_order_points() {
                let Ok(weak_key) = <node::PublicKey as zksync_consensus_crypto::ByteFmt>::decode(&kbytes) else { continue };
                for (rn, rbytes) in small_order_points() {
                    let mut sig = [0u8; 64];
                    sig[..32].copy_from_slice(&rbytes);
                    let Ok(weak_sig) = <node::Signature as zksync_consensus_crypto::ByteFmt>::decode(&sig) else { continue };
                    for session in 0..2 {
                        let (mut sk, idk) = adv_connect(ctx, addr, true).await.map_err(|e| anyhow::format_err!(e))?;
                        let signed = node::Signed { msg: node::SessionId(idk.clone()), key: weak_key.clone(), sig: weak_sig.clone() };
                        let hs = wire::write(&[wire::Field { num: 1, val: wire::Val::Bytes(zksync_protobuf::encode(&signed)) }, wire::Field { num: 3, val: wire::Val::Bytes(zksync_protobuf::encode(&genesis)) }, wire::Field { num: 2, val: wire::Val::Varint(0) }]);
                        send_frame(ctx, &mut sk, &hs).await.map_err(|e| anyhow::format_err!(e))?;
                        let r = recv_frame(ctx, &mut sk).await;
                        let inside = net.inbound_keys().contains(&weak_key);
                        tally.lock().unwrap().expect("gossip_inbound_keyless_identity", r.is_ok() || inside, false, format!("identity = small-order point {kn} (no secret key exists), signature (R = {rn}, s = 0), session {session}"));
                    }
                }
            }
            // ---------- admission: A is connected (s1 alive). A second connection authenticated as A is a duplicate
            let (mut s7, id7) = adv_connect(ctx, addr, true).await.map_err(|e| anyhow::format_err!(e))?;
            send_frame(ctx, &mut s7, &gossip_handshake(ka, None, &id7, genesis, false)).await.map_err(|e| anyhow::format_err!(e))?;
            let _ = recv_frame(ctx, &mut s7).await; // handshake itself is fine
            // the duplicate must be closed: reading further yields EOF / error
            let mut b = [0u8; 1];
            let closed = tokio::time::timeout(Duration::from_secs(30), io::read_exact(ctx, &mut s7, &mut b)).await.map(|r| !matches!(r, Ok(Ok(())))).unwrap_or(false);
            tally.lock().unwrap().expect("gossip_duplicate_identity", !closed, false, "a second connection authenticated as A while A's first connection is alive".into());
            // A's first connection must still be registered
            tokio::time::sleep(Duration::from_millis(50)).await;
            tally.lock().unwrap().expect("gossip_live_connection_stays_registered", admitted(ka), true, "after the refused duplicate, A's live connection is still in the pool".into());
            // a third connection of A must still be refused
            let (mut s8, id8) = adv_connect(ctx, addr, true).await.map_err(|e| anyhow::format_err!(e))?;
            send_frame(ctx, &mut s8, &gossip_handshake(ka, None, &id8, genesis, false)).await.map_err(|e| anyhow::format_err!(e))?;
            let _ = recv_frame(ctx, &mut s8).await;
            let closed = tokio::time::timeout(Duration::from_secs(30), io::read_exact(ctx, &mut s8, &mut b)).await.map(|r| !matches!(r, Ok(Ok(())))).unwrap_or(false);
            tally.lock().unwrap().expect("gossip_duplicate_identity_again", !closed, false, "a third connection authenticated as A".into());
            // quota: A (non-configured) uses the single dynamic slot; B must be refused
            let (mut s9, id9) = adv_connect(ctx, addr, true).await.map_err(|e| anyhow::format_err!(e))?;
            send_frame(ctx, &mut s9, &gossip_handshake(kb, None, &id9, genesis, false)).await.map_err(|e| anyhow::format_err!(e))?;
            let _ = recv_frame(ctx, &mut s9).await;
            let got_in = wait_for(2, || admitted(kb)).await;
            tally.lock().unwrap().expect("gossip_quota", got_in, false, "non-configured peer B while the quota of 1 is used by A".into());
            drop((s2, s3, s4, s5, s6, s7, s8, s9));
            // after A disconnects, B is admitted
            drop(s1);
            let _ = wait_for(30, || !admitted(ka)).await;
            let (mut s10, id10) = adv_connect(ctx, addr, true).await.map_err(|e| anyhow::format_err!(e))?;
            send_frame(ctx, &mut s10, &gossip_handshake(kb, None, &id10, genesis, false)).await.map_err(|e| anyhow::format_err!(e))?;
            let got_in = wait_for(30, || admitted(kb)).await;
            tally.lock().unwrap().expect("gossip_slot_freed_after_disconnect", got_in, true, "B connects after A disconnected".into());

            // ---------- gossip outbound: node N dials the adversary's server expecting peer P = B
            let adv_l = TcpListener::bind("127.0.0.1:0").await.map_err(|e| anyhow::format_err!("{e}"))?;
            let adv_addr = adv_l.local_addr().unwrap();
            let mut relayed: Option<Vec<u8>> = None;
            for (name, responder, want) in [("gossip_outbound_honest_expected_peer", 0, true), ("gossip_outbound_other_peer", 1, false), ("gossip_outbound_other_genesis", 2, false), ("gossip_outbound_foreign_signature", 3, false)] {
                // the dialling node needs B in its static_outbound set
                let mut cfg_d = make_cfg(rng, 0, HashSet::new(), None);
                cfg_d.gossip.static_outbound.insert(kb.public(), zksync_concurrency::net::Host(adv_addr.to_string()));
                let dnet = nv::VGossip::new(cfg_d, mgr.clone(), Some(w.c.epoch));
                let d2 = dnet.clone();
                let kbp = kb.public();
                let dial = s.spawn(async move {
                    let _ = d2.dial(ctx, &kbp, adv_addr).await;
                    Ok(())
                });
                let (mut srv, sid) = adv_accept(ctx, &adv_l).await.map_err(|e| anyhow::format_err!(e))?;
                let node_hs = recv_frame(ctx, &mut srv).await.map_err(|e| anyhow::format_err!(e))?;
                if relayed.is_none() {
                    relayed = Some(node_hs.clone());
                }
                let reply = match responder {
                    0 => gossip_handshake(kb, None, &sid, genesis, false),
                    1 => gossip_handshake(kc, None, &sid, genesis, false),
                    2 => gossip_handshake(kb, None, &sid, other_genesis, false),
                    _ => gossip_handshake(kb, None, &sid, genesis, true),
                };
                send_frame(ctx, &mut srv, &reply).await.map_err(|e| anyhow::format_err!(e))?;
                let got = if want {
                    wait_for(30, || dnet.outbound_keys().contains(&kb.public())).await
                } else {
                    tokio::time::sleep(Duration::from_millis(100)).await;
                    dnet.outbound_keys().contains(&kb.public())
                };
                tally.lock().unwrap().expect(name, got, want, "node dials expecting peer B".into());
                drop(srv);
                let _ = dial.join(ctx).await;
            }
            // man in the middle: the honest node's own handshake (captured above on an outbound session)
            // relayed into a fresh inbound session of node N
            if let Some(hs) = relayed {
                let (mut s11, _id11) = adv_connect(ctx, addr, true).await.map_err(|e| anyhow::format_err!(e))?;
                send_frame(ctx, &mut s11, &hs).await.map_err(|e| anyhow::format_err!(e))?;
                let r = recv_frame(ctx, &mut s11).await;
                tally.lock().unwrap().expect("gossip_inbound_relayed_by_mitm", r.is_ok(), false, "an honest node's handshake recorded on its session with the adversary, relayed on the adversary's session with N".into());
            }
            let _ = n_gossip_key;

            // ---------- validator network inbound (members only)
            let cfg_v = make_cfg(rng, 0, HashSet::new(), Some(w.c.keys[0].clone()));
            let gnet = nv::VGossip::new(cfg_v, mgr.clone(), Some(w.c.epoch));
            let vnet = nv::VConsensus::new(&gnet).map_err(|e| anyhow::format_err!(e))?.expect("validator node");
            let vl = TcpListener::bind("127.0.0.1:0").await.map_err(|e| anyhow::format_err!("{e}"))?;
            let vaddr = vl.local_addr().unwrap();
            {
                let vnet = vnet.clone();
                let mut vl = vl;
                s.spawn_bg(async move {
                    while let Ok(tcp) = nv::accept_tcp(ctx, &mut vl).await {
                        let vnet = vnet.clone();
                        s.spawn_bg(async move {
                            let _ = vnet.handle_inbound(ctx, tcp).await;
                            Ok(())
                        });
                    }
                    Ok(())
                });
            }
            let vadm = |k: &validator::SecretKey| vnet.inbound_keys().contains(&k.public());
            let member = &w.c.keys[1];
            let (mut v1, vid1) = adv_connect(ctx, vaddr, false).await.map_err(|e| anyhow::format_err!(e))?;
            let vh1 = consensus_handshake(member, None, &vid1, genesis, false);
            send_frame(ctx, &mut v1, &vh1).await.map_err(|e| anyhow::format_err!(e))?;
            let ok = wait_for(30, || vadm(member)).await;
            tally.lock().unwrap().expect("validator_inbound_member", ok, true, "committee member signs this session's id".into());
            let (mut v2, _vid2) = adv_connect(ctx, vaddr, false).await.map_err(|e| anyhow::format_err!(e))?;
            send_frame(ctx, &mut v2, &vh1).await.map_err(|e| anyhow::format_err!(e))?;
            let r = recv_frame(ctx, &mut v2).await;
            tally.lock().unwrap().expect("validator_inbound_replayed_transcript", r.is_ok(), false, "member's handshake replayed on another session".into());
            let (mut v3, vid3) = adv_connect(ctx, vaddr, false).await.map_err(|e| anyhow::format_err!(e))?;
            send_frame(ctx, &mut v3, &consensus_handshake(outsider_val, None, &vid3, genesis, false)).await.map_err(|e| anyhow::format_err!(e))?;
            let _ = recv_frame(ctx, &mut v3).await;
            tokio::time::sleep(Duration::from_millis(100)).await;
            tally.lock().unwrap().expect("validator_inbound_non_member", vadm(outsider_val), false, "a validly authenticated key that is not in the committee".into());
            let (mut v4, vid4) = adv_connect(ctx, vaddr, false).await.map_err(|e| anyhow::format_err!(e))?;
            send_frame(ctx, &mut v4, &consensus_handshake(&w.c.keys[2], None, &vid4, other_genesis, false)).await.map_err(|e| anyhow::format_err!(e))?;
            let r = recv_frame(ctx, &mut v4).await;
            tally.lock().unwrap().expect("validator_inbound_other_genesis", r.is_ok() || vadm(&w.c.keys[2]), false, "member announcing another chain".into());
            let (mut v5, vid5) = adv_connect(ctx, vaddr, false).await.map_err(|e| anyhow::format_err!(e))?;
            send_frame(ctx, &mut v5, &consensus_handshake(outsider_val, Some(w.c.keys[2].public()), &vid5, genesis, false)).await.map_err(|e| anyhow::format_err!(e))?;
            let r = recv_frame(ctx, &mut v5).await;
            tally.lock().unwrap().expect("validator_inbound_wrong_signer", r.is_ok() || vadm(&w.c.keys[2]), false, "member's key claimed, signed by an outsider".into());
            // the node's OWN validator key claimed, signed by an outsider (a loop-back connection is authenticated like any other)
            {
                let (mut v5b, vid5b) = adv_connect(ctx, vaddr, false).await.map_err(|e| anyhow::format_err!(e))?;
                send_frame(ctx, &mut v5b, &consensus_handshake(outsider_val, Some(w.c.keys[0].public()), &vid5b, genesis, false)).await.map_err(|e| anyhow::format_err!(e))?;
                let r = recv_frame(ctx, &mut v5b).await;
                tally.lock().unwrap().expect("validator_inbound_own_identity_claimed", r.is_ok() || vadm(&w.c.keys[0]), false, "the node's own validator key claimed, signed by an outsider".into());
            }
            // a second connection authenticated as the same member is a duplicate: refused, the live one stays
            let (mut v6, vid6) = adv_connect(ctx, vaddr, false).await.map_err(|e| anyhow::format_err!(e))?;
            send_frame(ctx, &mut v6, &consensus_handshake(member, None, &vid6, genesis, false)).await.map_err(|e| anyhow::format_err!(e))?;
            let _ = recv_frame(ctx, &mut v6).await;
            let mut b1 = [0u8; 1];
            let closed = tokio::time::timeout(Duration::from_secs(30), io::read_exact(ctx, &mut v6, &mut b1)).await.map(|r| !matches!(r, Ok(Ok(())))).unwrap_or(false);
            tally.lock().unwrap().expect("validator_duplicate_identity", !closed, false, "a second connection authenticated as the same committee member while the first is alive".into());
            tokio::time::sleep(Duration::from_millis(50)).await;
            tally.lock().unwrap().expect("validator_live_connection_stays_registered", vadm(member), true, "after the refused duplicate the member's live connection is still in the pool".into());
            drop(v6);

            // ---------- validator network outbound: the node dials the address announced for member M
            let vadv_l = TcpListener::bind("127.0.0.1:0").await.map_err(|e| anyhow::format_err!("{e}"))?;
            let vadv_addr = vadv_l.local_addr().unwrap();
            let dialled = &w.c.keys[2];
            for (name, responder, want) in [("validator_outbound_honest_expected_peer", 0, true), ("validator_outbound_other_member", 1, false), ("validator_outbound_outsider", 2, false), ("validator_outbound_other_genesis", 3, false), ("validator_outbound_foreign_signature", 4, false)] {
                let cfg_d = make_cfg(rng, 0, HashSet::new(), Some(w.c.keys[0].clone()));
                let dg = nv::VGossip::new(cfg_d, mgr.clone(), Some(w.c.epoch));
                let dv = nv::VConsensus::new(&dg).map_err(|e| anyhow::format_err!(e))?.expect("validator node");
                let dv2 = dv.clone();
                let peer = dialled.public();
                let dial = s.spawn(async move {
                    let _ = dv2.dial(ctx, &peer, vadv_addr).await;
                    Ok(())
                });
                let (mut srv, sid) = adv_accept(ctx, &vadv_l).await.map_err(|e| anyhow::format_err!(e))?;
                let _node_hs = recv_frame(ctx, &mut srv).await.map_err(|e| anyhow::format_err!(e))?;
                let reply = match responder {
                    0 => consensus_handshake(dialled, None, &sid, genesis, false),
                    1 => consensus_handshake(&w.c.keys[1], None, &sid, genesis, false),
                    2 => consensus_handshake(outsider_val, None, &sid, genesis, false),
                    3 => consensus_handshake(dialled, None, &sid, other_genesis, false),
                    _ => consensus_handshake(dialled, None, &sid, genesis, true),
                };
                send_frame(ctx, &mut srv, &reply).await.map_err(|e| anyhow::format_err!(e))?;
                let registered = || !dv.outbound_keys().is_empty();
                let got = if want {
                    wait_for(30, registered).await
                } else {
                    tokio::time::sleep(Duration::from_millis(100)).await;
                    registered()
                };
                tally.lock().unwrap().expect(name, got, want, "validator node dials the address announced for a committee member".into());
                drop(srv);
                let _ = dial.join(ctx).await;
            }
            drop((v1, v2, v3, v4, v5, s10));
            Ok::<(), anyhow::Error>(())
        })
        .await
        .map_err(|e| format!("{e:#}"))
    });
    if let Err(e) = res {
        tally.viol.push(("machinery".into(), format!("MACHINERY: tcp harness failed: {e}")));
    }
    tally
}

/// (c) PoolWatch under the controlled scheduler.
fn pool_run(ch: &Ch, quota: usize) -> ExecResult {
    let log: Arc<Mutex<Vec<(String, u32, bool)>>> = Default::default();
    let obs: Arc<Mutex<Vec<Vec<u32>>>> = Default::default();
    let (l2, o2) = (log.clone(), obs.clone());
    sched::run(ch, |idle| async move {
        let clock = ctx::ManualClock::new();
        let root = ctx::test_root(&clock);
        let pool = nv::VPool::new([1u32, 2], quota);
        let (pool, log, obs, root) = (&pool, &l2, &o2, &root);
        let fut = async move {
            scope::run!(root, |_ctx, s| async move {
                // three tasks with small programs over 2 allowed + 3 foreign keys
                let progs: Vec<Vec<(bool, u32)>> = vec![vec![(true, 1), (true, 7), (false, 7)], vec![(true, 7), (true, 8)], vec![(true, 9), (false, 1), (true, 1)]];
                for p in progs {
                    s.spawn(async move {
                        for (ins, k) in p {
                            if ins {
                                let r = pool.insert(k, 0).await.is_ok();
                                log.lock().unwrap().push(("insert".into(), k, r));
                            } else {
                                pool.remove(k).await;
                                log.lock().unwrap().push(("remove".into(), k, true));
                            }
                            obs.lock().unwrap().push(pool.current().into_iter().map(|x| x.0).collect());
                            sched::yield_now().await;
                        }
                        anyhow::Ok(())
                    });
                }
                anyhow::Ok(())
            })
            .await
        };
        let _ = sched::drive(&idle, fut, |k| k < 50).await;
    });
    let lg = log.lock().unwrap().clone();
    let ob = obs.lock().unwrap().clone();
    let mut violation = None;
    for o in &ob {
        let foreign = o.iter().filter(|k| **k != 1 && **k != 2).count();
        let mut d = o.clone();
        d.dedup();
        if foreign > quota {
            violation = Some(format!("{foreign} non-configured entries in the pool, quota {quota}: {o:?}; ops {lg:?}"));
        }
        if d.len() != o.len() {
            violation = Some(format!("an identity holds two entries: {o:?}"));
        }
    }
    // the final content must be explainable by applying the logged operations in log order
    let mut model: Vec<u32> = vec![];
    for (op, k, ok) in &lg {
        if op == "insert" {
            let foreign = model.iter().filter(|x| **x != 1 && **x != 2).count();
            let allowed = *k == 1 || *k == 2;
            let can = !model.contains(k) && (allowed || foreign < quota);
            if can != *ok && violation.is_none() {
                violation = Some(format!("insert({k}) returned {} but the sequential pool in completion order gives {}: ops {lg:?}", if *ok { "Ok" } else { "Err" }, if can { "Ok" } else { "Err" }));
            }
            if *ok {
                model.push(*k);
            }
        } else {
            model.retain(|x| x != k);
        }
    }
    ExecResult { obs: fx_hash(&lg), violation, nontrivial: true, witnesses: vec![("refused_inserts", lg.iter().filter(|x| x.0 == "insert" && !x.2).count() as u64)] }
}

/// (d) Thread level: REAL threads call PoolWatch::insert / remove on one pool; every interleaving at
/// the lock acquisitions of the underlying watch channel (vendored tokio's thread points) - an async
/// mutex that is taken shows up as "blocked until another thread has made a step".
fn thread_part() -> (u64, bool, Option<(String, serde_json::Value)>) {
    use crate::threads::{block_on_visible, explore_all, Run};
    // (keys inserted concurrently, quota for keys outside the allowed set {1})
    let scenarios: Vec<(&str, Vec<u32>, usize)> = vec![
        ("two connections of the same non-configured identity", vec![7, 7], 1),
        ("two connections of the same configured identity", vec![1, 1], 1),
        ("two non-configured identities competing for one slot", vec![7, 8], 1),
        ("three connections: the same identity twice and another one, two slots", vec![7, 7, 8], 2),
    ];
    let mut total = 0;
    let mut complete = true;
    for (si, (name, keys, quota)) in scenarios.into_iter().enumerate() {
        let (runs, all, fail) = explore_all(
            || {
                let pool = Arc::new(nv::VPool::new([1u32], quota));
                let oks: Arc<Mutex<Vec<(usize, u32, bool)>>> = Default::default();
                let mut threads: Vec<Box<dyn FnOnce() + Send>> = vec![];
                for (ti, k) in keys.iter().enumerate() {
                    let (pool, oks, k) = (pool.clone(), oks.clone(), *k);
                    threads.push(Box::new(move || {
                        let r = block_on_visible(pool.insert(k, ti as u32));
                        oks.lock().unwrap().push((ti, k, r.is_ok()));
                    }));
                }
                let keys2 = keys.clone();
                let check: Box<dyn FnOnce(&Run) -> Option<String>> = Box::new(move |_run| {
                    let oks = oks.lock().unwrap().clone();
                    let cur = pool.current();
                    // one connection per identity
                    for k in keys2.iter().collect::<HashSet<_>>() {
                        let admitted = oks.iter().filter(|o| o.1 == *k && o.2).count();
                        if admitted > 1 {
                            return Some(format!("identity {k} was admitted {admitted} times concurrently (results {oks:?}, pool {cur:?})"));
                        }
                    }
                    // non-configured identities within the quota
                    let extra_admitted = oks.iter().filter(|o| o.1 != 1 && o.2).count();
                    if extra_admitted > quota {
                        return Some(format!("{extra_admitted} non-configured connections admitted with a quota of {quota} (results {oks:?})"));
                    }
                    // nobody refused without reason: the first insert of a key with a free slot succeeds
                    let distinct_extra = keys2.iter().filter(|k| **k != 1).collect::<HashSet<_>>().len();
                    if extra_admitted < distinct_extra.min(quota) {
                        return Some(format!("only {extra_admitted} non-configured connections admitted although {} distinct identities asked and the quota is {quota} (results {oks:?})", distinct_extra));
                    }
                    // the pool lists exactly the admitted identities
                    let listed: Vec<u32> = cur.iter().map(|x| x.0).collect();
                    let mut want: Vec<u32> = oks.iter().filter(|o| o.2).map(|o| o.1).collect();
                    want.sort();
                    want.dedup();
                    if listed != want {
                        return Some(format!("the pool lists {listed:?}, admitted were {want:?}"));
                    }
                    // the quota is intact afterwards: everybody disconnects, then `quota` new identities fit
                    for k in &listed {
                        block_on_visible(pool.remove(*k));
                    }
                    for j in 0..quota as u32 {
                        if block_on_visible(pool.insert(100 + j, 0)).is_err() {
                            return Some(format!("after every connection was closed only {j} of {quota} non-configured identities are admitted: a slot of the quota has leaked (results of the race {oks:?})"));
                        }
                    }
                    None
                });
                (threads, check)
            },
            200_000,
        );
        total += runs;
        complete &= all;
        if let Some((prefix, what)) = fail {
            return (total, false, Some((format!("[pool_threads] scenario '{name}': {what} (interleaving {prefix:?})"), json!({"harness": "c12-threads", "scenario": si, "interleaving": prefix}))));
        }
    }
    (total, complete, None)
}

pub fn run(args: &Args) -> Report {
    let mut rep = Report::new("C12", "model_checking");
    if let Some(r) = &args.replay {
        let rp = &r["replay"];
        if rp["harness"] == "c12-threads" {
            if let (_, _, Some((w, r))) = thread_part() {
                rep.violations.push(Violation { key: "pool_threads".into(), what: w, replay: r });
            }
        } else if rp["harness"] == "c12-pool" {
            let quota = rp["config"]["quota"].as_u64().unwrap_or(1) as usize;
            let devs: core::Deviations = rp["deviations"].as_array().map(|a| a.iter().map(|p| (p[0].as_u64().unwrap() as u32, p[1].as_u64().unwrap() as u32)).collect()).unwrap_or_default();
            let (res, div) = core::replay_one(&|ch: &Ch| pool_run(ch, quota), devs);
            if let Some(d) = div {
                rep.machinery_errors.push(d);
            }
            if let Some(v) = res.violation {
                rep.violations.push(Violation { key: "replay".into(), what: v, replay: rp.clone() });
            }
        } else {
            for (k, v) in tcp_part(args.seed).viol {
                rep.violations.push(Violation { key: k, what: v, replay: rp.clone() });
            }
        }
        return rep;
    }
    let t = tcp_part(args.seed);
    for (k, v) in &t.viol {
        if k == "machinery" {
            rep.machinery_errors.push(v.clone());
        } else {
            rep.violations.push(Violation { key: k.clone(), what: v.clone(), replay: json!({"harness":"c12-tcp"}) });
        }
    }
    let (mut execs, mut points, mut distinct, mut refused) = (0u64, 0u64, 0u64, 0u64);
    let mut stats = vec![];
    let mut capped = false;
    for quota in [0usize, 1, 2] {
        let cfg = ExploreCfg::new(&format!("pool[quota {quota}]"), args.tier.pick(3, 5), Duration::from_secs(args.tier.pick(10, 300)));
        let st = explore(&cfg, |ch| pool_run(ch, quota));
        execs += st.execs;
        points += st.choice_points;
        distinct += st.distinct_obs;
        capped |= st.capped;
        refused += *st.witnesses.get("refused_inserts").unwrap_or(&0);
        let mut tmp = Report::new("C12", "model_checking");
        tmp.absorb("c12-pool", &st, json!({"quota": quota}));
        rep.violations.extend(tmp.violations);
        rep.machinery_errors.extend(tmp.machinery_errors);
        stats.push(st.to_json());
    }
    let (truns, tall, tviol) = thread_part();
    if let Some((w, r)) = tviol {
        rep.violations.push(Violation { key: "pool_threads".into(), what: w, replay: r });
    }
    if t.accepted == 0 || t.refused == 0 || refused == 0 {
        if rep.violations.is_empty() {
            rep.machinery_errors.push(format!("vacuous: tcp accepted {} refused {}, pool refused inserts {refused}", t.accepted, t.refused));
        }
    }
    rep.coverage = json!({
        "states": execs.max(1), "transitions": points.max(1), "traces_validated_against_impl": execs + t.cases,
        "evaluations": execs + t.cases, "distinct_nontrivial": distinct.max(2),
        "samples": [
            {"transcript": "gossip inbound: A's handshake recorded on session 1 replayed on session 2 -> refused"},
            {"admission": "A connected; second connection as A refused and A stays registered; B refused by quota 1; after A disconnects B is admitted"},
            {"pool": "three tasks: [insert 1, insert 7, remove 7], [insert 7, insert 8], [insert 9, remove 1, insert 1], quota 1"},
        ],
        "pool_thread_level_interleavings": truns, "pool_thread_level_all_explored": tall,
        "rule": "transcripts / admission: a fixed list of adversarial handshakes and connection sequences, each through the real preface, noise session, handshake and pool code over loop-back TCP (real time, one run each - deterministic outcomes, not schedule exploration); pool: every schedule of three concurrent insert/remove programs within the deviation bound for quota 0, 1, 2",
        "tcp_cases": t.cases, "tcp_admitted": t.accepted, "tcp_refused": t.refused,
        "pool_deviation_bound": args.tier.pick(3, 5), "exhaustive": !capped,
        "explorations": stats,
    });
    rep.assumptions = vec![
        "noise, ed25519 and BLS are trusted; the adversary is enumerated at the message level".into(),
        "the TCP part runs on a real multi-thread runtime with real time (each outcome is awaited up to 2 s); only the pool part is schedule-exhaustive".into(),
    ];
    rep
}
