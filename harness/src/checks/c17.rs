//! C17 — task scopes join every task, report a first failure and cancel the rest.
//! E2: every program of a generated finite family of task trees is run on the real
//! `scope::run!` under the controlled scheduler, for every schedule within a deviation bound.
//! Blocking tasks (`spawn_blocking`, `run_blocking!`) run on real threads and are therefore only
//! oracle-checked on repeated uncontrolled runs (reported separately, not exhaustive).
use std::{
    future::Future,
    pin::Pin,
    sync::{Arc, Mutex},
    task::{Context, Poll},
    time::Duration,
};

use serde_json::json;
use zksync_concurrency::{ctx, scope, sync, time};

use crate::{
    core::{self, explore, fx_hash, Ch, ExecResult, ExploreCfg, Report, Violation},
    sched, Args,
};

#[derive(Clone, Copy, Debug, PartialEq, Eq, Hash)]
pub enum Body {
    Ok,
    Err,
    Panic,
    WaitOk,
    WaitErr,
}

#[derive(Clone, Debug, PartialEq, Eq, Hash)]
pub enum Pre {
    None,
    /// spawn a child task in the same scope first
    Spawn(Box<Node>),
    /// run a nested scope first: (task spawned inside, body of the nested root)
    Nested(Box<Node>, Body),
}

#[derive(Clone, Debug, PartialEq, Eq, Hash)]
pub struct Node {
    pub main: bool,
    pub pre: Pre,
    pub body: Body,
    /// a blocking task (`spawn_blocking` / `spawn_bg_blocking`; a nested scope inside it is `run_blocking!`)
    pub blocking: bool,
}

#[derive(Clone, Copy, Debug, PartialEq, Eq, Hash)]
pub enum Mode {
    /// caller's context stays active unless the harness must cancel it to finish
    Plain,
    /// caller's context is cancelled while the scope is running (at the first idle point)
    CallerCancel,
    /// caller's context has a deadline which passes while the scope is running
    Deadline,
    /// caller's context is already cancelled when the scope starts
    AlreadyCancelled,
    /// like Plain, but the caller's context carries a deadline that is never reached
    FarDeadline,
}

#[derive(Clone, Debug, PartialEq, Eq, Hash)]
pub struct Program {
    pub children: Vec<Node>,
    pub root: Body,
    pub mode: Mode,
    /// the outer scope is `wait_blocking(|| run_blocking!(..))` with a blocking root instead of `run!`
    pub root_blocking: bool,
}

#[derive(Clone, Debug, PartialEq)]
enum Ev {
    ScopeStart { scope: u32, parent: u32 },
    /// the harness cancelled the caller's context (or let its deadline pass)
    CallerCancelled,
    Spawn { scope: u32, task: u32, main: bool },
    Start { task: u32 },
    SawCancel { task: u32 },
    End { task: u32, scope: u32, outcome: &'static str },
    ScopeEnd { scope: u32, result: String },
}

type Log = Arc<Mutex<Vec<Ev>>>;

#[derive(Default)]
struct Ids {
    next_task: u32,
    next_scope: u32,
}

type BoxFut<'a, T> = Pin<Box<dyn Future<Output = T> + Send + 'a>>;

struct Env {
    log: Log,
    ids: Mutex<Ids>,
    /// identity of this execution (program index, thorough family, deviations, program) for a verdict that
    /// has to be issued from inside the execution
    ident: (usize, bool, core::Deviations, String),
}

impl Env {
    fn ev(&self, e: Ev) {
        self.log.lock().unwrap().push(e);
    }
    fn task_id(&self) -> u32 {
        let mut g = self.ids.lock().unwrap();
        g.next_task += 1;
        g.next_task
    }
    /// Logs that `run!` / `run_blocking!` of `scope` has been left (returned or re-raised a panic). If a task of
    /// that scope has not finished, the property is violated *and* continuing is undefined behaviour (the task
    /// borrows the frame that has just been left): the verdict is issued at once and the process ends.
    fn scope_left(&self, scope: u32, result: String) {
        self.ev(Ev::ScopeEnd { scope, result: result.clone() });
        let lg = self.log.lock().unwrap().clone();
        for ev in &lg {
            let Ev::Spawn { scope: sc, task, .. } = ev else { continue };
            if *sc != scope || lg.iter().any(|e| matches!(e, Ev::End { task: t, .. } if t == task)) {
                continue;
            }
            let (idx, thorough, devs, prog) = &self.ident;
            let what = format!("scope {scope} was left (result {result}) before its task {task} finished\n  program: {prog}\n  events: {lg:?}");
            core::early_verdict(
                "C17",
                &format!("c17:scope {scope} was left before its task finished"),
                what,
                json!({"harness": "c17", "config": {"program_index": idx, "thorough": thorough, "program": prog}, "deviations": devs}),
                "a scope was left while one of its tasks was still running: the task borrows the frame that was left, so running on would be undefined behaviour",
            );
        }
    }
    fn scope_id(&self) -> u32 {
        let mut g = self.ids.lock().unwrap();
        g.next_scope += 1;
        g.next_scope
    }
}

async fn run_body(ctx: &ctx::Ctx, env: &Env, task: u32, scope_id: u32, body: Body) -> Result<(), u32> {
    match body {
        Body::Ok => {
            sched::yield_now().await;
            env.ev(Ev::End { task, scope: scope_id, outcome: "ok" });
            Ok(())
        }
        Body::Err => {
            sched::yield_now().await;
            env.ev(Ev::End { task, scope: scope_id, outcome: "err" });
            Err(task)
        }
        Body::Panic => {
            sched::yield_now().await;
            env.ev(Ev::End { task, scope: scope_id, outcome: "panic" });
            panic!("task {task} panics");
        }
        Body::WaitOk => {
            ctx.canceled().await;
            env.ev(Ev::SawCancel { task });
            env.ev(Ev::End { task, scope: scope_id, outcome: "ok" });
            Ok(())
        }
        Body::WaitErr => {
            ctx.canceled().await;
            env.ev(Ev::SawCancel { task });
            env.ev(Ev::End { task, scope: scope_id, outcome: "err" });
            Err(task)
        }
    }
}

fn spawn_node<'env>(ctx: &'env ctx::Ctx, s: &'env scope::Scope<'env, u32>, env: &'env Env, scope_id: u32, node: &'env Node) {
    let task = env.task_id();
    env.ev(Ev::Spawn { scope: scope_id, task, main: node.main });
    if node.blocking {
        if node.main {
            s.spawn_blocking(move || run_node_blocking(ctx, s, env, scope_id, task, node));
        } else {
            s.spawn_bg_blocking(move || run_node_blocking(ctx, s, env, scope_id, task, node));
        }
        return;
    }
    let fut = run_node(ctx, s, env, scope_id, task, node);
    if node.main {
        s.spawn(fut);
    } else {
        s.spawn_bg(fut);
    }
}

/// A blocking task's only way to wait: `Handle::block_on` (what `ctx::block_on` / `CtxAware::block` do). Under
/// the blocking gate of the vendored tokio this hands control back to the scheduler when the future is pending.
fn block_on<F: Future>(f: F) -> F::Output {
    tokio::runtime::Handle::current().block_on(f)
}

fn run_body_blocking(ctx: &ctx::Ctx, env: &Env, task: u32, scope_id: u32, body: Body) -> Result<(), u32> {
    match body {
        Body::Ok => {
            block_on(sched::yield_now());
            env.ev(Ev::End { task, scope: scope_id, outcome: "ok" });
            Ok(())
        }
        Body::Err => {
            block_on(sched::yield_now());
            env.ev(Ev::End { task, scope: scope_id, outcome: "err" });
            Err(task)
        }
        Body::Panic => {
            block_on(sched::yield_now());
            env.ev(Ev::End { task, scope: scope_id, outcome: "panic" });
            panic!("task {task} panics");
        }
        Body::WaitOk => {
            ctx.canceled().block();
            env.ev(Ev::SawCancel { task });
            env.ev(Ev::End { task, scope: scope_id, outcome: "ok" });
            Ok(())
        }
        Body::WaitErr => {
            ctx.canceled().block();
            env.ev(Ev::SawCancel { task });
            env.ev(Ev::End { task, scope: scope_id, outcome: "err" });
            Err(task)
        }
    }
}

fn run_node_blocking<'env>(ctx: &'env ctx::Ctx, s: &'env scope::Scope<'env, u32>, env: &'env Env, scope_id: u32, task: u32, node: &'env Node) -> Result<(), u32> {
    env.ev(Ev::Start { task });
    match &node.pre {
        Pre::None => {}
        Pre::Spawn(child) => spawn_node(ctx, s, env, scope_id, child),
        Pre::Nested(child, root_body) => {
            let r = std::panic::catch_unwind(std::panic::AssertUnwindSafe(|| run_scope_blocking(ctx, env, scope_id, std::slice::from_ref(&**child), *root_body)));
            match r {
                Err(_) => {
                    env.ev(Ev::End { task, scope: scope_id, outcome: "panic" });
                    panic!("task {task}: nested scope panicked");
                }
                Ok(Err(e)) => {
                    env.ev(Ev::End { task, scope: scope_id, outcome: "err" });
                    return Err(e);
                }
                Ok(Ok(())) => {}
            }
        }
    }
    run_body_blocking(ctx, env, task, scope_id, node.body)
}

/// Runs one real blocking scope (`run_blocking!`) with the given children and a blocking root. Panics propagate.
fn run_scope_blocking(ctx: &ctx::Ctx, env: &Env, parent: u32, children: &[Node], root: Body) -> Result<(), u32> {
    let scope_id = env.scope_id();
    env.ev(Ev::ScopeStart { scope: scope_id, parent });
    let root_task = env.task_id();
    env.ev(Ev::Spawn { scope: scope_id, task: root_task, main: true });
    let res = std::panic::catch_unwind(std::panic::AssertUnwindSafe(|| {
        scope::run_blocking!(ctx, |ctx, s| {
            env.ev(Ev::Start { task: root_task });
            for c in children {
                spawn_node(ctx, s, env, scope_id, c);
            }
            run_body_blocking(ctx, env, root_task, scope_id, root)
        })
    }));
    match res {
        Ok(res) => {
            env.scope_left(scope_id, format!("{res:?}"));
            res
        }
        Err(p) => {
            env.scope_left(scope_id, "panic".into());
            std::panic::resume_unwind(p)
        }
    }
}

fn run_node<'env>(ctx: &'env ctx::Ctx, s: &'env scope::Scope<'env, u32>, env: &'env Env, scope_id: u32, task: u32, node: &'env Node) -> BoxFut<'env, Result<(), u32>> {
    Box::pin(async move {
        env.ev(Ev::Start { task });
        match &node.pre {
            Pre::None => {}
            Pre::Spawn(child) => spawn_node(ctx, s, env, scope_id, child),
            Pre::Nested(child, root_body) => {
                let r = CatchUnwind(Box::pin(run_scope(ctx, env, scope_id, std::slice::from_ref(&**child), *root_body))).await;
                match r {
                    Err(_) => {
                        // the nested scope re-raised a panic: this task panics too
                        env.ev(Ev::End { task, scope: scope_id, outcome: "panic" });
                        panic!("task {task}: nested scope panicked");
                    }
                    Ok(Err(e)) => {
                        env.ev(Ev::End { task, scope: scope_id, outcome: "err" });
                        return Err(e);
                    }
                    Ok(Ok(())) => {}
                }
            }
        }
        run_body(ctx, env, task, scope_id, node.body).await
    })
}

/// Runs one real scope with the given children and root body. Panics propagate.
fn run_scope<'a>(ctx: &'a ctx::Ctx, env: &'a Env, parent: u32, children: &'a [Node], root: Body) -> BoxFut<'a, Result<(), u32>> {
    Box::pin(async move {
        let scope_id = env.scope_id();
        env.ev(Ev::ScopeStart { scope: scope_id, parent });
        let root_task = env.task_id();
        env.ev(Ev::Spawn { scope: scope_id, task: root_task, main: true });
        let res = CatchUnwind(Box::pin(scope::run!(ctx, |ctx, s| async move {
            env.ev(Ev::Start { task: root_task });
            for c in children {
                spawn_node(ctx, s, env, scope_id, c);
            }
            run_body(ctx, env, root_task, scope_id, root).await
        })))
        .await;
        let res = match res {
            Ok(res) => res,
            Err(_) => {
                env.scope_left(scope_id, "panic".into());
                panic!("scope {scope_id} re-raised a panic");
            }
        };
        env.scope_left(scope_id, format!("{res:?}"));
        res
    })
}

/// Polls the inner future, converting a panic into Err(message).
struct CatchUnwind<F>(Pin<Box<F>>);
impl<F: Future> Future for CatchUnwind<F> {
    type Output = Result<F::Output, String>;
    fn poll(mut self: Pin<&mut Self>, cx: &mut Context<'_>) -> Poll<Self::Output> {
        let inner = &mut self.0;
        match std::panic::catch_unwind(std::panic::AssertUnwindSafe(|| inner.as_mut().poll(cx))) {
            Ok(Poll::Pending) => Poll::Pending,
            Ok(Poll::Ready(v)) => Poll::Ready(Ok(v)),
            Err(_) => Poll::Ready(Err("panic".into())),
        }
    }
}

#[derive(Debug)]
enum Final {
    Returned(Result<(), u32>),
    Panicked,
    Stuck(&'static str),
}

/// Reference model evaluated on the event log.
fn oracle(p: &Program, log: &[Ev], fin: &Final, cancel_was_forced: bool) -> Option<String> {
    // scope 1 is the program's outer scope
    let end_pos = log.iter().position(|e| matches!(e, Ev::ScopeEnd { scope: 1, .. }));
    // (1) the scope returns only after every task spawned in it (transitively) has finished
    let spawned: Vec<u32> = log.iter().filter_map(|e| if let Ev::Spawn { task, .. } = e { Some(*task) } else { None }).collect();
    if let (Some(ep), Final::Returned(_) | Final::Panicked) = (end_pos.or(Some(log.len())), fin) {
        for t in &spawned {
            let ended = log[..ep].iter().any(|e| matches!(e, Ev::End { task, .. } if task == t));
            if !ended {
                return Some(format!("scope returned before task {t} finished"));
            }
        }
    }
    // (1b) the same for every nested scope: when `run!` / `run_blocking!` is left - by returning or by re-raising a
    // panic - every task spawned in that scope has finished
    for (i, e) in log.iter().enumerate() {
        let Ev::ScopeEnd { scope: sc, result } = e else { continue };
        for ev in log.iter() {
            let Ev::Spawn { scope, task, .. } = ev else { continue };
            if scope != sc {
                continue;
            }
            if !log[..i].iter().any(|e| matches!(e, Ev::End { task: t, .. } if t == task)) {
                return Some(format!("scope {sc} was left (result {result}) before its task {task} finished"));
            }
        }
    }
    // failures in scope 1, in order
    let failures: Vec<(u32, &'static str)> = log.iter().filter_map(|e| if let Ev::End { task, scope: 1, outcome } = e { if *outcome != "ok" { Some((*task, *outcome)) } else { None } } else { None }).collect();
    let any_panic_anywhere = log.iter().any(|e| matches!(e, Ev::End { outcome: "panic", .. }));
    match fin {
        Final::Stuck(why) => return Some(format!("{why}")),
        Final::Panicked => {
            if !any_panic_anywhere {
                return Some("scope panicked although no task panicked".into());
            }
        }
        Final::Returned(r) => {
            // a panic in a task of scope 1 (or propagated from a nested scope into its task) must be re-raised
            if log.iter().any(|e| matches!(e, Ev::End { scope: 1, outcome: "panic", .. })) {
                return Some(format!("a task panicked but scope::run! returned {r:?} instead of re-raising the panic"));
            }
            if any_panic_anywhere {
                return Some(format!("a task of a nested scope panicked but the outer scope returned {r:?}"));
            }
            match (r, failures.first()) {
                (Ok(()), None) => {}
                (Ok(()), Some((t, _))) => return Some(format!("task {t} failed but scope::run! returned Ok")),
                (Err(e), None) => return Some(format!("scope::run! returned Err({e}) although no task failed")),
                (Err(e), Some((first, _))) => {
                    if e != first {
                        // an error of a nested scope is reported under the id of the failing inner task
                        let is_nested_origin = log.iter().any(|ev| matches!(ev, Ev::End { task, outcome, scope } if task == e && *outcome == "err" && *scope != 1));
                        let first_is_wrapper = is_nested_origin;
                        if !first_is_wrapper {
                            return Some(format!("scope::run! returned Err({e}) but task {first} failed strictly before it"));
                        }
                    }
                }
            }
        }
    }
    // (4) no spurious cancellation: a task observes its context cancelled only when a task of its scope or
    // of an enclosing scope has failed, all main tasks of its scope or of an enclosing scope have ended,
    // or the caller's context was cancelled / its deadline passed
    let parent_of: std::collections::BTreeMap<u32, u32> = log.iter().filter_map(|e| if let Ev::ScopeStart { scope, parent } = e { Some((*scope, *parent)) } else { None }).collect();
    let scope_of_task: std::collections::BTreeMap<u32, u32> = log.iter().filter_map(|e| if let Ev::Spawn { scope, task, .. } = e { Some((*task, *scope)) } else { None }).collect();
    for (i, e) in log.iter().enumerate() {
        let Ev::SawCancel { task } = e else { continue };
        let prefix = &log[..i];
        if prefix.iter().any(|e| matches!(e, Ev::CallerCancelled)) {
            continue;
        }
        let mut sc = *scope_of_task.get(task).unwrap_or(&0);
        let mut justified = false;
        while sc != 0 {
            let failed = prefix.iter().any(|e| matches!(e, Ev::End { scope, outcome, .. } if *scope == sc && *outcome != "ok"));
            // cancellation is sticky: it is enough that all main tasks spawned so far had ended at some earlier moment
            if failed || (0..=prefix.len()).any(|j| mains_done(&prefix[..j], sc)) {
                justified = true;
                break;
            }
            sc = *parent_of.get(&sc).unwrap_or(&0);
        }
        if !justified {
            return Some(format!("task {task} observed its scope's context cancelled although no task of its scope (or of an enclosing scope) had failed, main tasks were still running and the caller's context was active"));
        }
    }
    // (3) lost cancellation is detected at run time: the harness only cancels the caller when no
    // cancellation is due; an idle system with a due cancellation is reported as `Stuck`.
    let _ = (p, cancel_was_forced);
    None
}

fn mains_done(log: &[Ev], scope: u32) -> bool {
    let mains: Vec<u32> = log.iter().filter_map(|e| if let Ev::Spawn { scope: s, task, main: true } = e { if *s == scope { Some(*task) } else { None } } else { None }).collect();
    !mains.is_empty() && mains.iter().all(|t| log.iter().any(|e| matches!(e, Ev::End { task, .. } if task == t)))
}

fn run_program(ch: &Ch, p: &Program, idx: usize, thorough: bool) -> ExecResult {
    let log: Log = Default::default();
    let env = Env { log: log.clone(), ids: Default::default(), ident: (idx, thorough, ch.borrow().deviations(), format!("{p:?}")) };
    // blocking tasks run under the blocking gate of the vendored tokio: one thread at a time, the chooser
    // decides when each blocking closure starts and continues
    struct GateOff;
    impl Drop for GateOff {
        fn drop(&mut self) {
            tokio::verif_sched::set_gate(false);
        }
    }
    tokio::verif_sched::set_gate(true);
    let _gate_off = GateOff;
    let (fin, forced) = sched::run(ch, |idle| async move {
        let clock = ctx::ManualClock::new();
        let root = ctx::test_root(&clock);
        let cancel_now = Arc::new(sync::Notify::new());
        let env = &env;
        let idle = &idle;
        let clock = &clock;
        let cancel_now2 = cancel_now.clone();
        let out: Result<(Final, bool), u32> = scope::run!(&root, |ctx, s| async move {
            // infrastructure: a task that cancels the caller's context on request
            s.spawn_bg(async move {
                if sync::notified(ctx, &cancel_now2).await.is_ok() {
                    s.cancel();
                }
                Ok(())
            });
            if p.mode == Mode::AlreadyCancelled {
                env.ev(Ev::CallerCancelled);
                s.cancel();
            }
            let deadline_ctx;
            let caller: &ctx::Ctx = if p.mode == Mode::Deadline {
                deadline_ctx = ctx.with_timeout(time::Duration::seconds(10));
                &deadline_ctx
            } else if p.mode == Mode::FarDeadline {
                deadline_ctx = ctx.with_timeout(time::Duration::seconds(1_000_000));
                &deadline_ctx
            } else {
                ctx
            };
            let body: BoxFut<'_, Result<(), u32>> = if p.root_blocking {
                Box::pin(scope::wait_blocking(move || run_scope_blocking(caller, env, 0, &p.children, p.root)))
            } else {
                run_scope(caller, env, 0, &p.children, p.root)
            };
            let mut fut = CatchUnwind(Box::pin(body));
            let mut forced = false;
            let mut idles = 0;
            let mut seen = idle.generation();
            let mut fin = loop {
                let step = std::future::poll_fn(|cx| {
                    if let Poll::Ready(r) = Pin::new(&mut fut).poll(cx) {
                        return Poll::Ready(Some(r));
                    }
                    match idle.poll_since(seen, cx) {
                        Poll::Ready(g) => {
                            seen = g;
                            Poll::Ready(None)
                        }
                        Poll::Pending => Poll::Pending,
                    }
                })
                .await;
                match step {
                    Some(Ok(r)) => break Final::Returned(r),
                    Some(Err(_)) => break Final::Panicked,
                    None => {
                        // the system is idle and the scope has not returned
                        idles += 1;
                        let lg = env.log.lock().unwrap().clone();
                        let failure = lg.iter().any(|e| matches!(e, Ev::End { outcome, .. } if *outcome != "ok"));
                        let scopes: Vec<u32> = lg.iter().filter_map(|e| if let Ev::ScopeStart { scope, .. } = e { Some(*scope) } else { None }).collect();
                        let live: Vec<u32> = scopes.into_iter().filter(|s| !lg.iter().any(|e| matches!(e, Ev::ScopeEnd { scope, .. } if scope == s))).collect();
                        let due = failure || live.iter().any(|s| mains_done(&lg, *s));
                        if idles == 1 && !due {
                            env.ev(Ev::CallerCancelled);
                            match p.mode {
                                Mode::Deadline => clock.advance(time::Duration::seconds(11)),
                                _ => cancel_now.notify_one(),
                            }
                            forced = p.mode == Mode::Plain || p.mode == Mode::FarDeadline;
                            continue;
                        }
                        if idles == 1 && due {
                            std::mem::forget(fut);
                            break Final::Stuck("deadlock: cancellation was due (a task failed or all main tasks of a scope completed) but some task is still waiting for it");
                        }
                        std::mem::forget(fut);
                        break Final::Stuck("deadlock: the caller's context was cancelled (or its deadline passed) but the scope did not return - cancellation did not reach every descendant");
                    }
                }
            };
            // the scope's own cancellation (failure, completion) is the scope's business: the caller's
            // context is cancelled only by the caller
            let caller_cancelled_by_harness = env.log.lock().unwrap().iter().any(|e| matches!(e, Ev::CallerCancelled));
            if matches!(fin, Final::Returned(_) | Final::Panicked) && !caller_cancelled_by_harness && !caller.is_active() {
                fin = Final::Stuck("the caller's context is cancelled after scope::run! returned although nobody cancelled it and its deadline has not passed: the scope cancelled its caller's context");
            }
            Ok((fin, forced))
        })
        .await;
        out.expect("outer scope")
    });
    let lg = log.lock().unwrap().clone();
    let violation = oracle(p, &lg, &fin, forced).map(|v| format!("{v}\n  program: {p:?}\n  events: {lg:?}\n  outcome: {fin:?}"));
    let obs = fx_hash(&format!("{lg:?}{fin:?}"));
    ExecResult { obs, violation, nontrivial: true, witnesses: vec![("panicked", matches!(fin, Final::Panicked) as u64), ("returned_err", matches!(fin, Final::Returned(Err(_))) as u64), ("forced_cancel", forced as u64)] }
}

const BODIES: [Body; 5] = [Body::Ok, Body::Err, Body::Panic, Body::WaitOk, Body::WaitErr];

fn programs(thorough: bool) -> Vec<Program> {
    let simple: Vec<Node> = [true, false].iter().flat_map(|m| BODIES.iter().map(move |b| Node { main: *m, pre: Pre::None, body: *b, blocking: false })).collect();
    let then_bodies = [Body::Ok, Body::Err, Body::WaitOk];
    let mut complex: Vec<Node> = vec![];
    for main in [true, false] {
        for gm in [true, false] {
            for gb in BODIES {
                for tb in then_bodies {
                    complex.push(Node { main, pre: Pre::Spawn(Box::new(Node { main: gm, pre: Pre::None, body: gb, blocking: false })), body: tb, blocking: false });
                    complex.push(Node { main, pre: Pre::Nested(Box::new(Node { main: gm, pre: Pre::None, body: gb, blocking: false }), if gm { Body::Ok } else { Body::WaitOk }), body: tb, blocking: false });
                }
            }
        }
    }
    let mut out = vec![];
    let modes: &[Mode] = &[Mode::Plain, Mode::CallerCancel, Mode::Deadline, Mode::AlreadyCancelled, Mode::FarDeadline];
    for &mode in modes {
        for root in BODIES {
            // zero / one / two simple children
            out.push(Program { children: vec![], root, mode, root_blocking: false });
            for a in &simple {
                out.push(Program { children: vec![a.clone()], root, mode, root_blocking: false });
                if mode == Mode::Plain || thorough {
                    for b in &simple {
                        out.push(Program { children: vec![a.clone(), b.clone()], root, mode, root_blocking: false });
                    }
                }
            }
            // one complex child (+ one simple child)
            if mode == Mode::Plain || mode == Mode::CallerCancel || mode == Mode::FarDeadline || thorough {
                for c in &complex {
                    out.push(Program { children: vec![c.clone()], root, mode, root_blocking: false });
                    if thorough || (mode == Mode::Plain && matches!(root, Body::Ok | Body::WaitOk)) {
                        for b in simple.iter().filter(|b| thorough || matches!(b.body, Body::Err | Body::Panic | Body::WaitErr)) {
                            out.push(Program { children: vec![c.clone(), b.clone()], root, mode, root_blocking: false });
                        }
                    }
                }
            }
        }
    }
    if thorough {
        // three simple children
        for root in [Body::Ok, Body::WaitOk, Body::Err] {
            for a in &simple {
                for b in &simple {
                    for c in &simple {
                        out.push(Program { children: vec![a.clone(), b.clone(), c.clone()], root, mode: Mode::Plain, root_blocking: false });
                    }
                }
            }
        }
    }
    out
}

/// Programs with at least one *blocking* task (`spawn_blocking` / `spawn_bg_blocking` / `run_blocking!` /
/// `wait_blocking`), explored under the blocking gate like the async family.
fn programs_blocking(thorough: bool) -> Vec<Program> {
    let simple: Vec<Node> = [true, false]
        .iter()
        .flat_map(|m| BODIES.iter().flat_map(move |b| [false, true].into_iter().map(move |bl| Node { main: *m, pre: Pre::None, body: *b, blocking: bl })))
        .collect();
    let then_bodies = [Body::Ok, Body::Err, Body::WaitOk];
    let mut complex: Vec<Node> = vec![];
    for main in [true, false] {
        for gm in [true, false] {
            for gb in BODIES {
                for tb in then_bodies {
                    for (pb, cb) in [(true, true), (true, false), (false, true)] {
                        complex.push(Node { main, pre: Pre::Spawn(Box::new(Node { main: gm, pre: Pre::None, body: gb, blocking: cb })), body: tb, blocking: pb });
                        // a nested scope is run!() in an async task and run_blocking!() in a blocking task
                        complex.push(Node { main, pre: Pre::Nested(Box::new(Node { main: gm, pre: Pre::None, body: gb, blocking: cb }), if gm { Body::Ok } else { Body::WaitOk }), body: tb, blocking: pb });
                    }
                }
            }
        }
    }
    fn has_blocking(n: &Node) -> bool {
        n.blocking
            || match &n.pre {
                Pre::None => false,
                Pre::Spawn(c) | Pre::Nested(c, _) => has_blocking(c),
            }
    }
    let mut out = vec![];
    let modes: &[Mode] = &[Mode::Plain, Mode::CallerCancel, Mode::Deadline, Mode::AlreadyCancelled, Mode::FarDeadline];
    for &mode in modes {
        for root in BODIES {
            for root_blocking in [false, true] {
                let keep = |p: &Program| p.root_blocking || p.children.iter().any(has_blocking);
                let mut push = |p: Program| {
                    if keep(&p) {
                        out.push(p)
                    }
                };
                push(Program { children: vec![], root, mode, root_blocking });
                for a in &simple {
                    push(Program { children: vec![a.clone()], root, mode, root_blocking });
                    // quick: two blocking children, root Ok / Err
                    let two = if thorough { mode == Mode::Plain || mode == Mode::CallerCancel } else { mode == Mode::Plain && a.blocking && matches!(root, Body::Ok | Body::Err) };
                    if two {
                        for b in simple.iter().filter(|b| thorough || b.blocking) {
                            push(Program { children: vec![a.clone(), b.clone()], root, mode, root_blocking });
                        }
                    }
                }
                // quick: one complex child whose flavour is that of the root, root Ok / WaitOk, caller passive
                let cx = if thorough { true } else { mode == Mode::Plain && matches!(root, Body::Ok | Body::WaitOk) };
                if cx {
                    for c in complex.iter().filter(|c| thorough || c.blocking == root_blocking) {
                        push(Program { children: vec![c.clone()], root, mode, root_blocking });
                        if thorough && mode == Mode::Plain && matches!(root, Body::Ok | Body::WaitOk) {
                            for b in simple.iter().filter(|b| b.blocking && matches!(b.body, Body::Err | Body::Panic | Body::WaitErr)) {
                                push(Program { children: vec![c.clone(), b.clone()], root, mode, root_blocking });
                            }
                        }
                    }
                }
            }
        }
    }
    out
}

// ---------------------------------------------------------------------------------------------

// A task "has finished" only when its routine has been destroyed too: a routine may own state whose
// destructor still touches what the scope's caller lends to it. Sampled on a real multi-thread runtime:
// a hand-written future that completes at its first poll and owns a guard whose destructor takes 150 ms.
fn destructor_runs() -> (u64, Option<String>) {
    struct SlowDrop(Arc<std::sync::atomic::AtomicBool>);
    impl Drop for SlowDrop {
        fn drop(&mut self) {
            std::thread::sleep(std::time::Duration::from_millis(150));
            self.0.store(true, std::sync::atomic::Ordering::SeqCst);
        }
    }
    struct Routine(Option<SlowDrop>, Result<(), u32>);
    impl std::future::Future for Routine {
        type Output = Result<(), u32>;
        fn poll(self: std::pin::Pin<&mut Self>, _cx: &mut std::task::Context<'_>) -> std::task::Poll<Self::Output> {
            // completes at once; the guard stays inside the (completed) routine until the routine is dropped
            std::task::Poll::Ready(self.1)
        }
    }
    let mut runs = 0;
    for bg in [false, true] {
        for fails in [false, true] {
            runs += 1;
            let done = Arc::new(std::sync::atomic::AtomicBool::new(false));
            let d2 = done.clone();
            let rt = tokio::runtime::Builder::new_multi_thread().worker_threads(2).enable_time().build().unwrap();
            let clock = ctx::ManualClock::new();
            let root = ctx::test_root(&clock);
            let res: Result<(), u32> = rt.block_on(async {
                scope::run!(&root, |_ctx, s| async move {
                    let r = Routine(Some(SlowDrop(d2)), if fails { Err(5) } else { Ok(()) });
                    if bg {
                        s.spawn_bg(r);
                    } else {
                        s.spawn(r);
                    }
                    // let the task start on the other worker before the root returns
                    tokio::time::sleep(std::time::Duration::from_millis(20)).await;
                    Ok(())
                })
                .await
            });
            let destroyed = done.load(std::sync::atomic::Ordering::SeqCst);
            drop(rt);
            if !destroyed {
                return (runs, Some(format!("scope::run! returned {res:?} while the routine of a {} task (result {}) was still being destroyed: its destructor had not finished", if bg { "background" } else { "main" }, if fails { "Err(5)" } else { "Ok" })));
            }
        }
    }
    (runs, None)
}

// Blocking tasks: uncontrolled real threads, oracle only (sampled, not exhaustive).

fn blocking_runs(iterations: usize) -> (u64, Option<String>) {
    let mut runs = 0;
    core::quiet_all(true);
    for it in 0..iterations {
        for case in 0..8 {
            runs += 1;
            let log: Arc<Mutex<Vec<(u32, &'static str)>>> = Default::default();
            let l2 = log.clone();
            let r = core::catch(|| {
                let rt = tokio::runtime::Builder::new_multi_thread().worker_threads(2).max_blocking_threads(8).build().unwrap();
                let clock = ctx::ManualClock::new();
                let root = ctx::test_root(&clock);
                let res: Result<u32, u32> = rt.block_on(async {
                    scope::run!(&root, |ctx, s| async move {
                        let l = l2.clone();
                        // a blocking task waiting for cancellation
                        s.spawn_bg_blocking(move || {
                            while ctx.is_active() {
                                std::thread::yield_now();
                            }
                            l.lock().unwrap().push((1, "ok"));
                            if case == 3 {
                                return Err(1);
                            }
                            Ok(())
                        });
                        let l = l2.clone();
                        match case {
                            0 => {
                                s.spawn_blocking(move || {
                                    l.lock().unwrap().push((2, "ok"));
                                    Ok::<(), u32>(())
                                });
                            }
                            1 | 3 => {
                                s.spawn_blocking(move || {
                                    l.lock().unwrap().push((2, "err"));
                                    Err::<(), u32>(2)
                                });
                            }
                            2 => {
                                s.spawn_blocking(move || -> Result<(), u32> {
                                    l.lock().unwrap().push((2, "panic"));
                                    panic!("blocking task panics")
                                });
                            }
                            4 => {
                                // nested blocking scope inside a blocking task
                                s.spawn_blocking(move || {
                                    let r: Result<(), u32> = scope::run_blocking!(ctx, |ctx, s| {
                                        let l3 = l.clone();
                                        s.spawn_bg(async move {
                                            ctx.canceled().await;
                                            l3.lock().unwrap().push((3, "ok"));
                                            Ok(())
                                        });
                                        l.lock().unwrap().push((2, "err"));
                                        Err(2)
                                    });
                                    r
                                });
                            }
                            6 | 7 => {
                                // a nested blocking scope whose ROOT panics (6) / returns Ok (7) while a
                                // background blocking task of that scope is still busy (it notices the
                                // cancellation, works for 30 ms more, then ends): run_blocking! must not be
                                // left - by return or by unwinding - before that task has ended
                                s.spawn_blocking(move || {
                                    struct Left(Arc<Mutex<Vec<(u32, &'static str)>>>);
                                    impl Drop for Left {
                                        fn drop(&mut self) {
                                            self.0.lock().unwrap().push((4, "left the nested scope"));
                                        }
                                    }
                                    let _left = Left(l.clone());
                                    let r: Result<(), u32> = scope::run_blocking!(ctx, |ctx, s| {
                                        let l3 = l.clone();
                                        let started = Arc::new(std::sync::atomic::AtomicBool::new(false));
                                        let st2 = started.clone();
                                        s.spawn_bg_blocking(move || {
                                            st2.store(true, std::sync::atomic::Ordering::SeqCst);
                                            while ctx.is_active() {
                                                std::thread::yield_now();
                                            }
                                            std::thread::sleep(std::time::Duration::from_millis(30));
                                            l3.lock().unwrap().push((3, "ok"));
                                            Ok(())
                                        });
                                        while !started.load(std::sync::atomic::Ordering::SeqCst) {
                                            std::thread::yield_now();
                                        }
                                        if case == 6 {
                                            l.lock().unwrap().push((2, "panic"));
                                            panic!("root of a blocking scope panics");
                                        }
                                        l.lock().unwrap().push((2, "ok"));
                                        Ok(())
                                    });
                                    r
                                });
                            }
                            _ => {
                                let r = scope::wait_blocking(move || {
                                    l.lock().unwrap().push((2, "ok"));
                                    7u32
                                })
                                .await;
                                return Ok(r);
                            }
                        }
                        Ok(0)
                    })
                    .await
                });
                res
            });
            let lg = log.lock().unwrap().clone();
            let all_ended = lg.iter().any(|e| e.0 == 1) && lg.iter().any(|e| e.0 == 2) && (!matches!(case, 4 | 6 | 7) || lg.iter().any(|e| e.0 == 3));
            let left_early = matches!(case, 6 | 7) && match (lg.iter().position(|e| e.0 == 3), lg.iter().position(|e| e.0 == 4)) {
                (Some(ended), Some(left)) => left < ended,
                (None, Some(_)) => true,
                _ => false,
            };
            let bad = match (case, &r) {
                (_, _) if left_early => Some(format!("run_blocking! was left ({}) while a blocking task of its scope was still running: {lg:?}", if case == 6 { "its root panicked and the panic unwound through it" } else { "it returned" })),
                (_, _) if !all_ended => Some(format!("scope returned before all blocking tasks finished: {lg:?}")),
                (6, Err(_)) => None,
                (7, Ok(Ok(0))) => None,
                (0, Ok(Ok(0))) => None,
                (1, Ok(Err(2))) => None,
                (2, Err(_)) => None,
                (3, Ok(Err(2))) => None,
                (4, Ok(Err(2))) => None,
                (5, Ok(Ok(7))) => None,
                (c, r) => Some(format!("blocking case {c}: unexpected result {r:?}, events {lg:?}")),
            };
            if let Some(b) = bad {
                core::quiet_all(false);
                return (runs, Some(format!("{b} (iteration {it})")));
            }
        }
    }
    core::quiet_all(false);
    (runs, None)
}

// ---------------------------------------------------------------------------------------------
// Thread level: failing tasks on REAL threads report into one scope state (TerminateGuard::set_err
// through the hook scope::verif::VScopeState); every interleaving at the scheduling points of
// zksync_concurrency::verif (before each acquisition of the error slot's mutex, at the end of
// signal::Once::send, i.e. right after the scope context has been cancelled).

#[derive(Clone, Copy, Debug)]
enum TBody {
    /// fails on its own
    Fail(scope::verif::VFailure),
    /// fails because it notices, lock-free, that the scope has been cancelled (so some other task
    /// failed before it)
    FailAfterCancel(scope::verif::VFailure),
}

fn thread_scenarios() -> Vec<(&'static str, Vec<TBody>)> {
    use scope::verif::VFailure::{Err as E, Panic as P};
    use TBody::*;
    vec![
        ("a panics; b errs after noticing the cancellation", vec![Fail(P), FailAfterCancel(E(2))]),
        ("a errs; b errs after noticing the cancellation", vec![Fail(E(1)), FailAfterCancel(E(2))]),
        ("a errs; b panics independently", vec![Fail(E(1)), Fail(P)]),
        ("a and b err independently; c errs after noticing the cancellation", vec![Fail(E(1)), Fail(E(2)), FailAfterCancel(E(3))]),
        ("a panics, b and c err independently", vec![Fail(P), Fail(E(2)), Fail(E(3))]),
        ("a errs; b panics after noticing the cancellation; c errs after noticing it", vec![Fail(E(1)), FailAfterCancel(P), FailAfterCancel(E(3))]),
    ]
}

/// Returns (interleavings run, all explored, violation).
fn thread_part(max_runs: u64) -> (u64, bool, Option<(String, serde_json::Value)>) {
    use scope::verif::{VFailure, VScopeState};
    let rt = tokio::runtime::Builder::new_current_thread().build().unwrap();
    let _g = rt.enter();
    let clock = ctx::ManualClock::new();
    let root = ctx::test_root(&clock);
    let mut total = 0;
    let mut complete = true;
    for (si, (name, bodies)) in thread_scenarios().into_iter().enumerate() {
        let result: Arc<Mutex<Option<Option<VFailure>>>> = Default::default();
        let (runs, all, fail) = crate::threads::explore_all(
            || {
                let st = VScopeState::new(&root);
                let mut threads: Vec<Box<dyn FnOnce() + Send>> = vec![];
                for b in &bodies {
                    let task = st.task();
                    let b = *b;
                    threads.push(Box::new(move || {
                        match b {
                            TBody::Fail(f) => task.set_err(f),
                            TBody::FailAfterCancel(f) => {
                                while task.is_active() {
                                    crate::threads::wait_point();
                                }
                                task.set_err(f);
                            }
                        }
                        drop(task);
                    }));
                }
                let bodies2 = bodies.clone();
                let check: Box<dyn FnOnce(&crate::threads::Run) -> Option<String>> = Box::new(move |_run| {
                    let got = st.finish();
                    let independent: Vec<VFailure> = bodies2.iter().filter_map(|b| if let TBody::Fail(f) = b { Some(*f) } else { None }).collect();
                    let any_panic = bodies2.iter().any(|b| matches!(b, TBody::Fail(VFailure::Panic) | TBody::FailAfterCancel(VFailure::Panic)));
                    match got {
                        None => Some("no failure was recorded although every task failed".into()),
                        Some(VFailure::Panic) if any_panic => None,
                        Some(g) if any_panic => Some(format!("a task panicked but the scope recorded {g:?}: the panic would not be re-raised")),
                        // no panic anywhere: the recorded error is that of a task which failed on its own
                        // (the others failed only after, and because, the scope had been cancelled)
                        Some(g) if independent.contains(&g) => None,
                        Some(g) => Some(format!("the scope recorded {g:?}, the error of a task that failed only after noticing the cancellation caused by an earlier failure ({independent:?})")),
                    }
                });
                (threads, check)
            },
            max_runs,
        );
        let _ = &result;
        total += runs;
        complete &= all;
        if let Some((prefix, what)) = fail {
            return (total, false, Some((format!("[thread_interleaving] scenario '{name}': {what} (interleaving {prefix:?})"), json!({"harness": "c17-threads", "scenario": si, "interleaving": prefix}))));
        }
    }
    (total, complete, None)
}

pub fn run(args: &Args) -> Report {
    let mut rep = Report::new("C17", "model_checking");
    if let Some(r) = &args.replay {
        let rp = &r["replay"];
        if rp["harness"] == "c17-threads" {
            // re-explores the scenario (a few hundred interleavings) and reports the first failing one
            if let (_, _, Some((w, r))) = thread_part(2_000_000) {
                rep.violations.push(Violation { key: "thread_interleaving".into(), what: w, replay: r });
            }
            return rep;
        }
        if rp["harness"] == "c17-blocking" || rp["harness"] == "c17-destructor" {
            if let (_, Some(b)) = destructor_runs() {
                rep.violations.push(Violation { key: "routine_destroyed_after_return".into(), what: b, replay: json!({"harness":"c17-destructor"}) });
            }
            if let (_, Some(b)) = blocking_runs(400) {
                rep.violations.push(Violation { key: "blocking".into(), what: b, replay: rp.clone() });
            }
            return rep;
        }
        let idx = rp["config"]["program_index"].as_u64().unwrap_or(0) as usize;
        let thorough = rp["config"]["thorough"].as_bool().unwrap_or(false);
        let mut ps = programs(thorough);
        ps.extend(programs_blocking(thorough));
        let devs: core::Deviations = rp["deviations"].as_array().map(|a| a.iter().map(|p| (p[0].as_u64().unwrap() as u32, p[1].as_u64().unwrap() as u32)).collect()).unwrap_or_default();
        let (res, div) = core::replay_one(&|ch: &Ch| run_program(ch, &ps[idx], idx, thorough), devs);
        if let Some(d) = div {
            rep.machinery_errors.push(d);
        }
        if let Some(v) = res.violation {
            rep.violations.push(Violation { key: "replay".into(), what: v, replay: rp.clone() });
        }
        return rep;
    }
    let thorough = args.tier == core::Tier::Thorough;
    let mut ps = programs(thorough);
    let n_async = ps.len();
    ps.extend(programs_blocking(thorough));
    // development switches: explore only one family (indices still refer to the whole list)
    let selected: Vec<usize> = if std::env::var("VERIF_C17_ONLY_THREADS").is_ok() {
        vec![0]
    } else if std::env::var("VERIF_C17_ONLY_BLOCKING").is_ok() {
        (n_async..ps.len()).collect()
    } else {
        (0..ps.len()).collect()
    };
    let n_blocking_programs = selected.iter().filter(|i| **i >= n_async).count();
    let bound = args.tier.pick(2, 3);
    let budget = Duration::from_secs(args.tier.pick(45, 1200));
    let t0 = std::time::Instant::now();
    // programs are explored one after another, each with all 16 workers? cheaper: one worker per
    // program, programs in parallel
    let results = core::par_map(selected.len(), |k| {
        let i = selected[k];
        if t0.elapsed() > budget {
            return None;
        }
        let mut cfg = ExploreCfg::new(&format!("scope[{i}]"), bound, budget.saturating_sub(t0.elapsed()));
        cfg.workers = 1;
        Some(explore(&cfg, |ch| run_program(ch, &ps[i], i, thorough)))
    });
    let (mut execs, mut points, mut distinct, mut done, mut maxpts) = (0u64, 0u64, 0u64, 0u64, 0u32);
    let mut wit: std::collections::BTreeMap<&str, u64> = Default::default();
    let mut capped = false;
    let mut samples = vec![];
    for (k, r) in results.iter().enumerate() {
        let i = selected[k];
        let Some(st) = r else {
            capped = true;
            continue;
        };
        done += 1;
        execs += st.execs;
        points += st.choice_points;
        distinct += st.distinct_obs;
        maxpts = maxpts.max(st.max_trace);
        capped |= st.capped;
        for (k, v) in &st.witnesses {
            *wit.entry(k).or_default() += v;
        }
        if rep.violations.is_empty() {
            rep.absorb("c17", st, json!({"program_index": i, "thorough": thorough, "program": format!("{:?}", ps[i])}));
        } else {
            rep.machinery_errors.extend(st.machinery_errors.iter().cloned());
        }
        if samples.len() < 3 && st.distinct_obs > 3 {
            samples.push(json!({"program": format!("{:?}", ps[i]), "schedules": st.execs, "distinct_event_logs": st.distinct_obs}));
        }
    }
    let (truns, tall, tviol) = thread_part(args.tier.pick(20_000, 2_000_000));
    if let Some((w, r)) = tviol {
        rep.violations.push(Violation { key: "thread_interleaving".into(), what: w, replay: r });
    }
    let (bruns, bviol) = blocking_runs(args.tier.pick(30, 400));
    if let Some(b) = bviol {
        rep.violations.push(Violation { key: "blocking".into(), what: b, replay: json!({"harness":"c17-blocking"}) });
    }
    let (druns, dviol) = destructor_runs();
    if let Some(d) = dviol {
        rep.violations.push(Violation { key: "routine_destroyed_after_return".into(), what: d, replay: json!({"harness":"c17-destructor"}) });
    }
    if *wit.get("panicked").unwrap_or(&0) == 0 || *wit.get("returned_err").unwrap_or(&0) == 0 {
        if rep.violations.is_empty() {
            rep.machinery_errors.push("vacuous: no execution panicked / returned an error".into());
        }
    }
    if samples.is_empty() {
        samples.push(json!({"program": format!("{:?}", ps[0])}));
    }
    rep.coverage = json!({
        "states": execs,
        "transitions": points,
        "traces_validated_against_impl": execs,
        "evaluations": execs + bruns,
        "distinct_nontrivial": distinct,
        "samples": samples,
        "rule": "a state is one complete execution (schedule) of one program of the family on the real scope::run!; transitions are scheduler choice points (next runnable task, select! start branch); all schedules with at most `deviation_bound` non-default choices; distinct = distinct event logs",
        "programs": selected.len(),
        "programs_with_blocking_tasks_explored_under_the_blocking_gate": n_blocking_programs,
        "programs_completed": done,
        "deviation_bound": bound,
        "max_choice_points_per_execution": maxpts,
        "exhaustive": !capped,
        "capped_by_time_budget": capped,
        "witnesses": wit.iter().map(|(k,v)| (k.to_string(), json!(v))).collect::<serde_json::Map<_,_>>(),
        "blocking_task_runs_uncontrolled_not_exhaustive": bruns,
        "routine_destructor_runs_uncontrolled_not_exhaustive": druns,
        "thread_level_interleavings_of_set_err": truns, "thread_level_all_interleavings_explored": tall,
    });
    rep.assumptions = vec![
        "task level: switches happen only at awaits that return Pending (current-thread runtime); thread level: real threads calling TerminateGuard::set_err are interleaved at every acquisition of the error slot's mutex and right after the context is cancelled (all interleavings); other synchronous sections (guard drops) are not explored at thread level".into(),
        "blocking tasks run on real threads: those runs are oracle-checked samples, not exhaustive".into(),
    ];
    rep
}
