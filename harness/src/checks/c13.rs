//! C13 — the encrypted transport delivers exactly the bytes written, or fails.
//! E1: the real noise::Stream (through the VNoise hook) is polled directly by a sequential
//! driver; every answer of the two scripted transports (complete / 1 byte / half / Pending) is a
//! choice point explored with a deviation bound; plus every single-point tampering of the
//! recorded ciphertext stream.
use std::{
    future::Future,
    pin::Pin,
    task::{Context, Poll, Waker},
    time::Duration,
};

use serde_json::json;
use tokio::io::{AsyncRead, AsyncWrite, ReadBuf};
use zksync_concurrency::ctx;
use zksync_consensus_network::verif::VNoise;

use crate::{
    core::{self, explore, fx_hash, Ch, ExecResult, ExploreCfg, Report, Tier, Violation, K_ENV},
    pipe, Args,
};

const P: usize = 65519; // payload limit of one noise frame (65535 - 16)

/// Transport end whose every poll answer is decided by the chooser.
struct Scripted {
    end: pipe::End,
    ch: Ch,
    pended_w: bool,
    pended_r: bool,
    pended_f: bool,
    /// choices enabled (false during set-up phases that are not under test)
    on: std::rc::Rc<std::cell::Cell<bool>>,
}

impl Scripted {
    fn choose(&self, n: usize) -> usize {
        if self.on.get() {
            self.ch.borrow_mut().choose(K_ENV, n)
        } else {
            0
        }
    }
}

thread_local! {
    /// dead-transport mode: number of bytes the transport still accepts; afterwards every write returns Ok(0)
    static DEAD_AFTER: std::cell::Cell<Option<usize>> = const { std::cell::Cell::new(None) };
    static ZERO_WRITES: std::cell::Cell<u32> = const { std::cell::Cell::new(0) };
}

impl AsyncWrite for Scripted {
    fn poll_write(mut self: Pin<&mut Self>, cx: &mut Context<'_>, data: &[u8]) -> Poll<std::io::Result<usize>> {
        if data.is_empty() {
            return Poll::Ready(Ok(0));
        }
        if let Some(left) = DEAD_AFTER.with(|d| d.get()) {
            if left == 0 {
                let z = ZERO_WRITES.with(|z| { z.set(z.get() + 1); z.get() });
                if z > 10_000 {
                    panic!("the stream keeps writing to a transport that accepts nothing (10000 consecutive writes returned 0)");
                }
                return Poll::Ready(Ok(0));
            }
            let n = data.len().min(left);
            DEAD_AFTER.with(|d| d.set(Some(left - n)));
            return Pin::new(&mut self.end).poll_write(cx, &data[..n]);
        }
        let l = data.len();
        let c = if self.pended_w {
            self.pended_w = false;
            0
        } else if l == 1 {
            [0, 3][self.choose(2)]
        } else {
            self.choose(4)
        };
        let n = match c {
            0 => l,
            1 => 1,
            2 => (l / 2).max(1),
            _ => {
                self.pended_w = true;
                cx.waker().wake_by_ref();
                return Poll::Pending;
            }
        };
        Pin::new(&mut self.end).poll_write(cx, &data[..n])
    }
    fn poll_flush(mut self: Pin<&mut Self>, cx: &mut Context<'_>) -> Poll<std::io::Result<()>> {
        if self.pended_f {
            self.pended_f = false;
            return Poll::Ready(Ok(()));
        }
        if self.choose(2) == 1 {
            self.pended_f = true;
            cx.waker().wake_by_ref();
            return Poll::Pending;
        }
        Poll::Ready(Ok(()))
    }
    fn poll_shutdown(mut self: Pin<&mut Self>, cx: &mut Context<'_>) -> Poll<std::io::Result<()>> {
        Pin::new(&mut self.end).poll_shutdown(cx)
    }
}

impl AsyncRead for Scripted {
    fn poll_read(mut self: Pin<&mut Self>, cx: &mut Context<'_>, buf: &mut ReadBuf<'_>) -> Poll<std::io::Result<()>> {
        let avail = {
            let c = self.end.rx.lock().unwrap();
            if c.buf.is_empty() && !c.closed {
                // nothing to deliver: the driver decides what happens next
                return Poll::Pending;
            }
            c.buf.len()
        };
        if avail == 0 {
            return Poll::Ready(Ok(())); // EOF
        }
        let want = buf.remaining().min(avail);
        let c = if self.pended_r {
            self.pended_r = false;
            0
        } else if want <= 1 {
            [0, 3][self.choose(2)]
        } else if want <= 3 {
            self.choose(4)
        } else {
            // 4, 5: everything but the last one / two bytes (a read that ends inside the tail of a frame)
            self.choose(6)
        };
        let n = match c {
            0 => want,
            1 => 1,
            2 => (want / 2).max(1),
            4 => want - 1,
            5 => want - 2,
            _ => {
                self.pended_r = true;
                cx.waker().wake_by_ref();
                return Poll::Pending;
            }
        };
        self.end.rx.lock().unwrap().max_read = Some(n);
        let r = Pin::new(&mut self.end).poll_read(cx, buf);
        self.end.rx.lock().unwrap().max_read = None;
        r
    }
}

#[derive(Clone, Copy, Debug, PartialEq)]
pub enum Op {
    Write(usize),
    Flush,
    Shutdown,
}

fn op_name(o: &Op) -> String {
    match o {
        Op::Write(n) => format!("write({n})"),
        Op::Flush => "flush".into(),
        Op::Shutdown => "shutdown".into(),
    }
}

fn pattern(off: usize) -> u8 {
    ((off.wrapping_mul(31).wrapping_add(7)) ^ (off >> 8)) as u8
}

fn poll_until<T>(mut f: impl FnMut(&mut Context<'_>) -> Poll<T>, max_polls: usize) -> Option<T> {
    let w = Waker::noop();
    let mut cx = Context::from_waker(&w);
    for _ in 0..max_polls {
        if let Poll::Ready(x) = f(&mut cx) {
            return Some(x);
        }
    }
    None
}

struct Session {
    writer: VNoise<Scripted>,
    reader: VNoise<Scripted>,
    /// direction writer -> reader (for recording / tampering)
    w2r: pipe::Shared,
}

fn handshake(ch: &Ch, on: &std::rc::Rc<std::cell::Cell<bool>>, record: bool) -> Result<Session, String> {
    let (a, b) = pipe::pair();
    let w2r = a.tx.clone();
    let sa = Scripted { end: a, ch: ch.clone(), pended_w: false, pended_r: false, pended_f: false, on: on.clone() };
    let sb = Scripted { end: b, ch: ch.clone(), pended_w: false, pended_r: false, pended_f: false, on: on.clone() };
    let clock = ctx::ManualClock::new();
    let ctx = ctx::test_root(&clock);
    let mut fc = Box::pin(VNoise::client(&ctx, sa));
    let mut fs = Box::pin(VNoise::server(&ctx, sb));
    let (mut rc, mut rs) = (None, None);
    let w = Waker::noop();
    let mut cx = Context::from_waker(&w);
    for _ in 0..10_000 {
        if rc.is_none() {
            if let Poll::Ready(x) = fc.as_mut().poll(&mut cx) {
                rc = Some(x);
            }
        }
        if rs.is_none() {
            if let Poll::Ready(x) = fs.as_mut().poll(&mut cx) {
                rs = Some(x);
            }
        }
        if rc.is_some() && rs.is_some() {
            break;
        }
    }
    let (c, s) = match (rc, rs) {
        (Some(Ok(c)), Some(Ok(s))) => (c, s),
        (c, s) => return Err(format!("handshake did not complete: client {:?} server {:?}", c.map(|x| x.map(|_| ()).map_err(|e| format!("{e:?}"))), s.map(|x| x.map(|_| ()).map_err(|e| format!("{e:?}"))))),
    };
    drop(fc);
    drop(fs);
    if c.id() != s.id() {
        return Err("session ids differ".into());
    }
    if record {
        let mut g = w2r.lock().unwrap();
        g.record = true;
        g.log.clear();
    }
    Ok(Session { writer: c, reader: s, w2r })
}

struct Outcome {
    obs: u64,
    violation: Option<String>,
    wire_log: Vec<u8>,
    partial_flush_seen: bool,
    pending_in_write: bool,
    abandoned_writes: u64,
}

/// Runs the writer ops, then reads everything with buffers of `rbuf` bytes.
fn run_ops(ch: &Ch, ops: &[Op], rbuf: usize, handshake_choices: bool, record: bool) -> Outcome {
    let on = std::rc::Rc::new(std::cell::Cell::new(handshake_choices));
    let mut out = Outcome { obs: 0, violation: None, wire_log: vec![], partial_flush_seen: false, pending_in_write: false, abandoned_writes: 0 };
    let mut s = match handshake(ch, &on, record) {
        Ok(s) => s,
        Err(e) => {
            out.violation = Some(format!("noise handshake over the scripted transport failed: {e}"));
            return out;
        }
    };
    on.set(true);
    let mut accepted: Vec<u8> = vec![]; // bytes the writer accepted (poll_write returned n)
    let mut flushed_upto = 0usize; // prefix of `accepted` covered by a completed flush / shutdown
    let mut shutdown = false;
    let mut log = String::new();
    for op in ops {
        match op {
            Op::Write(n) => {
                let data: Vec<u8> = (0..*n).map(|i| pattern(accepted.len() + i)).collect();
                let mut off = 0;
                while off < data.len() {
                    let mut pended = false;
                    // A write that returned Pending may be given up by the caller (its future is dropped,
                    // e.g. a cancelled write_all): nothing of THIS call was accepted, the stream goes on
                    // with whatever the caller does next. Giving up is an environment choice.
                    let mut abandoned = false;
                    let r = {
                        let w = Waker::noop();
                        let mut cx = Context::from_waker(&w);
                        let mut polls = 0;
                        loop {
                            match Pin::new(&mut s.writer).poll_write(&mut cx, &data[off..]) {
                                Poll::Ready(x) => break Some(x),
                                Poll::Pending => {
                                    pended = true;
                                    polls += 1;
                                    if polls > 100_000 {
                                        break None;
                                    }
                                    if core::env_choose(ch, 2) == 1 {
                                        abandoned = true;
                                        break Some(Ok(usize::MAX));
                                    }
                                }
                            }
                        }
                    };
                    out.pending_in_write |= pended;
                    if abandoned {
                        out.abandoned_writes += 1;
                        log.push_str("abandon;");
                        break;
                    }
                    match r {
                        Some(Ok(0)) => {
                            out.violation = Some(format!("poll_write returned 0 for a non-empty buffer (WriteZero loop) during {}", op_name(op)));
                            return out;
                        }
                        Some(Ok(k)) => {
                            accepted.extend_from_slice(&data[off..off + k]);
                            off += k;
                        }
                        Some(Err(e)) => {
                            out.violation = Some(format!("write failed on a healthy transport: {e}"));
                            return out;
                        }
                        None => {
                            out.violation = Some(format!("poll_write stayed Pending forever during {}", op_name(op)));
                            return out;
                        }
                    }
                }
                log.push_str(&format!("w{n};"));
            }
            Op::Flush => match poll_until(|cx| Pin::new(&mut s.writer).poll_flush(cx), 100_000) {
                Some(Ok(())) => {
                    flushed_upto = accepted.len();
                    log.push_str("f;");
                }
                Some(Err(e)) => {
                    out.violation = Some(format!("flush failed on a healthy transport: {e}"));
                    return out;
                }
                None => {
                    out.violation = Some("poll_flush stayed Pending forever".into());
                    return out;
                }
            },
            Op::Shutdown => match poll_until(|cx| Pin::new(&mut s.writer).poll_shutdown(cx), 100_000) {
                Some(Ok(())) => {
                    flushed_upto = accepted.len();
                    shutdown = true;
                    log.push_str("s;");
                }
                Some(Err(e)) => {
                    out.violation = Some(format!("shutdown failed on a healthy transport: {e}"));
                    return out;
                }
                None => {
                    out.violation = Some("poll_shutdown stayed Pending forever".into());
                    return out;
                }
            },
        }
        if shutdown {
            break;
        }
    }
    // reader: read until Pending-with-no-data (transport drained) or EOF
    let mut got: Vec<u8> = vec![];
    let mut eof = false;
    let mut buf = vec![0u8; rbuf];
    let w = Waker::noop();
    let mut cx = Context::from_waker(&w);
    let mut idle_polls = 0;
    let mut total_polls = 0;
    loop {
        total_polls += 1;
        if total_polls > 2_000_000 {
            out.violation = Some("reader did not terminate".into());
            return out;
        }
        let mut rb = ReadBuf::new(&mut buf);
        match Pin::new(&mut s.reader).poll_read(&mut cx, &mut rb) {
            Poll::Ready(Ok(())) => {
                idle_polls = 0;
                let n = rb.filled().len();
                if n == 0 {
                    eof = true;
                    break;
                }
                got.extend_from_slice(rb.filled());
                if got.len() > accepted.len() + 16 {
                    break;
                }
            }
            Poll::Ready(Err(e)) => {
                out.violation = Some(format!("reader failed although nothing was tampered with: {e} (after {} bytes)", got.len()));
                return out;
            }
            Poll::Pending => {
                idle_polls += 1;
                // Pending twice in a row with an empty transport = everything delivered so far was consumed
                let empty = s.w2r.lock().unwrap().buf.is_empty();
                if empty && idle_polls >= 2 {
                    break;
                }
            }
        }
    }
    if got.len() < accepted.len() && got.len() > flushed_upto {
        out.partial_flush_seen = true;
    }
    // oracle
    let common = got.iter().zip(accepted.iter()).take_while(|(a, b)| a == b).count();
    if got.len() > accepted.len() || common < got.len() {
        out.violation = Some(format!(
            "reader obtained {} bytes that are not a prefix of the {} bytes written (first difference at offset {common}): ops [{}], reader buffer {rbuf}",
            got.len(),
            accepted.len(),
            ops.iter().map(op_name).collect::<Vec<_>>().join(", ")
        ));
    } else if got.len() < flushed_upto {
        out.violation = Some(format!(
            "only {} of the {} flushed bytes reached the reader although the transport delivered everything: ops [{}], reader buffer {rbuf}",
            got.len(),
            flushed_upto,
            ops.iter().map(op_name).collect::<Vec<_>>().join(", ")
        ));
    } else if shutdown && !eof {
        out.violation = Some("writer shut down but the reader did not reach end-of-stream".into());
    } else if eof && !shutdown {
        out.violation = Some("reader saw end-of-stream although the writer did not shut down".into());
    }
    // wire format: every frame's length field <= 65535 is implied by u16; check the framing is consistent
    let wl = s.w2r.lock().unwrap().log.clone();
    if record {
        let mut pos = 0;
        while pos + 2 <= wl.len() {
            let l = u16::from_le_bytes([wl[pos], wl[pos + 1]]) as usize;
            if l < 16 && out.violation.is_none() {
                out.violation = Some(format!("frame on the wire with length field {l} < 16 (no room for the tag)"));
            }
            if l > 65535 {
                out.violation = Some("frame exceeds 64KiB".into());
            }
            pos += 2 + l;
        }
        if pos != wl.len() && flushed_upto == accepted.len() && out.violation.is_none() {
            out.violation = Some("ciphertext stream does not end on a frame boundary after a flush".into());
        }
    }
    out.wire_log = wl;
    out.obs = fx_hash(&(log, got.len(), accepted.len(), eof));
    out
}

fn sequences(alphabet: &[Op], max_len: usize) -> Vec<Vec<Op>> {
    let mut out: Vec<Vec<Op>> = vec![vec![]];
    let mut all = vec![];
    for _ in 0..max_len {
        let mut next = vec![];
        for s in &out {
            if s.last() == Some(&Op::Shutdown) {
                continue;
            }
            for a in alphabet {
                let mut t = s.clone();
                t.push(*a);
                next.push(t);
            }
        }
        all.extend(next.iter().cloned());
        out = next;
    }
    all
}

#[derive(Clone, Debug)]
enum Edit {
    Flip { frame: usize, at: &'static str, bit: u8 },
    Truncate { frame: usize, at: &'static str },
    Duplicate(usize),
    SwapWithNext(usize),
    InsertEmptyBefore(usize),
    Drop(usize),
}

fn frames_of(wl: &[u8]) -> Vec<(usize, usize)> {
    let mut v = vec![];
    let mut pos = 0;
    while pos + 2 <= wl.len() {
        let l = u16::from_le_bytes([wl[pos], wl[pos + 1]]) as usize;
        let end = (pos + 2 + l).min(wl.len());
        v.push((pos, end));
        pos = end;
    }
    v
}

fn apply_edit(wl: &[u8], e: &Edit) -> Option<Vec<u8>> {
    let fr = frames_of(wl);
    let get = |i: usize| fr.get(i).copied();
    Some(match e {
        Edit::Flip { frame, at, bit } => {
            let (a, b) = get(*frame)?;
            let off = match *at {
                "len_lo" => a,
                "len_hi" => a + 1,
                "body_first" => a + 2,
                "body_mid" => (a + b) / 2,
                "tag_first" => b.checked_sub(16)?,
                _ => b - 1,
            };
            if off >= b {
                return None;
            }
            let mut x = wl.to_vec();
            x[off] ^= bit;
            x
        }
        Edit::Truncate { frame, at } => {
            let (a, b) = get(*frame)?;
            let cut = match *at {
                "end" => b,
                "end-1" => b - 1,
                "len+1" => a + 1,
                _ => a + 2,
            };
            if cut >= wl.len() {
                return None;
            }
            wl[..cut].to_vec()
        }
        Edit::Duplicate(i) => {
            let (a, b) = get(*i)?;
            let mut x = wl[..b].to_vec();
            x.extend_from_slice(&wl[a..]);
            x
        }
        Edit::SwapWithNext(i) => {
            let (a, b) = get(*i)?;
            let (c, d) = get(*i + 1)?;
            let mut x = wl[..a].to_vec();
            x.extend_from_slice(&wl[c..d]);
            x.extend_from_slice(&wl[a..b]);
            x.extend_from_slice(&wl[d..]);
            x
        }
        Edit::InsertEmptyBefore(i) => {
            let (a, _) = get(*i)?;
            let mut x = wl[..a].to_vec();
            x.extend_from_slice(&[0, 0]);
            x.extend_from_slice(&wl[a..]);
            x
        }
        Edit::Drop(i) => {
            let (a, b) = get(*i)?;
            let mut x = wl[..a].to_vec();
            x.extend_from_slice(&wl[b..]);
            x
        }
    })
}

/// Tampering: for every single-point edit, a fresh session runs the writer ops with default
/// transport answers, the ciphertext in flight is replaced by its edited version, and the reader
/// must fail or stop after a correct prefix.
fn tamper(ops: &[Op], st: &mut (u64, u64, Option<(String, serde_json::Value)>)) {
    let total: usize = ops.iter().map(|o| if let Op::Write(n) = o { *n } else { 0 }).sum();
    let plain: Vec<u8> = (0..total).map(pattern).collect();
    // number of frames of the untampered stream
    let nframes = {
        let ch = core::Chooser::new(vec![], None);
        let base = run_ops(&ch, ops, 70_000, false, true);
        if base.violation.is_some() {
            return;
        }
        frames_of(&base.wire_log).len()
    };
    let mut edits: Vec<Edit> = vec![];
    for f in 0..nframes {
        for at in ["len_lo", "len_hi", "body_first", "body_mid", "tag_first", "tag_last"] {
            for bit in [0x01u8, 0x80] {
                edits.push(Edit::Flip { frame: f, at, bit });
            }
        }
        for at in ["end", "end-1", "len+1", "len+2"] {
            edits.push(Edit::Truncate { frame: f, at });
        }
        edits.push(Edit::Duplicate(f));
        edits.push(Edit::SwapWithNext(f));
        edits.push(Edit::InsertEmptyBefore(f));
        edits.push(Edit::Drop(f));
    }
    for e in edits {
        let ch = core::Chooser::new(vec![], None);
        let on = std::rc::Rc::new(std::cell::Cell::new(false));
        let Ok(mut s) = handshake(&ch, &on, true) else { continue };
        let mut acc = 0usize;
        let mut failed = false;
        for op in ops {
            match op {
                Op::Write(n) => {
                    let data: Vec<u8> = (0..*n).map(|i| pattern(acc + i)).collect();
                    let mut off = 0;
                    while off < data.len() {
                        match poll_until(|cx| Pin::new(&mut s.writer).poll_write(cx, &data[off..]), 1000) {
                            Some(Ok(k)) if k > 0 => off += k,
                            _ => {
                                failed = true;
                                break;
                            }
                        }
                    }
                    acc += n;
                }
                Op::Flush => {
                    let _ = poll_until(|cx| Pin::new(&mut s.writer).poll_flush(cx), 1000);
                }
                Op::Shutdown => {
                    let _ = poll_until(|cx| Pin::new(&mut s.writer).poll_shutdown(cx), 1000);
                }
            }
        }
        if failed {
            continue;
        }
        let wl = s.w2r.lock().unwrap().log.clone();
        let Some(edited) = apply_edit(&wl, &e) else { continue };
        if edited == wl {
            continue;
        }
        st.0 += 1;
        {
            let mut g = s.w2r.lock().unwrap();
            g.buf.clear();
            g.buf.extend(edited.iter().copied());
            g.closed = true;
        }
        let mut got = vec![];
        let mut buf = vec![0u8; 70_000];
        let w = Waker::noop();
        let mut cx = Context::from_waker(&w);
        let mut outcome = "eof";
        // a reader that panics on tampered input is a verdict of its own (the node aborts on a panic)
        let panicked = core::catch(|| {
            for _ in 0..100_000 {
                let mut rb = ReadBuf::new(&mut buf);
                match Pin::new(&mut s.reader).poll_read(&mut cx, &mut rb) {
                    Poll::Ready(Ok(())) => {
                        if rb.filled().is_empty() {
                            break;
                        }
                        got.extend_from_slice(rb.filled());
                    }
                    Poll::Ready(Err(_)) => {
                        outcome = "error";
                        break;
                    }
                    Poll::Pending => {
                        outcome = "pending";
                        break;
                    }
                }
            }
        })
        .err();
        if let Some(p) = panicked {
            st.2.get_or_insert((
                format!("[tamper] after {e:?} the reader panicked instead of failing or reaching end-of-stream: {}; ops [{}]", p.lines().next().unwrap_or(""), ops.iter().map(op_name).collect::<Vec<_>>().join(", ")),
                json!({"harness":"c13-tamper","ops": ops.iter().map(op_name).collect::<Vec<_>>(), "edit": format!("{e:?}")}),
            ));
            continue;
        }
        st.1 += (outcome == "error") as u64;
        let common = got.iter().zip(plain.iter()).take_while(|(a, b)| a == b).count();
        if got.len() > plain.len() || common < got.len() {
            st.2.get_or_insert((
                format!("[tamper] after {e:?} the reader returned {} bytes of plaintext that are not a prefix of what was written (first difference at {common}); ops [{}]", got.len(), ops.iter().map(op_name).collect::<Vec<_>>().join(", ")),
                json!({"harness":"c13-tamper","ops": ops.iter().map(op_name).collect::<Vec<_>>(), "edit": format!("{e:?}")}),
            ));
        }
    }
}


/// "... or fails": the transport stops accepting bytes (every write returns 0) after `k` more bytes of
/// ciphertext, for k around every header / body / tag boundary of the first two frames. The writer must
/// get an error (never loop, never report a flush that did not happen), the reader a prefix.
fn dead_transport(st: &mut (u64, u64, Option<(String, serde_json::Value)>)) {
    let seqs: Vec<Vec<Op>> = vec![vec![Op::Write(100), Op::Flush, Op::Write(50), Op::Flush], vec![Op::Write(P + 1), Op::Flush], vec![Op::Write(100), Op::Write(2 * P + 5), Op::Shutdown]];
    let ks: Vec<usize> = vec![0, 1, 2, 3, 17, 18, 19, 117, 118, 119, P + 17, P + 18, P + 19, 2 * P + 40];
    for ops in &seqs {
        for &k in &ks {
            st.0 += 1;
            let ch = core::Chooser::new(vec![], None);
            let on = std::rc::Rc::new(std::cell::Cell::new(false));
            let Ok(mut s) = handshake(&ch, &on, true) else { continue };
            DEAD_AFTER.with(|d| d.set(Some(k)));
            ZERO_WRITES.with(|z| z.set(0));
            let mut accepted: Vec<u8> = vec![];
            let mut flushed_upto = 0usize;
            let mut failed_at: Option<String> = None;
            let res = core::catch(|| {
                'ops: for op in ops {
                    match op {
                        Op::Write(n) => {
                            let data: Vec<u8> = (0..*n).map(|i| pattern(accepted.len() + i)).collect();
                            let mut off = 0;
                            while off < data.len() {
                                match poll_until(|cx| Pin::new(&mut s.writer).poll_write(cx, &data[off..]), 100_000) {
                                    Some(Ok(j)) if j > 0 => {
                                        accepted.extend_from_slice(&data[off..off + j]);
                                        off += j;
                                    }
                                    Some(Ok(_)) => return Some(format!("poll_write returned 0 for a non-empty buffer during {}", op_name(op))),
                                    Some(Err(_)) => {
                                        failed_at = Some(op_name(op));
                                        break 'ops;
                                    }
                                    None => return Some(format!("poll_write stayed Pending forever on a dead transport during {}", op_name(op))),
                                }
                            }
                        }
                        Op::Flush | Op::Shutdown => {
                            let r = if *op == Op::Flush { poll_until(|cx| Pin::new(&mut s.writer).poll_flush(cx), 100_000) } else { poll_until(|cx| Pin::new(&mut s.writer).poll_shutdown(cx), 100_000) };
                            match r {
                                Some(Ok(())) => flushed_upto = accepted.len(),
                                Some(Err(_)) => {
                                    failed_at = Some(op_name(op));
                                    break 'ops;
                                }
                                None => return Some(format!("{} stayed Pending forever on a dead transport", op_name(op))),
                            }
                        }
                    }
                }
                None
            });
            DEAD_AFTER.with(|d| d.set(None));
            let mut violation = match res {
                Ok(v) => v,
                Err(p) => Some(format!("writer panicked / looped: {}", p.lines().next().unwrap_or(""))),
            };
            if violation.is_none() {
                // reader: everything the transport got
                s.w2r.lock().unwrap().closed = true;
                let mut got = vec![];
                let mut buf = vec![0u8; 70_000];
                let w = Waker::noop();
                let mut cx = Context::from_waker(&w);
                let r = core::catch(|| {
                    for _ in 0..100_000 {
                        let mut rb = ReadBuf::new(&mut buf);
                        match Pin::new(&mut s.reader).poll_read(&mut cx, &mut rb) {
                            Poll::Ready(Ok(())) if !rb.filled().is_empty() => got.extend_from_slice(rb.filled()),
                            _ => break,
                        }
                    }
                });
                if let Err(p) = r {
                    violation = Some(format!("reader panicked: {}", p.lines().next().unwrap_or("")));
                } else if got.len() > accepted.len() || got[..] != accepted[..got.len()] {
                    violation = Some(format!("the reader obtained {} bytes that are not a prefix of the {} bytes the writer accepted", got.len(), accepted.len()));
                } else if got.len() < flushed_upto {
                    violation = Some(format!("a flush / shutdown reported success for {flushed_upto} bytes but only {} reached the reader (the transport had stopped accepting bytes)", got.len()));
                }
            }
            st.1 += failed_at.is_some() as u64;
            if let Some(v) = violation {
                st.2.get_or_insert((
                    format!("[dead_transport] the transport accepts {k} more bytes and then nothing (writes return 0); ops [{}]: {v}", ops.iter().map(op_name).collect::<Vec<_>>().join(", ")),
                    json!({"harness":"c13-dead","ops": ops.iter().map(op_name).collect::<Vec<_>>(), "k": k}),
                ));
                return;
            }
        }
    }
}

pub fn run(args: &Args) -> Report {
    let mut rep = Report::new("C13", "model_checking");
    let sizes = [1usize, 100, P - 1, P, P + 1, 2 * P + 5];
    let alphabet: Vec<Op> = sizes.iter().map(|n| Op::Write(*n)).chain([Op::Flush, Op::Shutdown]).collect();
    let parse_ops = |v: &serde_json::Value| -> Vec<Op> {
        v.as_array()
            .map(|a| {
                a.iter()
                    .filter_map(|x| x.as_str())
                    .map(|s| if s == "flush" { Op::Flush } else if s == "shutdown" { Op::Shutdown } else { Op::Write(s.trim_start_matches("write(").trim_end_matches(')').parse().unwrap_or(1)) })
                    .collect()
            })
            .unwrap_or_default()
    };
    if let Some(r) = &args.replay {
        let rp = &r["replay"];
        let ops = parse_ops(&rp["config"]["ops"]);
        let rbuf = rp["config"]["rbuf"].as_u64().unwrap_or(1000) as usize;
        let devs: core::Deviations = rp["deviations"].as_array().map(|a| a.iter().map(|p| (p[0].as_u64().unwrap() as u32, p[1].as_u64().unwrap() as u32)).collect()).unwrap_or_default();
        if rp["harness"] == "c13-dead" {
            let mut st = (0, 0, None);
            dead_transport(&mut st);
            if let Some((w, r)) = st.2 {
                rep.violations.push(Violation { key: "dead_transport".into(), what: w, replay: r });
            }
            return rep;
        }
        if rp["harness"] == "c13-tamper" {
            let mut st = (0, 0, None);
            tamper(&parse_ops(&rp["ops"]), &mut st);
            if let Some((w, r)) = st.2 {
                rep.violations.push(Violation { key: "tamper".into(), what: w, replay: r });
            }
            return rep;
        }
        let (res, div) = core::replay_one(&|ch: &Ch| {
            let o = run_ops(ch, &ops, rbuf, true, true);
            ExecResult { obs: o.obs, violation: o.violation, nontrivial: true, witnesses: vec![] }
        }, devs);
        if let Some(d) = div {
            rep.machinery_errors.push(d);
        }
        if let Some(v) = res.violation {
            rep.violations.push(Violation { key: "replay".into(), what: v, replay: rp.clone() });
        }
        return rep;
    }

    let budget = Duration::from_secs(args.tier.pick(40, 900));
    let t0 = std::time::Instant::now();
    let mut stats_json = vec![];
    let mut total_execs = 0u64;
    let mut total_points = 0u64;
    let mut distinct = 0u64;
    let mut states = 0u64;
    let mut witnesses_partial = 0u64;
    let mut witnesses_pending = 0u64;
    let mut witnesses_abandoned = 0u64;
    // (1) every op sequence up to length L with deviation bound d1; (2) selected long sequences, bound d2
    let (l1, d1) = args.tier.pick((2, 1), (3, 1));
    let seqs = sequences(&alphabet, l1);
    let long: Vec<Vec<Op>> = vec![
        vec![Op::Write(2 * P + 5), Op::Flush, Op::Write(100), Op::Shutdown],
        vec![Op::Write(P), Op::Write(P + 1), Op::Write(1), Op::Flush],
        vec![Op::Write(100), Op::Flush, Op::Write(P - 1), Op::Write(2 * P + 5), Op::Shutdown],
        vec![Op::Write(2 * P + 5), Op::Write(2 * P + 5), Op::Flush, Op::Shutdown],
    ];
    let d2 = args.tier.pick(2, 3);
    let mut plans: Vec<(Vec<Op>, usize, usize)> = vec![];
    // the listed long sequences first: if a slow machine ends the budget early, it is the short ones that are cut
    for s in &long {
        for rbuf in [1000usize, 70_000] {
            plans.push((s.clone(), rbuf, d2));
        }
    }
    for s in &seqs {
        for rbuf in [1000usize, 70_000] {
            plans.push((s.clone(), rbuf, d1));
        }
    }
    // reader buffer of 1 byte only on small payloads (cost)
    plans.push((vec![Op::Write(100), Op::Flush, Op::Write(1), Op::Shutdown], 1, d2));
    let mut capped = false;
    for (ops, rbuf, bound) in &plans {
        let remaining = budget.saturating_sub(t0.elapsed());
        if remaining.is_zero() {
            capped = true;
            break;
        }
        let cfg = ExploreCfg::new(&format!("noise[{}|rbuf={rbuf}]", ops.iter().map(op_name).collect::<Vec<_>>().join(",")), *bound, remaining);
        let st = explore(&cfg, |ch| {
            let o = run_ops(ch, ops, *rbuf, true, true);
            ExecResult { obs: o.obs, violation: o.violation, nontrivial: true, witnesses: vec![("partially_flushed_frame_observed", o.partial_flush_seen as u64), ("pending_inside_poll_write", o.pending_in_write as u64), ("write_given_up_after_pending", o.abandoned_writes)] }
        });
        total_execs += st.execs;
        total_points += st.choice_points;
        distinct += st.distinct_obs;
        states += st.execs;
        witnesses_partial += *st.witnesses.get("partially_flushed_frame_observed").unwrap_or(&0);
        witnesses_pending += *st.witnesses.get("pending_inside_poll_write").unwrap_or(&0);
        witnesses_abandoned += *st.witnesses.get("write_given_up_after_pending").unwrap_or(&0);
        capped |= st.capped;
        rep.absorb("c13", &st, json!({"ops": ops.iter().map(op_name).collect::<Vec<_>>(), "rbuf": rbuf}));
        if stats_json.len() < 6 || !st.violations.is_empty() {
            stats_json.push(st.to_json());
        }
        if !rep.violations.is_empty() {
            break;
        }
    }
    // tampering
    let mut tst: (u64, u64, Option<(String, serde_json::Value)>) = (0, 0, None);
    if rep.violations.is_empty() {
        for ops in [vec![Op::Write(100), Op::Flush, Op::Write(200), Op::Flush, Op::Write(50), Op::Shutdown], vec![Op::Write(P + 1), Op::Flush, Op::Write(10), Op::Flush]] {
            tamper(&ops, &mut tst);
        }
        if let Some((w, r)) = tst.2.clone() {
            rep.violations.push(Violation { key: "tamper".into(), what: w, replay: r });
        }
        if tst.0 > 0 && tst.1 == 0 {
            rep.machinery_errors.push("vacuous tampering: no edit made the reader fail".into());
        }
    }
    // the transport dies (writes return 0) at every listed position
    let mut dst: (u64, u64, Option<(String, serde_json::Value)>) = (0, 0, None);
    if rep.violations.is_empty() {
        dead_transport(&mut dst);
        if let Some((w, r)) = dst.2.clone() {
            rep.violations.push(Violation { key: "dead_transport".into(), what: w, replay: r });
        } else if dst.1 == 0 {
            rep.machinery_errors.push("vacuous: the writer never noticed a dead transport".into());
        }
    }
    if witnesses_abandoned == 0 && rep.violations.is_empty() && !capped {
        rep.machinery_errors.push("vacuous: no execution gave up a write after Pending".into());
    }
    if witnesses_pending == 0 && rep.violations.is_empty() && !capped {
        rep.machinery_errors.push("vacuous: no execution had a Pending inside poll_write".into());
    }
    rep.coverage = json!({
        "states": states,
        "transitions": total_points,
        "traces_validated_against_impl": total_execs,
        "evaluations": total_execs + tst.0 + dst.0,
        "dead_transport_cases": dst.0, "dead_transport_cases_in_which_the_writer_failed": dst.1,
        "distinct_nontrivial": distinct,
        "samples": [
            {"ops": ["write(131043)"], "reader_buffer": 1000, "schedule": "all transport answers default except: Pending at the poll_write that fills the payload buffer"},
            {"tamper": "duplicate frame 1 of write(100),flush,write(200),flush,write(50),shutdown"},
        ],
        "rule": "executions of the real noise::Stream pair under a sequential driver; a state is one complete execution (choice sequence); transitions are scripted-transport answers (complete / 1 byte / half / Pending) and, after a Pending poll_write, the caller's choice to give the write up (nothing of that call counts as written); all op sequences up to the tier's length with deviation bound d1, listed long sequences with bound d2; every listed single-point edit of the ciphertext",
        "exhaustive": !capped,
        "capped_by_time_budget": capped,
        "plans": plans.len(),
        "op_sequences_len": l1,
        "deviation_bounds": [d1, d2],
        "tamper_edits": tst.0,
        "tamper_edits_rejected_with_error": tst.1,
        "witness_partially_flushed": witnesses_partial,
        "witness_pending_inside_write": witnesses_pending,
        "witness_write_given_up_after_pending": witnesses_abandoned,
        "explorations": stats_json,
    });
    rep.assumptions = vec!["snow (Noise NN, ChaCha20-Poly1305) is trusted".into(), "the driver is sequential: all writes, then all reads (back-pressure is modelled by Pending answers of the transport, not by a bounded pipe)".into()];
    let _ = Tier::Quick;
    rep
}
