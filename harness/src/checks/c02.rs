//! C02 — certificate uniqueness: a certified block can never be displaced.
//! E1 (decision function, exhaustive small scope): every timeout certificate that can be assembled
//! for small committees - every quorum-weight signer subset x every assignment of (high vote,
//! highest certificate) contents to signers - through the real
//! ProposalJustification::get_implied_block / TimeoutQC::high_vote / high_qc, against a reference
//! transcription and the safety lemma itself.
//! E2 (history level) is evaluated on the L2 graph by the C01 machinery (see C01).
use std::collections::BTreeMap;

use serde_json::json;
use zksync_consensus_roles::validator::{
    self,
    v2::{self, ProposalJustification, ReplicaTimeout, Signers, TimeoutQC},
    BlockNumber, Payload,
};

use super::util::{self, Committee};
use crate::{
    bftsim::World,
    core::{catch, par_map, Report, Tier, Violation},
    Args,
};

const N: u64 = 5; // the block number under dispute

#[derive(Clone, Copy, Debug, PartialEq, Eq, PartialOrd, Ord)]
enum Hv {
    None,
    /// block (N, A) voted in the view in which it got its quorum
    AatV,
    /// block (N, A) voted again in a later view (re-proposal)
    AatV1,
    /// a conflicting block (N, B) voted in an earlier view
    BatEarlier,
    /// a conflicting block (N, B) "voted" in a later view (only a liar can report this)
    BatLater,
    /// the previous block
    Prev,
}
#[derive(Clone, Copy, Debug, PartialEq, Eq, PartialOrd, Ord)]
enum Hq {
    None,
    Prev, // certificate for N-1
    ForN, // certificate for (N, A)
}

struct Ctx {
    w: World,
    pa: Payload,
    pb: Payload,
    pc: Payload,
}

impl Ctx {
    fn hv(&self, x: Hv) -> Option<v2::ReplicaCommit> {
        match x {
            Hv::None => None,
            Hv::AatV => Some(self.w.commit_vote(10, N, &self.pa)),
            Hv::AatV1 => Some(self.w.commit_vote(11, N, &self.pa)),
            Hv::BatEarlier => Some(self.w.commit_vote(8, N, &self.pb)),
            Hv::BatLater => Some(self.w.commit_vote(11, N, &self.pb)),
            Hv::Prev => Some(self.w.commit_vote(6, N - 1, &self.pc)),
        }
    }
    fn hq(&self, x: Hq) -> Option<v2::CommitQC> {
        // signatures are irrelevant for the decision function: certificates are built unsigned
        let mk = |vote: v2::ReplicaCommit| v2::CommitQC { message: vote, signers: Signers::new(self.w.n()), signature: Default::default() };
        match x {
            Hq::None => None,
            Hq::Prev => Some(mk(self.w.commit_vote(6, N - 1, &self.pc))),
            Hq::ForN => Some(mk(self.w.commit_vote(10, N, &self.pa))),
        }
    }
}

/// Reference: spec/informal-spec/types.rs get_implied_block, votes grouped by block (R11).
fn reference(c: &Committee, assign: &[(usize, Hv, Hq)], cidxs: &[usize], ref_hv: &[Option<(u64, Vec<u8>, validator::PayloadHash)>], ref_hq: &[Option<(u64, u64)>]) -> (u64, Option<validator::PayloadHash>) {
    let mut by_block: Vec<((u64, &Vec<u8>), u128, validator::PayloadHash)> = vec![];
    let mut high_qc: Option<(u64, u64)> = None; // (view, number)
    for (k, (i, _, _)) in assign.iter().enumerate() {
        if let Some((n, key, h)) = &ref_hv[cidxs[k]] {
            match by_block.iter_mut().find(|e| e.0 == (*n, key)) {
                Some(e) => e.1 += c.weights[*i] as u128,
                None => by_block.push(((*n, key), c.weights[*i] as u128, *h)),
            }
        }
        if let Some(cand) = ref_hq[cidxs[k]] {
            if high_qc.map(|h| cand.0 > h.0).unwrap_or(true) {
                high_qc = Some(cand);
            }
        }
    }
    let total: u128 = c.weights.iter().map(|w| *w as u128).sum();
    let f = (total - 1) / 5;
    let sub = total - 3 * f;
    let subs: Vec<_> = by_block.iter().filter(|e| e.1 >= sub).collect();
    let hv = if subs.len() == 1 { Some((subs[0].0 .0, subs[0].2)) } else { None };
    match (hv, high_qc) {
        (Some((n, h)), None) => (n, Some(h)),
        (Some((n, h)), Some((_, qn))) if n > qn => (n, Some(h)),
        (_, Some((_, qn))) => (qn + 1, None),
        (_, None) => (c.genesis.first_block.0, None),
    }
}

#[derive(Default)]
struct Out {
    evals: u64,
    lemma_cases: u64,
    reproposals: u64,
    /// signer subsets whose assignment space exceeds the tier's cap (not enumerated)
    skipped_subsets: u64,
    viol: BTreeMap<String, (String, serde_json::Value)>,
}

fn check_committee(weights: &[u64], seed: u64, tier: Tier) -> Out {
    check_committee_elig(weights, u32::MAX, seed, tier)
}

fn check_committee_elig(weights: &[u64], leaders: u32, seed: u64, tier: Tier) -> Out {
    let c = util::committee_elig(seed, weights, 0, 0, Default::default(), leaders);
    let w = World { c: c.clone(), proposals: vec![Payload(vec![1])], invalid_payload: Payload(vec![2]) };
    let cx = Ctx { w, pa: Payload(vec![0xA]), pb: Payload(vec![0xB]), pc: Payload(vec![0xC]) };
    let n = c.n();
    let (q, f) = (c.quorum(), c.max_faulty());
    let mut out = Out::default();
    let hvs = [Hv::None, Hv::AatV, Hv::AatV1, Hv::BatEarlier, Hv::BatLater, Hv::Prev];
    let hqs = [Hq::None, Hq::Prev, Hq::ForN];
    let contents: Vec<(Hv, Hq)> = hvs.iter().flat_map(|a| hqs.iter().map(move |b| (*a, *b))).collect();
    let view = cx.w.view(12);
    let msgs: Vec<ReplicaTimeout> = contents.iter().map(|(a, b)| ReplicaTimeout { view, high_vote: cx.hv(*a), high_qc: cx.hq(*b) }).collect();
    // reference data per content: (block key of the high vote, (view, number) of the certificate)
    let ref_hv: Vec<Option<(u64, Vec<u8>, validator::PayloadHash)>> = msgs.iter().map(|m| m.high_vote.as_ref().map(|v| (v.proposal.number.0, zksync_protobuf::encode(&v.proposal.payload), v.proposal.payload))).collect();
    let ref_hq: Vec<Option<(u64, u64)>> = msgs.iter().map(|m| m.high_qc.as_ref().map(|q| (q.view().number.0, q.header().number.0))).collect();
    let full: u32 = (1 << n) - 1;
    // the quorum that committed (N, A) in view 10: every quorum-weight subset (thorough) / minimal ones
    let commit_quorums: Vec<u32> = (0..=full).filter(|m| c.weight_of(*m) >= q).collect();
    for mask in 0..=full {
        if c.weight_of(mask) < q {
            continue;
        }
        let signers: Vec<usize> = (0..n).filter(|i| mask >> i & 1 == 1).collect();
        // every assignment of contents to the signers
        let k = signers.len();
        let total = (contents.len() as u64).pow(k as u32);
        if total > tier.pick(120_000, 2_000_000) {
            out.skipped_subsets += 1;
            continue;
        }
        for code in 0..total {
            let mut x = code;
            let mut cidxs: Vec<usize> = Vec::with_capacity(k);
            let assign: Vec<(usize, Hv, Hq)> = signers
                .iter()
                .map(|i| {
                    let cidx = (x % contents.len() as u64) as usize;
                    x /= contents.len() as u64;
                    cidxs.push(cidx);
                    (*i, contents[cidx].0, contents[cidx].1)
                })
                .collect();
            out.evals += 1;
            // build the certificate (unsigned) exactly as the map representation requires
            let mut tq = TimeoutQC::new(view);
            for (k2, (i, _, _)) in assign.iter().enumerate() {
                let e = tq.map.entry(msgs[cidxs[k2]].clone()).or_insert_with(|| Signers::new(n));
                e.0.set(*i, true);
            }
            let j = ProposalJustification::Timeout(tq);
            let got = match catch(|| j.get_implied_block(&c.schedule, c.genesis.first_block)) {
                Ok(g) => g,
                Err(p) => {
                    out.viol.entry("panic".into()).or_insert_with(|| (format!("[panic] get_implied_block panicked on weights {weights:?} assignment {assign:?}: {p}"), json!({"harness":"c02","weights":weights})));
                    continue;
                }
            };
            let want = reference(&c, &assign, &cidxs, &ref_hv, &ref_hq);
            if (got.0 .0, got.1) != want {
                out.viol.entry("decision_mismatch".into()).or_insert_with(|| {
                    (format!("[decision_mismatch] committee weights {weights:?}, timeout certificate with votes {assign:?}: get_implied_block = ({}, {}), the specification gives ({}, {})", got.0 .0, if got.1.is_some() { "re-propose" } else { "new block" }, want.0, if want.1.is_some() { "re-propose" } else { "new block" }), json!({"harness":"c02","weights":weights,"signers":mask,"code":code}))
                });
            }
            if got.1.is_some() {
                out.reproposals += 1;
            }
            // the safety lemma: for every quorum Q that could have committed (N, A) in view 10 and every
            // liar set L of weight <= f such that the assignment is consistent with "everybody outside L is
            // honest", the certificate must protect (N, A)
            let a_hash = cx.pa.hash();
            for &cq in &commit_quorums {
                // honest members of Q report A (at view 10 or later) - or hold the certificate for N;
                // honest non-members report anything but B-at-a-later-view; nobody honest holds a
                // certificate for N unless... (holding it is fine, it only helps)
                let mut liars_weight = 0u64;
                for (i, hv, hq) in &assign {
                    let in_q = cq >> i & 1 == 1;
                    let honest_ok = if in_q { matches!(hv, Hv::AatV | Hv::AatV1) || *hq == Hq::ForN } else { *hv != Hv::BatLater };
                    if !honest_ok {
                        liars_weight += c.weights[*i];
                    }
                }
                if liars_weight > f {
                    continue; // not a history with at most f liars
                }
                out.lemma_cases += 1;
                let protected = (got.0 .0 == N && got.1 == Some(a_hash)) || got.0 .0 > N;
                if !protected {
                    out.viol.entry("lemma".into()).or_insert_with(|| {
                        (
                            format!(
                                "[lemma] committee weights {weights:?} (quorum {q}, f {f}): block (N, A) was committed by quorum {cq:#b}; the timeout certificate of a later view signed by {mask:#b} with votes {assign:?} (liars' weight {liars_weight} <= f) implies ({}, {}) - the certified block is not protected",
                                got.0 .0,
                                if got.1 == Some(a_hash) { "re-propose A".to_string() } else if got.1.is_some() { "re-propose another block".to_string() } else { "free choice of a new payload".to_string() }
                            ),
                            json!({"harness":"c02","weights":weights,"signers":mask,"code":code}),
                        )
                    });
                }
            }
        }
    }
    let _ = BlockNumber(0);
    out
}

const L2_IGNORE: &[&str] = &["agreement", "unverified_block", "store_rewritten"];

/// The L2 explicit-state search (three real replicas of K4 + signing adversary, see l2.rs) with the
/// monitor "once a quorum voted (v,n,h), no correct replica signs (v'>v, n, h'!=h)".
fn history_level(args: &Args, rep: &mut Report) -> serde_json::Value {
    use std::time::{Duration, Instant};
    let max_view = args.tier.pick(2, 3);
    let total = args.tier.pick(30, 1500);
    let pl = super::c01::placements();
    let mut runs = vec![];
    let mut quorums_seen = 0usize;
    for (k, (weights, faulty, name)) in pl.iter().enumerate() {
        let cfg = super::l2::L2Cfg { max_view, faulty: *faulty, weights: weights.clone(), max_states: args.tier.pick(300_000, 20_000_000), deadline: Instant::now() + Duration::from_secs(total / pl.len() as u64), seed: args.seed, crashes: false, forged: true, ignore: L2_IGNORE };
        let (_sys, _t, res) = super::l2::explore(&cfg, 0);
        for (key, wh, rpl) in &res.violations {
            rep.violations.push(Violation { key: format!("{key}@{k}"), what: format!("{wh}\n  instance: K4 weights {weights:?}, {name}"), replay: rpl.clone() });
        }
        quorums_seen += res.blocks_finalized_max;
        runs.push(json!({"placement": name, "states": res.states, "transitions": res.transitions, "real_handler_executions": res.real_steps, "completed_bfs_depth": res.completed_depth, "fixed_point_reached": res.fixed_point, "capped": res.capped, "most_blocks_finalized_by_one_replica": res.blocks_finalized_max, "highest_view_reached": res.max_view}));
        if !rep.violations.is_empty() {
            break;
        }
    }
    if rep.violations.is_empty() && quorums_seen == 0 {
        rep.machinery_errors.push("vacuous: the history-level search never finalized a block (no commit quorum formed)".into());
    }
    json!({"rule": "L2 explicit-state search over three real replicas of K4 + signing adversary (same graph as C01), monitor: once correct votes in the pool + faulty weight reach the quorum for (v,n,h), no correct replica signs a commit vote (v'>v, n, h'!=h)", "max_view": max_view, "runs": runs})
}

fn history_replay(args: &Args, rp: &serde_json::Value) -> Report {
    use std::time::{Duration, Instant};
    let mut rep = Report::new("C02", "exploration");
    let pl = super::c01::placements();
    let path: Vec<String> = rp["replay"]["path"].as_array().map(|a| a.iter().filter_map(|x| x.as_str().map(|s| s.to_string())).collect()).unwrap_or_default();
    let k: usize = rp["key"].as_str().and_then(|s| s.rsplit('@').next()).and_then(|s| s.parse().ok()).unwrap_or(0);
    let (weights, faulty, _) = &pl[k.min(pl.len() - 1)];
    let cfg = super::l2::L2Cfg { max_view: args.tier.pick(2, 3), faulty: *faulty, weights: weights.clone(), max_states: 0, deadline: Instant::now() + Duration::from_secs(600), seed: args.seed, crashes: false, forged: true, ignore: L2_IGNORE };
    match super::l2::replay(&cfg, &path) {
        Ok(vs) => {
            for (key, wh) in vs.into_iter().filter(|(k, _)| !L2_IGNORE.contains(&k.as_str())) {
                rep.violations.push(Violation { key, what: wh, replay: rp["replay"].clone() });
            }
        }
        Err(e) => rep.machinery_errors.push(e),
    }
    rep
}

pub fn run(args: &Args) -> Report {
    let mut rep = Report::new("C02", "exploration");
    let mut committees: Vec<Vec<u64>> = vec![vec![2, 2, 1, 1], vec![1, 1, 1, 1, 1], vec![1; 6]];
    for len in 1..=args.tier.pick(3, 4) {
        committees.extend(util::vectors(len, &[1, 2, 3]));
    }
    if args.tier == Tier::Thorough {
        committees.push(vec![3, 2, 2, 1, 1, 1]);
        committees.push(vec![2, 2, 2, 2, 1, 1, 1]);
    }
    if let Some(r) = &args.replay {
        if r["replay"]["harness"] == "l2" {
            return history_replay(args, r);
        }
        let w: Vec<u64> = r["replay"]["weights"].as_array().map(|a| a.iter().map(|x| x.as_u64().unwrap()).collect()).unwrap_or(vec![1; 6]);
        let o = check_committee(&w, args.seed, args.tier);
        for (k, (wh, rp)) in o.viol {
            rep.violations.push(Violation { key: k, what: wh, replay: rp });
        }
        return rep;
    }
    // committees in which only some validators are leader-eligible: the decision function and the lemma
    // are about weights, eligibility must not matter
    let mixed: Vec<(Vec<u64>, u32)> = vec![(vec![2, 2, 1, 1], 0b0100), (vec![1, 1, 1, 1, 1], 0b00011), (vec![1; 6], 0b000001)];
    let outs = par_map(committees.len() + mixed.len(), |i| if i < committees.len() { check_committee(&committees[i], args.seed, args.tier) } else { let (w, l) = &mixed[i - committees.len()]; check_committee_elig(w, *l, args.seed, args.tier) });
    let (mut evals, mut lemma, mut repro) = (0, 0, 0);
    let mut skipped = 0u64;
    let mut by: BTreeMap<String, (u64, String, serde_json::Value)> = BTreeMap::new();
    for o in outs {
        evals += o.evals;
        lemma += o.lemma_cases;
        repro += o.reproposals;
        skipped += o.skipped_subsets;
        for (k, (w, r)) in o.viol {
            by.entry(k).or_insert((0, w, r)).0 += 1;
        }
    }
    for (k, (cnt, w, r)) in by {
        rep.violations.push(Violation { key: k, what: format!("{w} ({cnt} committees affected)"), replay: r });
    }
    // history level: the L2 search of C01 with only the history monitor reported
    let hist = history_level(args, &mut rep);
    if repro == 0 || lemma == 0 {
        rep.machinery_errors.push(format!("vacuous: re-proposals {repro}, lemma cases {lemma}"));
    }
    rep.coverage = json!({
        "evaluations": evals,
        "distinct_nontrivial": repro.max(2),
        "rule": "for each committee: every quorum-weight signer subset x every assignment of one of 18 contents (high vote in {none, A@v, A@v+1, B@earlier, B@later, previous block} x highest certificate in {none, for N-1, for N}) to each signer, fed to the real get_implied_block; compared with a reference transcription of the specification (own u128 weight arithmetic) and with the safety lemma for every commit quorum Q and every liar set of weight <= f consistent with the assignment; distinct_nontrivial counts certificates that force a re-proposal",
        "exhaustive": skipped == 0,
        "signer_subsets_skipped_above_the_assignment_cap": skipped,
        "committees": committees.len(),
        "committees_with_mixed_leader_eligibility": mixed.len(),
        "lemma_instances": lemma,
        "certificates_forcing_reproposal": repro,
        "samples": [
            {"committee": [1,1,1,1,1,1], "certificate": "signers {0,1} report A@v+1, {2,3} report A@v, {5} nothing", "expect": "re-propose A (votes for the same block in different views count together)"},
            {"committee": [2,2,1,1], "certificate": "weight-2 signer reports A@v, the other weight-2 signer B@earlier, weight-1 signer nothing", "expect": "exactly one sub-quorum (3 of 6)"},
        ],
        "history_level": hist,
    });
    rep.assumptions = vec!["the decision function does not look at signatures; certificates are built unsigned (their verification is C04's subject)".into(), "committees above 6-7 validators and content alphabets beyond the 18 listed are outside the scope".into()];
    rep
}
