//! C10 — no input from the network can crash a node.
//! (a) decoders: every wire type x {deviation-bounded proto values, every truncation, every
//!     single-byte substitution} -> no panic, bounded allocation;
//! (b) connection stages fed through the real entry points over a scripted transport:
//!     frame::recv_proto, preface::accept, noise handshake and transport frames, every mux frame
//!     header in three stream states, mux handshakes;
//! (c) well-formed but semantically extreme messages through the real consumers: peer-announced
//!     block store states through the gossip fetch queue, validator address announcements through
//!     the address book, consensus messages signed by a committee member through the replica.
use std::{collections::BTreeMap, sync::Arc};

use serde_json::json;
use zksync_concurrency::{ctx, limiter, scope, sync, time};
use zksync_consensus_engine::{BlockStoreState, Last};
use zksync_consensus_network::verif as nv;
use zksync_consensus_roles::validator::{self, v2, BlockNumber, Payload};

use super::{util, wiretypes};
use crate::{
    alloc,
    core::{self, catch, par_map, Report, Tier, Violation},
    pipe, sched, wire, Args,
};

#[derive(Default)]
struct Stats {
    cases: u64,
    ok: u64,
    err: u64,
    max_alloc_ratio: f64,
    max_alloc: usize,
    viol: BTreeMap<String, (String, serde_json::Value)>,
}

impl Stats {
    fn merge(&mut self, o: Stats) {
        self.cases += o.cases;
        self.ok += o.ok;
        self.err += o.err;
        self.max_alloc_ratio = self.max_alloc_ratio.max(o.max_alloc_ratio);
        self.max_alloc = self.max_alloc.max(o.max_alloc);
        for (k, v) in o.viol {
            self.viol.entry(k).or_insert(v);
        }
    }
}

fn hex(b: &[u8]) -> String {
    b.iter().take(2048).map(|x| format!("{x:02x}")).collect::<String>()
}

/// Strips addresses / line details so that one defect gives one class.
fn panic_class(p: &str) -> String {
    let loc = p.split("panicked at ").nth(1).and_then(|s| s.split(':').next()).unwrap_or("?");
    let file = loc.rsplit('/').next().unwrap_or(loc);
    let line = p.split("panicked at ").nth(1).and_then(|s| s.split(':').nth(1)).unwrap_or("?");
    format!("{file}:{line}")
}

// ---------------------------------------------------------------------------------------------
// (a) decoders

const ALLOC_FACTOR: usize = 64;
const ALLOC_SLACK: usize = 1 << 20;

fn decode_case(wt: &nv::WireType, input: &[u8], how: &str, st: &mut Stats) {
    st.cases += 1;
    alloc::reset();
    let r = catch(|| (wt.decode_encode)(input));
    let (peak, _big) = alloc::peak();
    st.max_alloc = st.max_alloc.max(peak);
    st.max_alloc_ratio = st.max_alloc_ratio.max(peak as f64 / (input.len().max(64)) as f64);
    match r {
        Ok(Ok(_)) => st.ok += 1,
        Ok(Err(_)) => st.err += 1,
        Err(p) => {
            let k = format!("decoder_panic:{}:{}", wt.name, panic_class(&p));
            st.viol.entry(k.clone()).or_insert_with(|| (format!("[{k}] decoding {} ({how}) panicked: {}", wt.name, p.lines().next().unwrap_or("")), json!({"harness":"c10-decode","type":wt.name,"input_hex":hex(input)})));
        }
    }
    if peak > ALLOC_FACTOR * input.len() + ALLOC_SLACK {
        let k = format!("decoder_alloc:{}", wt.name);
        st.viol.entry(k.clone()).or_insert_with(|| (format!("[{k}] decoding {} bytes of {} ({how}) allocated {peak} bytes", input.len(), wt.name), json!({"harness":"c10-decode","type":wt.name,"input_hex":hex(input)})));
    }
}

fn decoders_item(wt: &nv::WireType, si: usize, tier: Tier, st: &mut Stats) {
    let s = &wt.samples[si];
    decode_case(wt, s, &format!("sample #{si}"), st);
    // proto-level deviations
    if let Some(tree) = wire::parse(s, &wt.descriptor) {
        let paths = wire::paths(&tree);
        let mut singles = vec![];
        for (pi, p) in paths.iter().enumerate() {
            for k in 0..wire::mutation_count(&tree, p) {
                singles.push((pi, k));
            }
        }
        for &(pi, k) in &singles {
            let mut t = tree.clone();
            let d = wire::mutate(&mut t, &paths[pi], k);
            decode_case(wt, &wire::write(&t), &format!("sample #{si} with {d} at {:?}", paths[pi]), st);
        }
        if tier == Tier::Thorough && singles.len() <= 300 {
            for (ai, &(pa, ka)) in singles.iter().enumerate() {
                for &(pb, kb) in &singles[ai + 1..] {
                    if pa == pb || paths[pb].starts_with(&paths[pa]) || paths[pa].starts_with(&paths[pb]) {
                        continue;
                    }
                    let mut t = tree.clone();
                    let d2 = wire::mutate(&mut t, &paths[pb], kb);
                    let d1 = wire::mutate(&mut t, &paths[pa], ka);
                    decode_case(wt, &wire::write(&t), &format!("sample #{si} with {d1} and {d2}"), st);
                }
            }
        }
    }
    // byte level: every truncation, every single-byte substitution
    let limit = tier.pick(700, 4000);
    if s.len() <= limit {
        for n in 0..s.len() {
            decode_case(wt, &s[..n], &format!("sample #{si} truncated to {n} bytes"), st);
        }
        for off in 0..s.len() {
            for b in [0x00u8, 0x01, 0x7f, 0x80, 0xff] {
                if s[off] == b {
                    continue;
                }
                let mut x = s.clone();
                x[off] = b;
                decode_case(wt, &x, &format!("sample #{si} with byte {off} := {b:#04x}"), st);
            }
        }
    }
}

// ---------------------------------------------------------------------------------------------
// (b) connection stages

/// Runs `f` on a fresh current-thread runtime with a manual clock; `f` gets the root ctx.
fn on_rt<T>(f: impl for<'a> FnOnce(&'a ctx::Ctx, Arc<sched::Idle>, ctx::ManualClock) -> std::pin::Pin<Box<dyn std::future::Future<Output = T> + 'a>>) -> T {
    let ch = core::Chooser::new(vec![], None);
    sched::run(&ch, |idle| async move {
        let clock = ctx::ManualClock::new();
        let ctx = ctx::test_root(&clock);
        f(&ctx, idle, clock).await
    })
}

fn frame_bytes(body: &[u8]) -> Vec<u8> {
    let mut v = (body.len() as u32).to_le_bytes().to_vec();
    v.extend_from_slice(body);
    v
}

fn stage_case(st: &mut Stats, class: &str, desc: String, replay: serde_json::Value, alloc_limit: usize, f: impl FnOnce() -> Result<(), String>) -> bool {
    st.cases += 1;
    alloc::reset();
    let r = catch(f);
    let (peak, _) = alloc::peak();
    st.max_alloc = st.max_alloc.max(peak);
    let panicked = r.is_err();
    match r {
        Ok(Ok(())) => st.ok += 1,
        Ok(Err(_)) => st.err += 1,
        Err(p) => {
            let k = format!("{class}_panic:{}", panic_class(&p));
            st.viol.entry(k.clone()).or_insert_with(|| (format!("[{k}] {desc}: panicked: {}", p.lines().next().unwrap_or("")), replay.clone()));
        }
    }
    if peak > alloc_limit {
        let k = format!("{class}_alloc");
        st.viol.entry(k.clone()).or_insert_with(|| (format!("[{k}] {desc}: allocated {peak} bytes (limit {alloc_limit})"), replay));
    }
    !panicked
}

/// frame::recv_proto over a transport that delivers `input` and then EOF.
fn stage_frames(tier: Tier, st: &mut Stats) {
    let max = 1000usize;
    let ep = {
        let types = wiretypes::all(0, false);
        types.iter().find(|t| t.name == "preface::Endpoint").unwrap().samples[0].clone()
    };
    let mut inputs: Vec<(String, Vec<u8>)> = vec![];
    for len in [0u32, 1, 2, 999, 1000, 1001, 65535, 65536, 1 << 24, u32::MAX - 1, u32::MAX] {
        for body in [0usize, 1, 3, 999, 1000, 1001] {
            if tier == Tier::Quick && body > 3 && body != 1000 {
                continue;
            }
            let mut v = len.to_le_bytes().to_vec();
            v.extend(std::iter::repeat(0x0a).take(body));
            inputs.push((format!("length field {len}, {body} body bytes then EOF"), v));
        }
    }
    for n in 0..4 {
        inputs.push((format!("{n} bytes of the length field then EOF"), vec![1u8; n]));
    }
    inputs.push(("well-formed Endpoint frame".into(), frame_bytes(&ep)));
    for (desc, input) in inputs {
        let i2 = input.clone();
        stage_case(st, "frame", format!("frame::recv_proto(max_size={max}) fed {desc}"), json!({"harness":"c10-frame","input_hex":hex(&input)}), max + (64 << 10), move || {
            on_rt(|ctx, _idle, _clock| {
                Box::pin(async move {
                    let (mut a, b) = pipe::pair();
                    pipe::inject(&b.tx, &i2);
                    drop(b);
                    nv::recv_endpoint_frame(ctx, &mut a, max).await
                })
            })
        });
        let i3 = input.clone();
        stage_case(st, "frame", format!("frame::recv_proto::<PushValidatorAddrs>(max_size={max}) fed {desc}"), json!({"harness":"c10-frame","input_hex":hex(&input)}), max + (64 << 10), move || {
            on_rt(|ctx, _idle, _clock| {
                Box::pin(async move {
                    let (mut a, b) = pipe::pair();
                    pipe::inject(&b.tx, &i3);
                    drop(b);
                    nv::recv_addrs_frame(ctx, &mut a, max).await.map(|_| ())
                })
            })
        });
    }
}

/// preface::accept and the noise layer fed raw bytes.

/// RPC-level framing: the real `frame::mux_recv_proto` (what every RPC server / client reads a message
/// with) on a sub-stream of two real `Mux` endpoints, fed by a peer that writes a length prefix from a
/// boundary set followed by 0 / 1 / 3 / `len` body bytes, or only part of the prefix, and closes.
fn stage_rpc_frames(tier: Tier, st: &mut Stats) {
    let max = 1000usize;
    let mut inputs: Vec<(String, Vec<u8>)> = vec![];
    for len in [0u32, 1, 2, 999, 1000, 1001, 65535, 65536, 1 << 24, 1 << 28, u32::MAX] {
        for body in [0usize, 1, 3, 1000, 1001, 2100] {
            if tier == Tier::Quick && (body == 1 || body == 1001) {
                continue;
            }
            let mut v = len.to_le_bytes().to_vec();
            v.extend((0..body).map(|i| if i % 2 == 0 { 0x08 } else { 0x01 }));
            inputs.push((format!("length field {len}, {body} body bytes, then the sub-stream is closed"), v));
        }
    }
    for n in 0..4 {
        inputs.push((format!("{n} bytes of the length field, then the sub-stream is closed"), vec![1u8; n]));
    }
    for (desc, input) in inputs {
        let i2 = input.clone();
        // a message whose prefix or body is cut short, or that is larger than the maximum, cannot be delivered
        let declared = if input.len() >= 4 { Some(u32::from_le_bytes([input[0], input[1], input[2], input[3]]) as usize) } else { None };
        let must_fail = match declared {
            None => true,
            Some(l) => l > max || input.len() - 4 < l,
        };
        let accepted = Arc::new(std::sync::atomic::AtomicBool::new(false));
        let acc2 = accepted.clone();
        let desc2 = desc.clone();
        let ok = stage_case(st, "rpc_frame", format!("frame::mux_recv_proto(max_size={max}) on a mux sub-stream fed {desc}"), json!({"harness":"c10-rpc-frame","input_hex":hex(&input)}), max + (512 << 10), move || {
            let accepted = acc2;
            on_rt(|root, _idle, _clock| {
                Box::pin(async move {
                    let (pa, pb) = pipe::pair();
                    let cfg = || nv::VMuxConfig { read_frame_size: 256, read_buffer_size: 1024, read_frame_count: 4, write_frame_size: 256 };
                    let c0 = nv::VQueue::new(root, 1, limiter::Rate::INF);
                    let a0 = nv::VQueue::new(root, 1, limiter::Rate::INF);
                    let m1 = nv::VMux::new(cfg(), vec![], vec![(0, c0.clone())]);
                    let m2 = nv::VMux::new(cfg(), vec![(0, a0.clone())], vec![]);
                    let (c0, a0, i2) = (&c0, &a0, &i2);
                    let r: Result<Result<usize, String>, ctx::Error> = scope::run!(root, |ctx, s| async move {
                        s.spawn_bg(async move {
                            let _ = m1.run(ctx, pa).await;
                            Ok(())
                        });
                        s.spawn_bg(async move {
                            let _ = m2.run(ctx, pb).await;
                            Ok(())
                        });
                        s.spawn_bg(async move {
                            let mut st = c0.open(ctx).await?;
                            let _ = st.write_all(ctx, i2).await;
                            let _ = st.flush(ctx).await;
                            let _rh = st.close_write();
                            // keep the read half until the scope ends
                            ctx.canceled().await;
                            Ok(())
                        });
                        let mut st = a0.open(ctx).await?;
                        Ok(st.recv_ping_frame(ctx, max).await)
                    })
                    .await;
                    match r {
                        Ok(x) => {
                            accepted.store(x.is_ok(), std::sync::atomic::Ordering::SeqCst);
                            x.map(|_| ())
                        }
                        Err(e) => Err(format!("{e:?}")),
                    }
                })
            })
        });
        if must_fail && accepted.load(std::sync::atomic::Ordering::SeqCst) {
            st.viol.entry("rpc_frame_accepted".into()).or_insert((format!("[rpc_frame_accepted] frame::mux_recv_proto(max_size={max}) delivered a message although the sub-stream carried {desc2} (truncated or oversized)"), json!({"harness":"c10-rpc-frame","input_hex":hex(&input)})));
        }
        if !ok {
            break;
        }
    }
}

fn stage_preface_noise(tier: Tier, st: &mut Stats) {
    let types = wiretypes::all(0, false);
    let enc = types.iter().find(|t| t.name == "preface::Encryption").unwrap().samples[0].clone();
    let mut scripts: Vec<(String, Vec<u8>)> = vec![];
    scripts.push(("nothing".into(), vec![]));
    scripts.push(("an Endpoint frame instead of Encryption".into(), frame_bytes(&types.iter().find(|t| t.name == "preface::Endpoint").unwrap().samples[0])));
    scripts.push(("an oversized first frame".into(), (20_000u32).to_le_bytes().to_vec()));
    // valid Encryption frame, then a noise handshake message of each length / filling
    for len in [0u16, 1, 31, 32, 33, 47, 48, 49, 96, 65535] {
        for fill in [0x00u8, 0xff, 0x5a] {
            for deliver_all in [true, false] {
                if tier == Tier::Quick && (!deliver_all) && fill != 0 {
                    continue;
                }
                let mut v = frame_bytes(&enc);
                v.extend_from_slice(&len.to_le_bytes());
                let n = if deliver_all { len as usize } else { (len as usize) / 2 };
                v.extend(std::iter::repeat(fill).take(n));
                scripts.push((format!("Encryption frame, then a noise handshake message announcing {len} bytes of {fill:#04x} ({n} delivered) then EOF"), v));
            }
        }
    }
    for (desc, script) in scripts {
        let s2 = script.clone();
        stage_case(st, "preface", format!("preface::accept fed {desc}"), json!({"harness":"c10-preface","input_hex":hex(&script)}), 1 << 20, move || {
            on_rt(|ctx, _idle, _clock| {
                Box::pin(async move {
                    let (a, b) = pipe::pair();
                    pipe::inject(&b.tx, &s2);
                    drop(b);
                    nv::preface_accept(ctx, a).await.map(|_| ())
                })
            })
        });
    }
    // after a genuine noise handshake: raw transport frames injected into the server's inbound side
    let mut frames: Vec<(String, Vec<u8>)> = vec![];
    for len in [0u16, 1, 15, 16, 17, 100, 65535] {
        for fill in [0x00u8, 0xff] {
            for delivered in [len as usize, (len as usize).saturating_sub(1)] {
                let mut v = len.to_le_bytes().to_vec();
                v.extend(std::iter::repeat(fill).take(delivered));
                frames.push((format!("a transport frame with length field {len}, {delivered} bytes of {fill:#04x}, then EOF"), v));
            }
        }
    }
    frames.push(("one byte of a length field then EOF".into(), vec![7]));
    for (desc, raw) in frames {
        let r2 = raw.clone();
        stage_case(st, "noise", format!("noise::Stream::poll_read fed {desc}"), json!({"harness":"c10-noise","input_hex":hex(&raw)}), 1 << 20, move || {
            on_rt(|ctx, _idle, _clock| {
                Box::pin(async move {
                    let (a, b) = pipe::pair();
                    let inbound_of_server = a.rx.clone();
                    let (cl, sv) = scope::run!(ctx, |ctx, s| async {
                        let c = s.spawn(async { Ok(nv::VNoise::client(ctx, b).await) });
                        let sv = nv::VNoise::server(ctx, a).await;
                        Ok::<_, ctx::Error>((c.join(ctx).await?, sv))
                    })
                    .await
                    .map_err(|e| format!("{e:?}"))?;
                    let (cl, mut sv) = (cl.map_err(|e| format!("client: {e:?}"))?, sv.map_err(|e| format!("server: {e:?}"))?);
                    if cl.id() != sv.id() {
                        return Err("MACHINERY: session ids differ".into());
                    }
                    pipe::inject(&inbound_of_server, &r2);
                    pipe::close(&inbound_of_server);
                    let mut buf = vec![0u8; 100];
                    let r = zksync_concurrency::io::read(ctx, &mut sv, &mut buf).await.map_err(|_| "canceled".to_string())?;
                    drop(cl);
                    match r {
                        Ok(0) => Err("eof".into()),
                        Ok(n) => Err(format!("UNEXPECTED-PLAINTEXT: {n} bytes decrypted from garbage")),
                        Err(e) => Err(format!("{e}")),
                    }
                })
            })
            .and_then(|()| Ok(()))
        });
    }
}

fn mux_handshake(accept: &[(u64, u32)], connect: &[(u64, u32)]) -> Vec<u8> {
    use wire::{Field, Val};
    let cap = |num: u32, (id, n): (u64, u32)| Field { num, val: Val::Msg(vec![Field { num: 1, val: Val::Varint(id) }, Field { num: 2, val: Val::Varint(n as u64) }]) };
    let mut f: Vec<Field> = accept.iter().map(|c| cap(5, *c)).collect();
    f.extend(connect.iter().map(|c| cap(6, *c)));
    frame_bytes(&wire::write(&f))
}

/// One real Mux (capability 0 accept + connect, 2 streams each) against raw bytes.
fn run_mux_against(script: Vec<u8>, max_streams: u32) -> Result<(), String> {
    on_rt(move |ctx, idle, _clock| {
        Box::pin(async move {
            let (a, b) = pipe::pair();
            pipe::inject(&b.tx, &script);
            let qa = nv::VQueue::new(ctx, max_streams, limiter::Rate::INF);
            let qc = nv::VQueue::new(ctx, max_streams, limiter::Rate::INF);
            let mux = nv::VMux::new(nv::VMuxConfig { read_frame_size: 64, read_buffer_size: 1024, read_frame_count: 8, write_frame_size: 64 }, vec![(0, qa.clone())], vec![(0, qc.clone())]);
            let res = scope::run!(ctx, |ctx, s| async {
                let h = s.spawn(async { Ok(mux.run(ctx, a).await) });
                // the application asks for one outbound stream, so that OPEN(0) is on its way
                s.spawn_bg(async {
                    let _ = qc.open(ctx).await;
                    Ok(())
                });
                idle.settle().await;
                // nothing more will arrive: close the transport
                drop(b);
                Ok::<_, ctx::Error>(h.join(ctx).await?)
            })
            .await;
            match res {
                Ok(r) => r,
                Err(e) => Err(format!("scope: {e:?}")),
            }
        })
    })
}

fn stage_mux(tier: Tier, st: &mut Stats) -> u64 {
    // handshakes
    let hs: Vec<(String, Vec<u8>)> = vec![
        ("no capabilities".into(), mux_handshake(&[], &[])),
        ("announcing 0 streams".into(), mux_handshake(&[(0, 0)], &[(0, 0)])),
        ("announcing 1 stream".into(), mux_handshake(&[(0, 1)], &[(0, 1)])),
        ("announcing 2^13 streams".into(), mux_handshake(&[(0, 1 << 13)], &[(0, 1 << 13)])),
        ("announcing 2^32-1 streams".into(), mux_handshake(&[(0, u32::MAX)], &[(0, u32::MAX)])),
        ("announcing 2^32-1 streams on 3 capabilities".into(), mux_handshake(&[(0, u32::MAX), (1, u32::MAX), (u64::MAX, u32::MAX)], &[(0, u32::MAX), (1, u32::MAX)])),
        ("duplicate capability".into(), mux_handshake(&[(0, 1), (0, 2)], &[])),
        ("garbage".into(), frame_bytes(&[0xff; 40])),
        ("oversized".into(), (1u32 << 20).to_le_bytes().to_vec()),
        ("truncated".into(), mux_handshake(&[(0, 1)], &[(0, 1)])[..5].to_vec()),
    ];
    for ours in [2u32, 1 << 13] {
        // differential bound: whatever the peer announces, the node must not allocate more than
        // it does for a peer announcing exactly the node's own limits
        alloc::reset();
        let _ = catch(|| run_mux_against(mux_handshake(&[(0, ours)], &[(0, ours)]), ours));
        let baseline = alloc::peak().0;
        for (desc, h) in &hs {
            let h2 = h.clone();
            stage_case(st, "mux_handshake", format!("Mux::run (our max_streams {ours}) fed a handshake {desc}"), json!({"harness":"c10-mux","input_hex":hex(h)}), baseline + baseline / 8 + (1 << 20), move || run_mux_against(h2, ours));
        }
    }
    // every header x stream state x DATA length
    let good = mux_handshake(&[(0, 2)], &[(0, 2)]);
    let open_accept0: [u8; 2] = 0x0000u16.to_le_bytes(); // OPEN | ACCEPT | id 0 (answer to our OPEN on the connect side)
    let open_connect0: [u8; 2] = 0x2000u16.to_le_bytes(); // OPEN | CONNECT | id 0 (peer opens towards our accept side)
    let close_connect0: [u8; 2] = 0xA000u16.to_le_bytes();
    let close_accept0: [u8; 2] = 0x8000u16.to_le_bytes();
    let states: Vec<(&str, Vec<u8>)> = vec![
        ("before OPEN", vec![]),
        ("streams open", [open_accept0, open_connect0].concat()),
        ("after CLOSE", [open_accept0, open_connect0, close_accept0, close_connect0].concat()),
    ];
    let headers: Vec<u16> = match tier {
        Tier::Thorough => (0..=u16::MAX).collect(),
        // quick: all 8 kind/side combinations x ids {0,1,2,3,8191} and every 37th header
        Tier::Quick => {
            let mut v: Vec<u16> = vec![];
            for top in 0..8u16 {
                for id in [0u16, 1, 2, 3, 4, 0x1fff] {
                    v.push(top << 13 | id);
                }
            }
            v.extend((0..=u16::MAX).step_by(37));
            v.sort();
            v.dedup();
            v
        }
    };
    let items: Vec<(u16, usize)> = headers.iter().flat_map(|h| (0..states.len()).map(move |s| (*h, s))).collect();
    let outs = par_map(items.len(), |i| {
        let (h, si) = items[i];
        let mut st = Stats::default();
        for (dl, dn) in [(0u16, 0usize), (1, 1), (64, 64), (65535, 100)] {
            // DATA length field is only read for DATA frames; we always append it + some bytes
            let mut script = good.clone();
            script.extend_from_slice(&states[si].1);
            script.extend_from_slice(&h.to_le_bytes());
            script.extend_from_slice(&dl.to_le_bytes());
            script.extend(std::iter::repeat(0xabu8).take(dn));
            let s2 = script.clone();
            stage_case(&mut st, "mux_frame", format!("Mux::run in state '{}' fed frame header {h:#06x} followed by length {dl} and {dn} bytes", states[si].0), json!({"harness":"c10-mux","input_hex":hex(&script)}), 4 << 20, move || run_mux_against(s2, 2));
            if dl == 0 && (h & 0xC000) != 0x4000 {
                break; // the trailing bytes are interpreted as further headers; one variant is enough
            }
        }
        st
    });
    let n = outs.len() as u64;
    for o in outs {
        st.merge(o);
    }
    n
}

// ---------------------------------------------------------------------------------------------
// (c) semantically extreme, well-formed messages through the real consumers

const B64: [u64; 6] = [0, 1, 2, u64::MAX / 2, u64::MAX - 1, u64::MAX];

fn semantic_world(seed: u64) -> crate::bftsim::World {
    let c = util::committee(seed, &[1, 1, 1, 1, 1, 1]);
    crate::bftsim::World { c, proposals: vec![Payload(vec![0x58])], invalid_payload: Payload(vec![0xBA]) }
}

/// (c1) A peer announces (push_block_store_state; only `verify()`-ed, never authenticated) the
/// state `state`; our node wants block `n`. The real fetch queue decides whether to ask that peer.
/// Cases where the queue's decision differs from the announced range are returned (they are C19's
/// business: "requests go only to peers that have the block"), panics are recorded in `st`.
pub fn stage_semantic_fetch_mismatches(seed: u64) -> (u64, Vec<(String, serde_json::Value)>) {
    let mut st = Stats::default();
    let m = stage_semantic_fetch(&mut st, &semantic_world(seed));
    (st.cases, m)
}

fn stage_semantic_fetch(st: &mut Stats, w: &crate::bftsim::World) -> Vec<(String, serde_json::Value)> {
    let mut mismatches = vec![];
    let mut lasts: Vec<(String, Option<Last>)> = vec![("None".into(), None)];
    for &l in &B64 {
        lasts.push((format!("PreGenesis({l})"), Some(Last::PreGenesis(BlockNumber(l)))));
        // a certificate nobody checks at this stage: the announced range end is its block number
        let vote = v2::ReplicaCommit { view: w.view(l), proposal: v2::BlockHeader { number: BlockNumber(l), payload: Payload(vec![1]).hash() } };
        lasts.push((format!("FinalV2(unsigned certificate for block {l} in view {l})"), Some(Last::FinalV2(w.commit_qc(&vote, 0)))));
    }
    for &first in &B64 {
        for (lname, last) in &lasts {
            let state = BlockStoreState { first: BlockNumber(first), last: last.clone() };
            let verified = catch(|| state.verify().is_ok());
            let verified = match verified {
                Ok(v) => v,
                Err(p) => {
                    let k = format!("semantic_fetch_panic:{}", panic_class(&p));
                    st.viol.entry(k.clone()).or_insert_with(|| (format!("[{k}] BlockStoreState{{first: {first}, last: {lname}}}.verify() panicked: {}", p.lines().next().unwrap_or("")), json!({"harness":"c10-semantic"})));
                    continue;
                }
            };
            if !verified {
                st.cases += 1;
                st.err += 1;
                continue;
            }
            for &n in &B64 {
                let want = last.as_ref().map_or(false, |l| {
                    let l = match l {
                        Last::PreGenesis(x) => x.0,
                        Last::FinalV2(q) => q.message.proposal.number.0,
                    };
                    first <= n && n <= l
                });
                let got = Arc::new(std::sync::Mutex::new(None::<u64>));
                let (got2, state2) = (got.clone(), state.clone());
                let desc = format!("a peer announces the block store state {{first: {first}, last: {lname}}} while block {n} is wanted");
                let completed = stage_case(st, "semantic_fetch", desc.clone(), json!({"harness":"c10-semantic","part":"fetch","first":first,"last":lname,"wanted":n}), 1 << 20, move || {
                    on_rt(|ctx, idle, _clock| {
                        Box::pin(async move {
                            let q = nv::VFetchQueue::default();
                            let avail = sync::watch::channel(state2).0;
                            let (q, avail, got2, idle) = (&q, &avail, &got2, &idle);
                            let r: anyhow::Result<()> = async move {
                                scope::run!(ctx, |ctx, s| async move {
                                    s.spawn_bg(async move {
                                        let _ = q.request(ctx, BlockNumber(n)).await;
                                        Ok(())
                                    });
                                    s.spawn_bg(async move {
                                        let mut sub = avail.subscribe();
                                        if let Ok((m, c)) = q.accept_block(ctx, &mut sub).await {
                                            *got2.lock().unwrap() = Some(m.0);
                                            c.success();
                                        }
                                        Ok(())
                                    });
                                    idle.settle().await;
                                    Ok(())
                                })
                                .await
                            }
                            .await;
                            r.map_err(|e| format!("{e:#}"))
                        })
                    })
                });
                let got = *got.lock().unwrap();
                if completed && got != want.then_some(n) {
                    mismatches.push((format!("{desc}: the fetch queue handed out {got:?}, the announced range {} the block", if want { "contains" } else { "does not contain" }), json!({"harness":"c19-extreme","first":first,"last":lname,"wanted":n})));
                }
            }
        }
    }
    mismatches
}

/// (c2) Address announcements signed by committee members / outsiders with extreme versions and
/// timestamps, offered to the real address book in every order of a small batch.
fn stage_semantic_addrs(st: &mut Stats, w: &crate::bftsim::World) {
    let addrs = wiretypes::net_addresses();
    let outsider: validator::SecretKey = {
        use rand::Rng as _;
        util::rng(7, 0xc10).gen()
    };
    let keys = [&w.c.keys[0], &w.c.keys[1], &outsider];
    // singles and ordered pairs of extreme announcements
    let picks: Vec<usize> = (0..addrs.len()).step_by(3).collect();
    let mut batches: Vec<Vec<(usize, usize)>> = vec![vec![]];
    for &a in &picks {
        for k in 0..keys.len() {
            batches.push(vec![(k, a)]);
        }
    }
    for &a in &picks {
        for &b in &picks {
            batches.push(vec![(0, a), (0, b)]);
            batches.push(vec![(0, a), (1, b)]);
        }
    }
    for batch in batches {
        let signed: Vec<Arc<validator::Signed<validator::NetAddress>>> = batch.iter().map(|&(k, a)| Arc::new(keys[k].sign_msg(addrs[a].clone()))).collect();
        let desc = format!("push_validator_addrs with {:?}", batch.iter().map(|&(k, a)| format!("key#{k} signs {:?}", addrs[a])).collect::<Vec<_>>());
        let sched = w.c.schedule.clone();
        stage_case(st, "semantic_addrs", desc, json!({"harness":"c10-semantic","part":"addrs","batch":batch}), 1 << 20, move || {
            on_rt(|_ctx, _idle, _clock| {
                Box::pin(async move {
                    let watch = nv::VAddrsWatch::default();
                    let r1 = watch.update(&sched, &signed).await;
                    // a second delivery of the same batch (peers repeat themselves)
                    let r2 = watch.update(&sched, &signed).await;
                    let _ = watch.current();
                    r1.and(r2)
                })
            })
        });
    }
}

/// (c3) Consensus messages signed by one committee member (weight <= max faulty weight) whose views
/// and block numbers are extreme, through the real replica handlers (bftsim::step), from the
/// initial state and from a state in which the replica has already voted.
fn stage_semantic_replica(st: &mut Stats, w: &crate::bftsim::World) {
    use crate::bftsim::{step, Input, Local, Policy};
    let z = 5usize; // the signing (faulty) member; the replica under test is 0
    let p = w.proposals[0].clone();
    let mut msgs: Vec<(String, crate::bftsim::SignedMsg)> = vec![];
    for &v in &B64 {
        for &n in &B64 {
            let vote = w.commit_vote(v, n, &p);
            msgs.push((format!("ReplicaCommit(view {v}, block {n})"), w.signed_commit(z, &vote)));
            let own_qc = w.commit_qc(&vote, 1 << z);
            for (hv, hq, name) in [(None, None, "no high vote, no high qc"), (Some(vote.clone()), None, "high vote only"), (Some(vote.clone()), Some(own_qc.clone()), "high vote and a certificate signed by itself only"), (None, Some(own_qc.clone()), "certificate signed by itself only")] {
                for &tv in &[0u64, v] {
                    let t = w.timeout_vote(tv, hv.clone(), hq.clone());
                    msgs.push((format!("ReplicaTimeout(view {tv}; {name} for view {v}, block {n})"), w.signed_timeout(z, &t)));
                    let tqc = w.timeout_qc(tv, &[(z, t.clone())]);
                    let j = v2::ProposalJustification::Timeout(tqc);
                    msgs.push((format!("ReplicaNewView(timeout certificate of view {tv} with one vote: {name} for view {v}, block {n})"), w.new_view(z, &j)));
                    msgs.push((format!("LeaderProposal(timeout certificate of view {tv} with one vote: {name} for view {v}, block {n}; with payload)"), w.proposal(z, &j, Some(p.clone()))));
                    msgs.push((format!("LeaderProposal(timeout certificate of view {tv} with one vote: {name} for view {v}, block {n}; no payload)"), w.proposal(z, &j, None)));
                }
            }
            let j = v2::ProposalJustification::Commit(own_qc.clone());
            msgs.push((format!("ReplicaNewView(commit certificate view {v}, block {n}, one signer)"), w.new_view(z, &j)));
            msgs.push((format!("LeaderProposal(commit certificate view {v}, block {n}, one signer; payload)"), w.proposal(z, &j, Some(p.clone()))));
            // empty and all-ones signer sets
            let empty = w.commit_qc(&vote, 0);
            msgs.push((format!("ReplicaNewView(commit certificate view {v}, block {n}, no signer)"), w.new_view(z, &v2::ProposalJustification::Commit(empty))));
            let mut all = w.commit_qc(&vote, 1 << z);
            for i in 0..w.n() {
                all.signers.0.set(i, true);
            }
            msgs.push((format!("ReplicaNewView(commit certificate view {v}, block {n}, all signer bits set, one signature)"), w.new_view(z, &v2::ProposalJustification::Commit(all))));
        }
    }
    // oversized / empty collections
    {
        let vote = w.commit_vote(1, 0, &p);
        let mut wide = w.commit_qc(&vote, 1 << z);
        wide.signers = v2::Signers::new(4096);
        msgs.push(("ReplicaNewView(commit certificate with a 4096-bit signer set)".into(), w.new_view(z, &v2::ProposalJustification::Commit(wide))));
        let mut narrow = w.commit_qc(&vote, 1 << z);
        narrow.signers = v2::Signers::new(0);
        msgs.push(("ReplicaNewView(commit certificate with an empty signer set)".into(), w.new_view(z, &v2::ProposalJustification::Commit(narrow))));
        let empty_tqc = v2::TimeoutQC::new(w.view(0));
        msgs.push(("ReplicaNewView(timeout certificate without votes)".into(), w.new_view(z, &v2::ProposalJustification::Timeout(empty_tqc.clone()))));
        msgs.push(("LeaderProposal(timeout certificate without votes, 1 MB payload)".into(), w.proposal(z, &v2::ProposalJustification::Timeout(empty_tqc), Some(Payload(vec![7; 1 << 20])))));
    }
    // two starting states: initial, and after the bootstrap timeout (the replica has voted)
    let l0 = Local::initial();
    let l1 = step(w, 0, &l0, &Input::Timeout, &Policy::default()).local;
    for (lname, local) in [("initial state", &l0), ("after its own timeout in view 0", &l1)] {
        for (mname, m) in &msgs {
            let desc = format!("replica in its {lname} receives {mname} signed by member #{z}");
            let (local, m) = (local.clone(), m.clone());
            stage_case(st, "semantic_replica", desc, json!({"harness":"c10-semantic","part":"replica","state":lname,"message":mname}), 64 << 20, move || {
                let out = step(w, 0, &local, &Input::Msg(m), &Policy::default());
                if let Some(p) = out.panicked {
                    std::panic::resume_unwind(Box::new(p));
                }
                if let Some(e) = out.runner_error {
                    return Err(e);
                }
                match out.outcome {
                    Some(Ok(())) => Ok(()),
                    Some(Err(e)) => Err(e),
                    None => Ok(()),
                }
            });
        }
    }
}

/// (c4) Block numbers a peer controls through the get_block RPC and through blocks it serves:
/// `EngineManager::get_block(n)` and `queue_block(pre-genesis block n)` for extreme n, on an empty
/// store and on a store holding two blocks, for genesis first blocks 0, 5 and u64::MAX.
fn stage_semantic_engine(st: &mut Stats, seed: u64) {
    use zksync_consensus_engine::EngineManager;
    for first_block in [0u64, 5, u64::MAX] {
        let c = util::committee_with(seed, &[1, 1, 1], 0, first_block, Default::default());
        let w = crate::bftsim::World { c, proposals: vec![Payload(vec![0x58])], invalid_payload: Payload(vec![0xBA]) };
        for &n in &B64 {
            for op in ["get_block", "queue_block(pre-genesis)"] {
                let desc = format!("genesis first block {first_block}: {op} for block number {n}");
                let eng = crate::bftsim::SimEngine::new_empty(&w);
                stage_case(st, "semantic_engine", desc, json!({"harness":"c10-semantic","part":"engine","first_block":first_block,"n":n,"op":op}), 4 << 20, move || {
                    on_rt(|ctx, idle, _clock| {
                        Box::pin(async move {
                            let (mgr, runner) = EngineManager::new(ctx, Box::new(eng), time::Duration::seconds(1)).await.map_err(|e| format!("{e:?}"))?;
                            let (mgr, idle) = (&mgr, &idle);
                            let r: anyhow::Result<Result<(), String>> = async move {
                                scope::run!(ctx, |ctx, s| async move {
                                    s.spawn_bg(async move {
                                        let _ = runner.run(ctx).await;
                                        Ok(())
                                    });
                                    let res: std::sync::Arc<std::sync::Mutex<Option<Result<(), String>>>> = Default::default();
                                    let res2 = res.clone();
                                    s.spawn_bg(async move {
                                        let r = if op == "get_block" {
                                            mgr.get_block(ctx, BlockNumber(n)).await.map(|_| ()).map_err(|e| format!("{e:?}"))
                                        } else {
                                            let b = validator::Block::PreGenesis(validator::PreGenesisBlock { number: BlockNumber(n), payload: Payload(vec![1]), justification: validator::Justification(vec![]) });
                                            mgr.queue_block(ctx, b).await.map_err(|e| format!("{e:?}"))
                                        };
                                        *res2.lock().unwrap() = Some(r);
                                        Ok(())
                                    });
                                    // a call that waits for predecessors never returns: quiescence ends the case
                                    idle.settle().await;
                                    let out = res.lock().unwrap().clone().unwrap_or(Err("waits for predecessor blocks".into()));
                                    Ok(out)
                                })
                                .await
                            }
                            .await;
                            r.map_err(|e| format!("{e:#}"))?
                        })
                    })
                });
            }
        }
    }
}

fn stage_semantic(st: &mut Stats, seed: u64) {
    let w = semantic_world(seed);
    let _ = stage_semantic_fetch(st, &w);
    stage_semantic_addrs(st, &w);
    stage_semantic_replica(st, &w);
    stage_semantic_engine(st, seed);
}

pub fn run(args: &Args) -> Report {
    let mut rep = Report::new("C10", "exploration");
    let types = wiretypes::all(args.seed, false);
    if let Some(r) = &args.replay {
        let rp = &r["replay"];
        let input = rp["input_hex"].as_str().unwrap_or("");
        let bytes: Vec<u8> = (0..input.len() / 2).filter_map(|i| u8::from_str_radix(&input[2 * i..2 * i + 2], 16).ok()).collect();
        let mut st = Stats::default();
        match rp["harness"].as_str().unwrap_or("") {
            "c10-decode" => {
                if let Some(wt) = types.iter().find(|t| Some(t.name) == rp["type"].as_str()) {
                    decode_case(wt, &bytes, "replay", &mut st);
                }
            }
            "c10-mux" => {
                stage_case(&mut st, "mux_frame", "replay".into(), rp.clone(), 64 << 20, move || run_mux_against(bytes, 2));
            }
            "c10-semantic" => stage_semantic(&mut st, args.seed),
            "gossipnet" => {
                // the debug-page scenario (panic output is shown in a replay)
                std::env::set_var("VERIF_SHOW_PANICS", "1");
                if rp["config"]["scenario"] == "accept_loop" {
                    let _ = super::gossipnet::report_accept_loop(&mut rep, args.seed);
                } else {
                    let _ = super::gossipnet::report_debug_page(&mut rep, args.seed);
                }
                return rep;
            }
            "c10-control-flood" => {
                let ch = core::Chooser::new(vec![], None);
                if let Some(v) = super::c14::control_flood_run(&ch, 60, rp["accept_first"].as_bool().unwrap_or(false)).violation {
                    st.viol.insert("mux_control_flood".into(), (format!("[mux_control_flood] {v}"), rp.clone()));
                }
            }
            "c10-rpc-frame" => stage_rpc_frames(args.tier, &mut st),
            _ => {
                stage_frames(args.tier, &mut st);
                stage_preface_noise(args.tier, &mut st);
            }
        }
        for (k, (w, rp)) in st.viol {
            rep.violations.push(Violation { key: k, what: w, replay: rp });
        }
        return rep;
    }
    // (a)
    let items: Vec<(usize, usize)> = types.iter().enumerate().flat_map(|(i, t)| (0..t.samples.len()).map(move |j| (i, j))).collect();
    let outs = par_map(items.len(), |k| {
        let mut st = Stats::default();
        decoders_item(&types[items[k].0], items[k].1, args.tier, &mut st);
        st
    });
    let mut dec = Stats::default();
    for o in outs {
        dec.merge(o);
    }
    // (b)
    let mut stg = Stats::default();
    stage_frames(args.tier, &mut stg);
    stage_preface_noise(args.tier, &mut stg);
    stage_rpc_frames(args.tier, &mut stg);
    let mux_items = stage_mux(args.tier, &mut stg);
    // a peer flooding control frames (OPEN / CLOSE) at a stream nobody serves: buffered frames stay
    // within read_frame_count (same driver as C14, default schedule)
    for accept_first in [false, true] {
        stg.cases += 1;
        let ch = core::Chooser::new(vec![], None);
        match super::c14::control_flood_run(&ch, 60, accept_first).violation {
            None => stg.ok += 1,
            Some(v) => {
                stg.viol.entry("mux_control_flood".into()).or_insert((format!("[mux_control_flood] {v}"), json!({"harness":"c10-control-flood","accept_first":accept_first})));
            }
        }
    }
    // (c)
    let mut sem = Stats::default();
    stage_semantic(&mut sem, args.seed);
    let (semc, semok, semerr) = (sem.cases, sem.ok, sem.err);
    stg.merge(sem);
    // (c5) what the node renders from absurd announcements: the real debug page over loop-back TCP
    let page_cov = super::gossipnet::report_debug_page(&mut rep, args.seed);
    // (b2) the node's own accept loop against raw TCP peers
    let accept_cov = super::gossipnet::report_accept_loop(&mut rep, args.seed);
    let unexpected_plaintext = stg.viol.keys().any(|k| k.contains("UNEXPECTED"));
    let _ = unexpected_plaintext;
    let (dc, dok, derr) = (dec.cases, dec.ok, dec.err);
    let (sc, sok, serr) = (stg.cases, stg.ok, stg.err);
    let (mr, ma) = (dec.max_alloc_ratio, dec.max_alloc.max(stg.max_alloc));
    for (k, (w, r)) in dec.viol.into_iter().chain(stg.viol) {
        rep.violations.push(Violation { key: k, what: w, replay: r });
    }
    if derr < 100 || dok < 100 || serr < 10 {
        rep.machinery_errors.push(format!("vacuous: decoder ok={dok} err={derr}, stage ok={sok} err={serr}"));
    }
    rep.coverage = json!({
        "evaluations": dc + sc,
        "distinct_nontrivial": derr + serr,
        "rule": "decoders: for each wire type and sample, every proto-level value within the tier's deviation bound (no well-formedness filter), every truncation and every single-byte substitution from {00,01,7f,80,ff}; stages: listed length-prefix x body combinations for frame::recv_proto, listed scripts for preface::accept and the noise handshake / transport frames, listed mux handshakes, and every enumerated mux frame header x 3 stream states x DATA lengths through the real Mux::run. Each case runs under catch_unwind with a per-thread allocation counter. Non-trivial = the input was refused (error path exercised)",
        "exhaustive": true,
        "decoder_cases": dc, "decoder_accepted": dok, "decoder_refused": derr,
        "stage_cases": sc, "stage_ok": sok, "stage_refused": serr,
        "mux_header_state_items": mux_items,
        "debug_page": page_cov,
        "accept_loop": accept_cov,
        "semantic_cases": semc, "semantic_processed": semok, "semantic_refused": semerr,
        "max_allocation_bytes_per_case": ma,
        "max_decoder_allocation_ratio": mr,
        "types": types.len(),
        "samples": [
            {"stage": "mux", "case": "handshake {accept:[(0,2)],connect:[(0,2)]}, OPEN frames, then header 0xC000 + length 1 + 1 byte"},
            {"stage": "decoder", "case": "std::Timestamp with seconds := 9223372036854775807 and nanos := 4294967295"},
            {"stage": "frame", "case": "length field 4294967295, 3 body bytes then EOF"},
        ],
    });
    rep.assumptions = vec![
        "panics are observed with panic=unwind in the harness build (the node itself is built with panic=abort, where each of them kills the process)".into(),
        "arithmetic follows the release profile (overflow checks off)".into(),
        "totality over all byte strings is not enumerable; the claim is the stated scope".into(),
    ];
    rep
}
