//! C09 — wire encoding is lossless and canonical.
//! E4: every wire/storage type x (well-formed samples + every single (quick) / double (thorough)
//! field deviation that still decodes) x every alternative serialisation (field orders of the
//! top two nesting levels) on the real encode / decode / canonical_raw; plus construction-order
//! independence of certificates and schedules, and packed/unpacked repeated scalars on the real
//! canonical_raw with a harness-defined descriptor.
use std::collections::BTreeMap;

use serde_json::json;
use zksync_consensus_network::verif::WireType;
use zksync_consensus_roles::validator::{
    self,
    v2::{BlockHeader, CommitQC, ReplicaCommit, ReplicaTimeout, TimeoutQC, View},
    BlockNumber, Payload, ViewNumber,
};
use zksync_protobuf::{build::prost_reflect, canonical_raw};

use super::{util, wiretypes};
use crate::{
    core::{catch, par_map, Report, Tier, Violation},
    wire, Args,
};

#[derive(Default)]
pub struct Stats {
    pub inputs: u64,
    pub accepted: u64,
    pub rejected: u64,
    pub decode_panics: u64,
    pub alternatives: u64,
    pub viol: BTreeMap<String, (String, serde_json::Value)>,
}

fn hex(b: &[u8]) -> String {
    let mut s = String::new();
    for x in b.iter().take(4096) {
        s.push_str(&format!("{x:02x}"));
    }
    if b.len() > 4096 {
        s.push_str("...");
    }
    s
}

/// Value-level checks for an input that decodes.
fn check_value(wt: &WireType, input: &[u8], how: &str, st: &mut Stats, max_alts: usize) {
    let mut fail = |class: &str, what: String| {
        let k = format!("{class}:{}", wt.name);
        st.viol.entry(k.clone()).or_insert_with(|| (format!("[{k}] {how}: {what}"), json!({"harness": "c09", "type": wt.name, "input_hex": hex(input), "how": how})));
    };
    let (enc, same) = match catch(|| (wt.decode_encode)(input)) {
        Ok(Ok(x)) => x,
        Ok(Err(_)) => return,
        Err(_) => return, // a panic while decoding is C10's business
    };
    if !same {
        fail("lossy", "decode(encode(v)) != v".into());
    }
    // encode is deterministic for equal values: the re-decoded value encodes identically
    match catch(|| (wt.decode_encode)(&enc)) {
        Ok(Ok((enc2, _))) => {
            if enc2 != enc {
                fail("unstable_encoding", format!("encode(decode(encode(v))) differs from encode(v): {} vs {}", hex(&enc2), hex(&enc)));
            }
        }
        Ok(Err(e)) => fail("lossy", format!("encode(v) does not decode: {e:#}")),
        Err(p) => fail("panic", format!("decode(encode(v)) panicked: {p}")),
    }
    // encode(v) is a fixed point of canonical_raw
    match catch(|| canonical_raw(&enc, &wt.descriptor)) {
        Ok(Ok(c)) => {
            if c != enc {
                fail("not_canonical", "canonical_raw(encode(v)) != encode(v)".into());
            }
        }
        Ok(Err(e)) => fail("not_canonical", format!("canonical_raw(encode(v)) failed: {e:#}")),
        Err(p) => fail("panic", format!("canonical_raw panicked: {p}")),
    }
    // every alternative serialisation normalises to encode(v) and decodes to an equal value
    let Some(tree) = wire::parse(&enc, &wt.descriptor) else {
        fail("not_canonical", "encode(v) is not parseable by the independent wire reader".into());
        return;
    };
    if wire::write(&tree) != enc {
        fail("not_canonical", "encode(v) does not use minimal varints / canonical lengths (independent writer disagrees)".into());
    }
    // the same fields with over-long (non-minimal) varints as values / keys / length prefixes: valid protobuf,
    // must normalise to encode(v) and decode to an equal value
    for (name, values, keys, lens) in [("values", true, false, false), ("keys", false, true, false), ("length prefixes", false, false, true), ("values, keys and length prefixes", true, true, true)] {
        let ab = wire::write_padded(&tree, values, keys, lens);
        if ab == enc {
            continue;
        }
        st.alternatives += 1;
        match catch(|| canonical_raw(&ab, &wt.descriptor)) {
            Ok(Ok(c)) => {
                if c != enc {
                    fail("overlong_varint_not_normalised", format!("a serialisation with over-long varints as {name} does not normalise to encode(v): alt {}", hex(&ab)));
                }
            }
            Ok(Err(e)) => fail("overlong_varint_not_normalised", format!("canonical_raw failed on a serialisation with over-long varints as {name}: {e:#}")),
            Err(p) => fail("panic", format!("canonical_raw panicked on over-long varints: {p}")),
        }
        match catch(|| (wt.equal)(&ab, &enc)) {
            Ok(Ok(true)) => {}
            Ok(Ok(false)) => fail("alt_decodes_differently", format!("a serialisation with over-long varints as {name} decodes to a different value: alt {}", hex(&ab))),
            Ok(Err(e)) => fail("alt_decodes_differently", format!("a serialisation with over-long varints as {name} does not decode: {e:#}")),
            Err(p) => fail("panic", format!("decode panicked on over-long varints: {p}")),
        }
    }
    for alt in wire::alternatives(&tree).into_iter().take(max_alts) {
        st.alternatives += 1;
        let ab = wire::write(&alt);
        match catch(|| canonical_raw(&ab, &wt.descriptor)) {
            Ok(Ok(c)) => {
                if c != enc {
                    fail("alt_not_normalised", format!("an alternative field order does not normalise to encode(v): alt {}", hex(&ab)));
                }
            }
            Ok(Err(e)) => fail("alt_not_normalised", format!("canonical_raw failed on an alternative field order: {e:#}")),
            Err(p) => fail("panic", format!("canonical_raw panicked on an alternative field order: {p}")),
        }
        match catch(|| (wt.equal)(&ab, &enc)) {
            Ok(Ok(true)) => {}
            Ok(Ok(false)) => fail("alt_decodes_differently", format!("an alternative field order decodes to a different value: alt {}", hex(&ab))),
            Ok(Err(e)) => fail("alt_decodes_differently", format!("an alternative field order does not decode: {e:#}")),
            Err(p) => fail("panic", format!("decode panicked on an alternative field order: {p}")),
        }
        match catch(|| (wt.decode_encode)(&ab)) {
            Ok(Ok((e2, _))) => {
                if e2 != enc {
                    fail("unstable_encoding", "the value decoded from an alternative field order encodes differently".into());
                }
            }
            _ => {}
        }
    }
}

pub const CHUNK: usize = 48;

/// Number of work chunks of a sample (chunk 0 also checks the sample itself).
pub fn n_chunks(wt: &WireType, si: usize) -> usize {
    let Some(tree) = wire::parse(&wt.samples[si], &wt.descriptor) else { return 1 };
    let n: usize = wire::paths(&tree).iter().map(|p| wire::mutation_count(&tree, p)).sum();
    n.div_ceil(CHUNK).max(1)
}

pub fn run_sample(wt: &WireType, si: usize, chunk: usize, depth: usize, st: &mut Stats) {
    {
        let s = &wt.samples[si];
        if chunk == 0 {
            st.inputs += 1;
            st.accepted += 1;
            check_value(wt, s, &format!("sample #{si}"), st, usize::MAX);
            // value level, from the typed sample x itself (a decoder that maps two encodings to one
            // value, or an encoder that drops a field, is invisible once only bytes are kept)
            let mut fail = |class: &str, what: String| {
                let k = format!("{class}:{}", wt.name);
                st.viol.entry(k.clone()).or_insert_with(|| (format!("[{k}] sample #{si}: {what}"), json!({"harness": "c09", "type": wt.name, "input_hex": hex(s), "how": format!("sample #{si}")})));
            };
            match catch(|| (wt.sample_lossless)(si)) {
                Ok(Ok(true)) => {}
                Ok(Ok(false)) => fail("lossy", "decode(encode(x)) != x for the typed sample value x".into()),
                Ok(Err(e)) => fail("lossy", format!("encode(x) of the typed sample value does not decode: {e:#}")),
                Err(p) => fail("panic", format!("decode(encode(x)) panicked: {p}")),
            }
            // ... and at byte level: s = encode(x), so encode(decode(s)) must be s again
            if let Ok(Ok((e, _))) = catch(|| (wt.decode_encode)(s)) {
                if &e != s {
                    fail("lossy", format!("encode(decode(encode(x))) = {} differs from encode(x) = {}", hex(&e), hex(s)));
                }
            }
        }
        let Some(tree) = wire::parse(s, &wt.descriptor) else {
            st.viol.entry(format!("unparseable:{}", wt.name)).or_insert_with(|| (format!("sample #{si} of {} is not parseable", wt.name), json!({})));
            return;
        };
        let paths = wire::paths(&tree);
        // single deviations
        let mut singles: Vec<(usize, usize)> = vec![];
        for (pi, p) in paths.iter().enumerate() {
            for k in 0..wire::mutation_count(&tree, p) {
                singles.push((pi, k));
            }
        }
        for &(pi, k) in singles.iter().skip(chunk * CHUNK).take(CHUNK) {
            let mut t = tree.clone();
            let d = wire::mutate(&mut t, &paths[pi], k);
            let b = wire::write(&t);
            st.inputs += 1;
            match catch(|| (wt.decode_encode)(&b)) {
                Ok(Ok(_)) => {
                    st.accepted += 1;
                    check_value(wt, &b, &format!("sample #{si} with {d} at {:?}", paths[pi]), st, 3);
                }
                Ok(Err(_)) => st.rejected += 1,
                Err(_) => st.decode_panics += 1,
            }
        }
        if depth >= 2 && singles.len() <= 400 {
            // pairs of deviations at different top-level-distinct paths (second path must stay valid:
            // apply the later path first)
            for (ai, &(pa, ka)) in singles.iter().enumerate().skip(chunk * CHUNK).take(CHUNK) {
                for &(pb, kb) in &singles[ai + 1..] {
                    if pa == pb || paths[pb].starts_with(&paths[pa]) || paths[pa].starts_with(&paths[pb]) {
                        continue;
                    }
                    let mut t = tree.clone();
                    // pb > pa in document order; mutate pb first so that pa's indices stay valid
                    let d2 = wire::mutate(&mut t, &paths[pb], kb);
                    let d1 = wire::mutate(&mut t, &paths[pa], ka);
                    let b = wire::write(&t);
                    st.inputs += 1;
                    match catch(|| (wt.decode_encode)(&b)) {
                        Ok(Ok(_)) => {
                            st.accepted += 1;
                            check_value(wt, &b, &format!("sample #{si} with {d1} at {:?} and {d2} at {:?}", paths[pa], paths[pb]), st, 1);
                        }
                        Ok(Err(_)) => st.rejected += 1,
                        Err(_) => st.decode_panics += 1,
                    }
                }
            }
        }
    }
}

/// Certificates / schedules built in every order must be equal and encode identically.
fn construction_orders(seed: u64, tier: Tier, st: &mut Stats) -> u64 {
    let mut n_orders = 0;
    let n = tier.pick(4, 5);
    let c = util::committee(seed, &vec![1; n]);
    let gh = c.genesis.hash();
    let view = View { genesis: gh, epoch: c.epoch, number: ViewNumber(7) };
    let msg = ReplicaCommit { view, proposal: BlockHeader { number: BlockNumber(3), payload: Payload(vec![1]).hash() } };
    let votes: Vec<_> = c.keys.iter().map(|k| k.sign_msg(msg.clone())).collect();
    let tmsgs = [
        ReplicaTimeout { view, high_vote: None, high_qc: None },
        ReplicaTimeout { view, high_vote: Some(ReplicaCommit { view: View { number: ViewNumber(6), ..view }, ..msg.clone() }), high_qc: None },
        ReplicaTimeout { view, high_vote: Some(ReplicaCommit { view: View { number: ViewNumber(5), ..view }, ..msg.clone() }), high_qc: None },
    ];
    let tvotes: Vec<_> = c.keys.iter().enumerate().map(|(i, k)| k.sign_msg(tmsgs[i % 3].clone())).collect();
    let mut ref_c: Option<(CommitQC, Vec<u8>, validator::MsgHash)> = None;
    let mut ref_t: Option<(TimeoutQC, Vec<u8>, validator::MsgHash)> = None;
    let mut ref_s: Option<(validator::Schedule, Vec<u8>)> = None;
    let mut fail = |st: &mut Stats, k: &str, w: String| {
        st.viol.entry(k.to_string()).or_insert_with(|| (format!("[{k}] {w}"), json!({"harness":"c09-orders"})));
    };
    for p in util::permutations(n) {
        n_orders += 1;
        let mut qc = CommitQC::new(msg.clone(), &c.schedule);
        let mut tq = TimeoutQC::new(view);
        for &i in &p {
            qc.add(&votes[i], gh, c.epoch, &c.schedule).expect("add");
            tq.add(&tvotes[i], gh, c.epoch, &c.schedule).expect("add");
        }
        let e = zksync_protobuf::encode(&qc);
        let h = validator::Msg::Consensus(validator::ConsensusMsg::V2(validator::v2::ChonkyMsg::ReplicaNewView(validator::v2::ReplicaNewView { justification: validator::v2::ProposalJustification::Commit(qc.clone()) }))).hash();
        match &ref_c {
            None => ref_c = Some((qc, e, h)),
            Some((q0, e0, h0)) => {
                if *q0 != qc {
                    fail(st, "order_dependent_value:CommitQC", format!("CommitQC built by adding the same votes in order {p:?} differs"));
                } else if *e0 != e || *h0 != h {
                    fail(st, "order_dependent_encoding:CommitQC", format!("equal CommitQCs (votes added in order {p:?}) encode / hash differently"));
                }
            }
        }
        let e = zksync_protobuf::encode(&tq);
        let h = validator::Msg::Consensus(validator::ConsensusMsg::V2(validator::v2::ChonkyMsg::ReplicaNewView(validator::v2::ReplicaNewView { justification: validator::v2::ProposalJustification::Timeout(tq.clone()) }))).hash();
        match &ref_t {
            None => ref_t = Some((tq, e, h)),
            Some((q0, e0, h0)) => {
                if *q0 != tq {
                    fail(st, "order_dependent_value:TimeoutQC", format!("TimeoutQC built by adding the same votes in order {p:?} differs"));
                } else if *e0 != e || *h0 != h {
                    fail(st, "order_dependent_encoding:TimeoutQC", format!("equal TimeoutQCs (votes added in order {p:?}) encode / hash differently"));
                }
            }
        }
        let s = validator::Schedule::new(p.iter().map(|&i| validator::ValidatorInfo { key: c.keys[i].public(), weight: 1 + i as u64, leader: i % 2 == 0 }), Default::default()).expect("schedule");
        let e = zksync_protobuf::encode(&s);
        match &ref_s {
            None => ref_s = Some((s, e)),
            Some((s0, e0)) => {
                if *s0 != s {
                    fail(st, "order_dependent_value:Schedule", format!("Schedule listed in order {p:?} differs"));
                } else if *e0 != e {
                    fail(st, "order_dependent_encoding:Schedule", format!("equal Schedules (listed in order {p:?}) encode differently"));
                }
            }
        }
    }
    n_orders
}

/// Packed / unpacked repeated scalars on the real `canonical_raw`, with a descriptor built here.
fn packed_scalars(st: &mut Stats) -> u64 {
    use prost_reflect::prost_types::{field_descriptor_proto::{Label, Type}, DescriptorProto, FieldDescriptorProto, FileDescriptorProto, FileDescriptorSet};
    let field = |name: &str, num: i32, ty: Type, label: Label, type_name: Option<&str>, opt: bool| FieldDescriptorProto {
        name: Some(name.into()),
        number: Some(num),
        label: Some(label as i32),
        r#type: Some(ty as i32),
        type_name: type_name.map(|s| s.into()),
        proto3_optional: if opt { Some(true) } else { None },
        oneof_index: if opt { Some(0) } else { None },
        ..Default::default()
    };
    // message T { repeated uint64 a = 1; repeated fixed32 b = 2; repeated sint64 c = 3; repeated fixed64 d = 4; repeated bytes e = 5; repeated T t = 6; }
    let msg = DescriptorProto {
        name: Some("T".into()),
        field: vec![
            field("a", 1, Type::Uint64, Label::Repeated, None, false),
            field("b", 2, Type::Fixed32, Label::Repeated, None, false),
            field("c", 3, Type::Sint64, Label::Repeated, None, false),
            field("d", 4, Type::Fixed64, Label::Repeated, None, false),
            field("e", 5, Type::Bytes, Label::Repeated, None, false),
            field("t", 6, Type::Message, Label::Repeated, Some(".verif.T"), false),
        ],
        ..Default::default()
    };
    let file = FileDescriptorProto { name: Some("verif.proto".into()), package: Some("verif".into()), syntax: Some("proto3".into()), message_type: vec![msg], ..Default::default() };
    let pool = prost_reflect::DescriptorPool::from_file_descriptor_set(FileDescriptorSet { file: vec![file] }).expect("descriptor pool");
    let desc = pool.get_message_by_name("verif.T").expect("T");
    use wire::{Field, Val};
    let mut cases = 0;
    let vals_a: [&[u64]; 5] = [&[], &[0], &[1, 300], &[u64::MAX, 0, 127, 128], &[5, 5, 5]];
    let vals_b: [&[u32]; 3] = [&[], &[7], &[1, 0xffff_ffff, 3]];
    let mut fail = |st: &mut Stats, w: String| {
        st.viol.entry("packed_unpacked".into()).or_insert_with(|| (format!("[packed_unpacked] {w}"), json!({"harness":"c09-packed"})));
    };
    for a in vals_a {
        for b in vals_b {
            for nested in [false, true] {
                // canonical form expected by the spec in proto_fmt.rs: 0 values absent, 1 value plain, >1 packed
                let canon_scalar = |num: u32, vals: Vec<Vec<u8>>, single: Val| -> Vec<Field> {
                    match vals.len() {
                        0 => vec![],
                        1 => vec![Field { num, val: single }],
                        _ => vec![Field { num, val: Val::Bytes(vals.concat()) }],
                    }
                };
                let enc_a: Vec<Vec<u8>> = a.iter().map(|x| { let mut v = vec![]; wire::write_varint(&mut v, *x); v }).collect();
                let enc_b: Vec<Vec<u8>> = b.iter().map(|x| x.to_le_bytes().to_vec()).collect();
                let mut canon: Vec<Field> = vec![];
                canon.extend(canon_scalar(1, enc_a.clone(), Val::Varint(*a.first().unwrap_or(&0))));
                canon.extend(canon_scalar(2, enc_b.clone(), Val::I32(b.first().unwrap_or(&0).to_le_bytes())));
                let unpacked: Vec<Field> = a.iter().map(|x| Field { num: 1, val: Val::Varint(*x) }).chain(b.iter().map(|x| Field { num: 2, val: Val::I32(x.to_le_bytes()) })).collect();
                let packed: Vec<Field> = [Field { num: 1, val: Val::Bytes(enc_a.concat()) }, Field { num: 2, val: Val::Bytes(enc_b.concat()) }].into_iter().filter(|f| !matches!(&f.val, Val::Bytes(x) if x.is_empty())).collect();
                // mixed: first element plain, rest packed; and interleaved a/b
                let mut mixed: Vec<Field> = vec![];
                if let Some(x) = a.first() {
                    mixed.push(Field { num: 1, val: Val::Varint(*x) });
                    if a.len() > 1 {
                        mixed.push(Field { num: 1, val: Val::Bytes(enc_a[1..].concat()) });
                    }
                }
                let mut inter: Vec<Field> = vec![];
                for i in 0..a.len().max(b.len()) {
                    if let Some(x) = b.get(i) {
                        inter.push(Field { num: 2, val: Val::I32(x.to_le_bytes()) });
                    }
                    if let Some(x) = a.get(i) {
                        inter.push(Field { num: 1, val: Val::Varint(*x) });
                    }
                }
                for x in b.iter() {
                    mixed.push(Field { num: 2, val: Val::I32(x.to_le_bytes()) });
                }
                let wrap = |f: Vec<Field>| -> Vec<Field> {
                    if nested {
                        vec![Field { num: 6, val: Val::Msg(f.clone()) }, Field { num: 6, val: Val::Msg(vec![]) }, Field { num: 5, val: Val::Bytes(vec![1, 2]) }]
                    } else {
                        f
                    }
                };
                let want = {
                    let mut w = wrap(canon.clone());
                    w.sort_by_key(|f| f.num);
                    wire::write(&w)
                };
                for (name, alt) in [("unpacked", unpacked), ("packed", packed), ("mixed", mixed), ("interleaved", inter), ("canonical", canon.clone())] {
                    cases += 1;
                    let bytes = wire::write(&wrap(alt));
                    match catch(|| canonical_raw(&bytes, &desc)) {
                        Ok(Ok(c)) => {
                            if c != want {
                                fail(st, format!("{name} serialisation of a={a:?} b={b:?} nested={nested} normalises to {} instead of {}", hex(&c), hex(&want)));
                            }
                        }
                        Ok(Err(e)) => fail(st, format!("{name} serialisation of a={a:?} b={b:?} nested={nested}: canonical_raw failed: {e:#}")),
                        Err(p) => fail(st, format!("{name} serialisation of a={a:?} b={b:?}: canonical_raw panicked: {p}")),
                    }
                }
            }
        }
    }
    cases
}

pub fn run(args: &Args) -> Report {
    let mut rep = Report::new("C09", "exploration");
    let types = wiretypes::all(args.seed, true);
    if let Some(r) = &args.replay {
        let name = r["replay"]["type"].as_str().unwrap_or("");
        let input = r["replay"]["input_hex"].as_str().unwrap_or("");
        let bytes: Vec<u8> = (0..input.len() / 2).filter_map(|i| u8::from_str_radix(&input[2 * i..2 * i + 2], 16).ok()).collect();
        let mut st = Stats::default();
        if let Some(wt) = types.iter().find(|t| t.name == name) {
            check_value(wt, &bytes, "replay", &mut st, usize::MAX);
        } else {
            construction_orders(args.seed, args.tier, &mut st);
            packed_scalars(&mut st);
        }
        for (k, (w, rp)) in st.viol {
            rep.violations.push(Violation { key: k, what: w, replay: rp });
        }
        return rep;
    }
    let tstart = std::time::Instant::now();
    let dbg = std::env::var("VERIF_DEBUG").is_ok();
    let depth = args.tier.pick(1, 2);
    // one work item per (type, sample) for balance
    let mut items: Vec<(usize, usize, usize)> = vec![];
    for (i, t) in types.iter().enumerate() {
        for j in 0..t.samples.len() {
            for c in 0..n_chunks(t, j) {
                items.push((i, j, c));
            }
        }
    }
    if dbg { eprintln!("items {} at {:.1}s", items.len(), tstart.elapsed().as_secs_f64()); }
    let outs0 = par_map(items.len(), |k| {
        let mut st = Stats::default();
        let t0 = std::time::Instant::now();
        run_sample(&types[items[k].0], items[k].1, items[k].2, depth, &mut st);
        if t0.elapsed().as_secs_f64() > 5.0 && std::env::var("VERIF_DEBUG").is_ok() {
            eprintln!("slow item: {} sample {} took {:.1}s ({} inputs, {} alts)", types[items[k].0].name, items[k].1, t0.elapsed().as_secs_f64(), st.inputs, st.alternatives);
        }
        st
    });
    let mut outs: Vec<Stats> = types.iter().map(|_| Stats::default()).collect();
    for (k, o) in outs0.into_iter().enumerate() {
        let t = &mut outs[items[k].0];
        t.inputs += o.inputs;
        t.accepted += o.accepted;
        t.rejected += o.rejected;
        t.decode_panics += o.decode_panics;
        t.alternatives += o.alternatives;
        for (k, v) in o.viol {
            t.viol.entry(k).or_insert(v);
        }
    }
    let mut tot = Stats::default();
    let mut per_type = serde_json::Map::new();
    for (i, o) in outs.into_iter().enumerate() {
        per_type.insert(types[i].name.to_string(), json!({"inputs": o.inputs, "decoded": o.accepted, "refused": o.rejected, "alternatives": o.alternatives}));
        tot.inputs += o.inputs;
        tot.accepted += o.accepted;
        tot.rejected += o.rejected;
        tot.decode_panics += o.decode_panics;
        tot.alternatives += o.alternatives;
        for (k, v) in o.viol {
            tot.viol.entry(k).or_insert(v);
        }
    }
    if dbg { eprintln!("par done at {:.1}s", tstart.elapsed().as_secs_f64()); }
    let orders = construction_orders(args.seed, args.tier, &mut tot);
    let packed = packed_scalars(&mut tot);
    for (k, (w, r)) in tot.viol {
        rep.violations.push(Violation { key: k, what: w, replay: r });
    }
    if tot.accepted < 100 || tot.rejected < 100 || tot.alternatives < 100 {
        rep.machinery_errors.push(format!("vacuous: decoded={} refused={} alternatives={}", tot.accepted, tot.rejected, tot.alternatives));
    }
    rep.coverage = json!({
        "evaluations": tot.inputs + tot.alternatives + orders + packed,
        "distinct_nontrivial": tot.accepted,
        "rule": format!("for each of {} wire/storage types: well-formed samples (boundary values, random structure) and every proto-level value within {} field deviation(s) of a sample (each field removed / duplicated / retyped / replaced by each element of its boundary alphabet); every input that decodes is a distinct non-trivial case and is checked for decode(encode(v)) == v, stable encoding, canonical_raw fixed point, and normalisation + equal decoding of every alternative field order of its top two nesting levels; plus all vote/listing orders of certificates and schedules, and packed/unpacked/mixed repeated scalars on canonical_raw", types.len(), depth),
        "exhaustive": true,
        "types": types.len(),
        "deviation_bound": depth,
        "inputs_decoded": tot.accepted,
        "inputs_refused": tot.rejected,
        "inputs_panicking_in_decode_left_to_C10": tot.decode_panics,
        "alternative_serialisations": tot.alternatives,
        "construction_orders": orders,
        "packed_unpacked_cases": packed,
        "per_type": per_type,
        "samples": [
            {"type": "validator::TimeoutQC", "case": "sample with field 'view.number' := 18446744073709551615, every field order of the two top nesting levels"},
            {"type": "std::BitVector", "case": "size 9, bytes [0x80, 0x80]"},
            {"case": "CommitQC from 4 votes added in all 24 orders"},
        ],
    });
    rep.assumptions = vec!["values outside the boundary alphabets and non-minimal varints are outside the scope".into(), "prost's decoder is trusted to implement protobuf".into()];
    rep
}
