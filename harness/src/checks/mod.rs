use crate::{core::Report, Args};

pub mod c01;
pub mod c02;
pub mod l2;
pub mod c03;
pub mod c04;
pub mod c05;
pub mod c06;
pub mod l1;
pub mod c07;
pub mod c08;
pub mod c09;
pub mod c10;
pub mod wiretypes;
pub mod c11;
pub mod c12;
pub mod c13;
pub mod c14;
pub mod c15;
pub mod c16;
pub mod c17;
pub mod c18;
pub mod c19;
pub mod gossipnet;
pub mod util;

pub fn dispatch(id: &str, args: &Args) -> Option<Report> {
    Some(match id {
        "C01" => c01::run(args),
        "C02" => c02::run(args),
        "C03" => c03::run(args),
        "C04" => c04::run(args),
        "C05" => c05::run(args),
        "C06" => c06::run(args),
        "C07" => c07::run(args),
        "C08" => c08::run(args),
        "C09" => c09::run(args),
        "C10" => c10::run(args),
        "C11" => c11::run(args),
        "C12" => c12::run(args),
        "C13" => c13::run(args),
        "C14" => c14::run(args),
        "C15" => c15::run(args),
        "C16" => c16::run(args),
        "C17" => c17::run(args),
        "C18" => c18::run(args),
        "C19" => c19::run(args),
        "GNET" => {
            let o = gossipnet::run_fetch(args.seed, &|_| true);
            println!("fetch: cases {} lies {} fetched {} viol {:#?} machinery {:?}", o.cases, o.lies_told, o.blocks_fetched, o.viol, o.machinery);
            let r = gossipnet::run_rates(args.seed);
            println!("rates: served {} viol {:#?} machinery {:?}", r.requests_served, r.viol, r.machinery);
            let d = gossipnet::run_dial(args.seed);
            println!("dial: cases {} dials {} viol {:#?} machinery {:?}", d.cases, d.dials_observed, d.viol, d.machinery);
            std::process::exit(0)
        }
        _ => return None,
    })
}
