//! C03 — no vote equivocation by a correct validator, even across crashes.
//! L1 search (one real replica, adversarial environment holding a quorum of keys) with a crash
//! injected at every durable write of every accepted step (write applied / write lost).
use std::time::{Duration, Instant};

use serde_json::json;

use super::l1;
use crate::{
    core::{Report, Violation},
    Args,
};

pub fn run(args: &Args) -> Report {
    let mut rep = Report::new("C03", "model_checking");
    let (w, r) = l1::world_fb(args.seed, args.replay.as_ref().and_then(|rp| rp["replay"]["first_block"].as_u64()).unwrap_or(0));
    // the wide pass runs on a chain whose genesis starts at block 3
    let (w3, _) = l1::world_fb(args.seed, 3);
    let cfg = l1::L1Cfg {
        max_view: args.tier.pick(2, 3),
        crashes: true,
        flood: false,
        full: args.tier == crate::core::Tier::Thorough,
        narrow: false,
        max_states: args.tier.pick(200_000, 5_000_000),
        deadline: Instant::now() + Duration::from_secs(args.tier.pick(50, 1500)),
        seed: args.seed,
    };
    if args.replay.as_ref().map_or(false, |rp| rp["replay"]["harness"] == "c03-handover") {
        let ho = super::c08::epoch_handover(args.seed);
        if let Some(v) = ho.violation {
            rep.violations.push(Violation { key: "state_slot_overwritten_by_next_epoch".into(), what: v, replay: json!({"harness":"c03-handover"}) });
        }
        return rep;
    }
    if let Some(rp) = &args.replay {
        let path: Vec<String> = rp["replay"]["path"].as_array().map(|a| a.iter().filter_map(|x| x.as_str().map(|s| s.to_string())).collect()).unwrap_or_default();
        match l1::replay_path(&w, r, &cfg, &path) {
            Ok(Some(v)) => rep.violations.push(Violation { key: "replay".into(), what: v, replay: rp["replay"].clone() }),
            Ok(None) => {}
            Err(e) => rep.machinery_errors.push(e),
        }
        return rep;
    }
    // pass 1: minimal alphabet, as deep as the budget allows (fixed point if possible)
    let total = args.tier.pick(50, 1500);
    let narrow = l1::L1Cfg { narrow: true, full: false, deadline: Instant::now() + Duration::from_secs(total / 2), ..l1::L1Cfg { ..cfg_clone(&cfg) } };
    // pass 0: persistence-focused alphabet (deep chains of crash / write error / restart)
    let pers_cfg = l1::L1Cfg { deadline: Instant::now() + Duration::from_secs(total / 4), ..cfg_clone(&cfg) };
    let pa = l1::persistence_alphabet(&w, r, &pers_cfg);
    let pa_len = pa.len();
    let res_p = l1::explore_alphabet(&w, r, &pers_cfg, pa, &|_e| vec![]);
    for (k, wh, rp) in res_p.violations.iter() {
        if k == "equivocation" || k == "store" {
            rep.violations.push(Violation { key: k.clone(), what: wh.clone(), replay: rp.clone() });
        }
    }
    let narrow = l1::L1Cfg { deadline: Instant::now() + Duration::from_secs(total * 3 / 8), ..narrow };
    let res_n = if rep.violations.is_empty() { l1::explore(&w, r, &narrow, &|_e| vec![]) } else { l1::L1Result::default() };
    let cfg = l1::L1Cfg { deadline: Instant::now() + Duration::from_secs(total * 3 / 8), ..cfg };
    // pass 2: wide alphabet, breadth-first to the depth the remaining budget allows
    let res = if res_n.violations.is_empty() { l1::explore(&w3, r, &cfg, &|_e| vec![]) } else { l1::L1Result::default() };
    for (k, wh, rp) in res_n.violations.iter().chain(res.violations.iter()) {
        if k == "equivocation" || k == "store" {
            rep.violations.push(Violation { key: k.clone(), what: wh.clone(), replay: rp.clone() });
        }
    }
    if res.crash_steps == 0 || res.accepted_steps == 0 {
        rep.machinery_errors.push(format!("vacuous: crash steps {} accepted steps {}", res.crash_steps, res.accepted_steps));
    }
    let narrow_cov = l1::coverage_json(&res_n, &narrow, "minimal alphabet pass");
    let res = if res.states == 0 { res_n } else { res };
    rep.coverage = l1::coverage_json(&res, &cfg, "every reachable (local state, signed-log summary) pair of one real replica of K4=[2,2,1,1] (weight-1 validator) under the finite adversarial alphabet, with a crash at every durable write (applied / lost) of every accepted step and plain restarts; oracle over everything signed by all incarnations along the path");
    rep.coverage["minimal_alphabet_pass"] = narrow_cov;
    rep.coverage["genesis_first_block"] = json!({"wide_pass": 3, "minimal_alphabet_pass": 0, "persistence_pass": 0});
    rep.coverage["persistence_pass"] = l1::coverage_json(&res_p, &pers_cfg, "persistence-focused alphabet (proposals and new-views from the leader, the timer), every crash point x {applied, lost, write error}, restarts");
    rep.coverage["persistence_pass"]["alphabet_size"] = json!(pa_len);
    // the single replica-state slot across an epoch hand-over
    let ho = super::c08::epoch_handover(args.seed);
    match &ho.violation {
        Some(v) if v.starts_with("MACHINERY") => rep.machinery_errors.push(format!("epoch hand-over: {v}")),
        Some(v) => rep.violations.push(Violation { key: "state_slot_overwritten_by_next_epoch".into(), what: format!("[epoch_handover] rotating schedule (epoch 1 starts at block 3, same committee), blocks 0-1 durable, committee of epoch 1 known, bft::Config::run started for epoch 1: {v}"), replay: json!({"harness":"c03-handover"}) }),
        None if !ho.woke_up_after_the_boundary => rep.machinery_errors.push("vacuous: the consensus instance of epoch 1 never woke up after the last block of epoch 0 was persisted".into()),
        None => {}
    }
    rep.coverage["epoch_handover"] = json!({"clock_steps_while_dormant": ho.steps, "woke_up_after_the_boundary": ho.woke_up_after_the_boundary,
        "rule": "the real bft::Config::run of epoch 1 over the real EngineManager with a rotating schedule, started while the last block of epoch 0 is not yet persisted; 12 steps of 3 s on the manual clock (view timeout 2 s): nothing may be sent or written to the node's only replica-state slot; then the block is persisted and the instance must wake up; one deterministic run (default schedule)"});
    rep.assumptions = vec![
        "set_state is atomic (no torn writes inside one call); acknowledged writes are durable".into(),
        "views above the alphabet's bound and payload alphabets larger than the tier's are outside the scope".into(),
    ];
    let _ = json!({});
    rep
}

fn cfg_clone(c: &l1::L1Cfg) -> l1::L1Cfg {
    l1::L1Cfg { max_view: c.max_view, crashes: c.crashes, flood: c.flood, full: c.full, narrow: c.narrow, max_states: c.max_states, deadline: c.deadline, seed: c.seed }
}
