//! L2 search: the whole instance - three correct REAL replicas of K4 = [2,2,1,1] plus an adversary
//! that holds the key of one weight-1 validator (faulty weight = f = 1) and controls the network.
//!
//! Global state = (local state of every correct replica, set of messages ever sent by correct
//! replicas). The network may deliver any sent message to anyone at any time (reordering,
//! duplication, delay; loss = never delivering). Reductions (DESIGN.md §2.3):
//!  1. votes are delivered at quorum level: "replica r collects the votes of signer set S" is one
//!     macro step in which the real replica is fed those votes one after another (vote caches are
//!     empty between macro steps);
//!  2. the faulty validator is always willing and its messages are implicit (constructed on demand);
//!  3. states are compared modulo certificate signer sets.
//! Every local transition runs the real handlers (bftsim::step) once and is memoised.
use std::collections::{BTreeMap, BTreeSet, HashMap, HashSet};

use zksync_consensus_roles::validator::{self, v2, Payload};

use super::{l1, util};
use crate::{
    bftmsgs::{self, acqc, atqc, avote, AVote},
    bftsim::{self, Input, Local, Policy, SignedMsg, World},
    core::fx_hash,
};

pub static T_DERIV: std::sync::atomic::AtomicU64 = std::sync::atomic::AtomicU64::new(0);
pub static T_ZMSG: std::sync::atomic::AtomicU64 = std::sync::atomic::AtomicU64::new(0);
pub static T_KEY: std::sync::atomic::AtomicU64 = std::sync::atomic::AtomicU64::new(0);
pub static T_QUOR: std::sync::atomic::AtomicU64 = std::sync::atomic::AtomicU64::new(0);

pub struct L2Cfg {
    pub max_view: u64,
    /// index (in schedule order) of the faulty validator (must have weight 1)
    pub faulty: usize,
    pub weights: Vec<u64>,
    pub max_states: usize,
    pub deadline: std::time::Instant,
    pub seed: u64,
    /// offer every single-input step also in the variant "crashes at its first durable write, write lost"
    pub crashes: bool,
    /// the faulty leader also sends proposals whose justification is signed by its key alone (C02's run;
    /// each is a real handler execution per (local state, forged input), which costs the other runs a BFS level)
    pub forged: bool,
    /// violation classes of `check_state` that this run does not report (they belong to another
    /// property's check, which runs the same search)
    pub ignore: &'static [&'static str],
}

pub struct Sys {
    pub w: World,
    pub z: usize,
    pub correct: Vec<usize>,
    pub max_view: u64,
    pub crashes: bool,
    pub forged: bool,
}

#[derive(Clone, PartialEq, Eq, Hash, Debug)]
pub struct G {
    pub locals: Vec<u32>,
    /// sorted ids of the messages sent so far; equal pools share one allocation (interned)
    pub pool: std::sync::Arc<Vec<u32>>,
}

pub struct MsgInfo {
    pub msg: SignedMsg,
    pub signer: usize,
    pub view: u64,
    pub kind: u8, // 0 proposal 1 commit 2 timeout 3 newview
    pub desc: String,
}

#[derive(Default)]
pub struct Caches {
    derivable: std::sync::Mutex<HashMap<Vec<u32>, std::sync::Arc<Derivable>>>,
    actions: std::sync::Mutex<HashMap<(usize, u32, u64, u64), std::sync::Arc<Vec<std::sync::Arc<Action>>>>>,
    verified_blocks: std::sync::Mutex<HashMap<u64, bool>>,
    pools: std::sync::Mutex<HashSet<std::sync::Arc<Vec<u32>>>>,
}

impl Caches {
    fn intern_pool(&self, p: Vec<u32>) -> std::sync::Arc<Vec<u32>> {
        let mut m = self.pools.lock().unwrap();
        if let Some(a) = m.get(&p) {
            return a.clone();
        }
        let a = std::sync::Arc::new(p);
        m.insert(a.clone());
        a
    }
}

#[derive(Default)]
pub struct Tables {
    pub caches: Caches,
    pub locals: Vec<Local>,
    local_ids: HashMap<u64, u32>,
    pub msgs: Vec<MsgInfo>,
    msg_ids: HashMap<u64, u32>,
    /// (local id, action key) -> (new local id, sent message ids, flags)
    memo: HashMap<(u32, u64, usize), (u32, Vec<u32>, StepFlags)>,
    pub real_steps: u64,
}

#[derive(Clone, Copy, Default, Debug)]
pub struct StepFlags {
    pub blocked: bool,
    pub store_rewritten: bool,
}

fn strip_caches(l: &mut Local) {
    l.snap.commit_views_cache.clear();
    l.snap.commit_qcs_cache.clear();
    l.snap.timeout_views_cache.clear();
    l.snap.timeout_qcs_cache.clear();
}

impl Tables {
    pub fn intern_local(&mut self, w: &World, mut l: Local) -> u32 {
        strip_caches(&mut l);
        let k = l1::key_of_local(w, &l);
        if let Some(i) = self.local_ids.get(&k) {
            return *i;
        }
        let i = self.locals.len() as u32;
        self.locals.push(l);
        self.local_ids.insert(k, i);
        i
    }
    pub fn intern_msg(&mut self, w: &World, m: &SignedMsg) -> u32 {
        let desc = bftmsgs::describe(w, m);
        let k = fx_hash(&desc);
        if let Some(i) = self.msg_ids.get(&k) {
            return *i;
        }
        let signer = w.c.keys.iter().position(|x| x.public() == m.key).unwrap_or(usize::MAX);
        let validator::ConsensusMsg::V2(x) = &m.msg;
        let (kind, view) = match x {
            v2::ChonkyMsg::LeaderProposal(p) => (0, p.view().number.0),
            v2::ChonkyMsg::ReplicaCommit(c) => (1, c.view.number.0),
            v2::ChonkyMsg::ReplicaTimeout(t) => (2, t.view.number.0),
            v2::ChonkyMsg::ReplicaNewView(n) => (3, n.view().number.0),
        };
        let i = self.msgs.len() as u32;
        self.msgs.push(MsgInfo { msg: m.clone(), signer, view, kind, desc });
        self.msg_ids.insert(k, i);
        i
    }
}

/// An input that is materialised (signed) only when the step is actually executed.
#[derive(Clone, Debug)]
pub enum LInput {
    Ready(Input),
    /// a message of the pool, by id
    Pool(u32),
    ZProposal(v2::ProposalJustification, Option<Payload>),
    /// a proposal of the faulty leader whose justification does NOT verify (signed by the faulty key alone)
    ZForgedProposal(v2::ProposalJustification, Option<Payload>),
    ZNewView(v2::ProposalJustification),
    ZCommit(v2::ReplicaCommit),
    ZTimeout(v2::ReplicaTimeout),
}

#[derive(Clone, Debug)]
pub struct Action {
    pub replica: usize, // position in sys.correct
    pub desc: String,
    pub inputs: Vec<LInput>,
    pub restart: bool,
    pub key: u64,
    /// the process dies at the first durable write of this step and the write is lost; whatever
    /// was already handed to the network has left the node
    pub crash_lost: bool,
}

pub fn system(cfg: &L2Cfg) -> Sys {
    // the placement in which the faulty validator leads view 2 runs on a chain whose genesis starts at block 3
    // (the other two at block 0), so that `first_block` is not a constant of every explored instance
    let c = util::committee_fb(cfg.seed, &cfg.weights, if cfg.faulty == 2 { 3 } else { 0 });
    assert_eq!(c.weights[cfg.faulty], 1, "the faulty validator must have weight 1");
    let correct: Vec<usize> = (0..c.n()).filter(|i| *i != cfg.faulty).collect();
    Sys { w: World { c, proposals: vec![Payload(vec![0x58]), Payload(vec![0x59, 1])], invalid_payload: Payload(vec![0xBA, 0xD0]) }, z: cfg.faulty, correct, max_view: cfg.max_view, crashes: cfg.crashes, forged: cfg.forged }
}

/// Certificates the adversary can derive from the pool (plus its own key).
struct Derivable {
    cqcs: Vec<(String, v2::CommitQC)>,
    tqcs: Vec<(String, v2::TimeoutQC)>,
}

fn commit_groups(sys: &Sys, t: &Tables, g: &G) -> BTreeMap<(u64, AVote), Vec<(usize, u32)>> {
    let mut m: BTreeMap<(u64, AVote), Vec<(usize, u32)>> = BTreeMap::new();
    for id in g.pool.iter() {
        let mi = &t.msgs[*id as usize];
        if mi.kind == 1 {
            let validator::ConsensusMsg::V2(v2::ChonkyMsg::ReplicaCommit(c)) = &mi.msg.msg else { continue };
            m.entry((mi.view, avote(c))).or_default().push((mi.signer, *id));
        }
    }
    let _ = sys;
    m
}

fn timeout_votes(t: &Tables, g: &G) -> BTreeMap<u64, BTreeMap<usize, Vec<u32>>> {
    let mut m: BTreeMap<u64, BTreeMap<usize, Vec<u32>>> = BTreeMap::new();
    for id in g.pool.iter() {
        let mi = &t.msgs[*id as usize];
        if mi.kind == 2 {
            m.entry(mi.view).or_default().entry(mi.signer).or_default().push(*id);
        }
    }
    m
}

fn weight(sys: &Sys, signers: impl Iterator<Item = usize>) -> u64 {
    signers.map(|i| sys.w.c.weights[i]).sum()
}

/// Timeout-vote contents the faulty validator may sign for view v.
fn z_timeout_variants(sys: &Sys, t: &Tables, g: &G, v: u64, known_cqcs: &[(String, v2::CommitQC)]) -> Vec<v2::ReplicaTimeout> {
    let w = &sys.w;
    let mut out = vec![w.timeout_vote(v, None, None)];
    // any commit vote content seen so far as its high vote
    let mut seen: BTreeSet<AVote> = BTreeSet::new();
    for id in g.pool.iter() {
        let mi = &t.msgs[*id as usize];
        if let validator::ConsensusMsg::V2(v2::ChonkyMsg::ReplicaCommit(c)) = &mi.msg.msg {
            if c.view.number.0 <= v && seen.insert(avote(c)) {
                out.push(w.timeout_vote(v, Some(c.clone()), None));
            }
        }
    }
    // the highest certificate it can show
    if let Some((_, q)) = known_cqcs.iter().filter(|(_, q)| q.view().number.0 < v).max_by_key(|(_, q)| q.view().number.0) {
        out.push(w.timeout_vote(v, None, Some(q.clone())));
    }
    out
}

fn derivable(sys: &Sys, t: &Tables, g: &G) -> Derivable {
    let w = &sys.w;
    let q = w.c.quorum();
    let mut cqcs: BTreeMap<AVote, (String, v2::CommitQC)> = BTreeMap::new();
    // certificates inside pool messages
    let mut tq_in: BTreeMap<bftmsgs::ATqc, v2::TimeoutQC> = BTreeMap::new();
    let mut note_just = |j: &v2::ProposalJustification, cqcs: &mut BTreeMap<AVote, (String, v2::CommitQC)>| match j {
        v2::ProposalJustification::Commit(c) => {
            cqcs.entry(acqc(c)).or_insert_with(|| (format!("CQ{:?}", acqc(c)), c.clone()));
        }
        v2::ProposalJustification::Timeout(tq) => {
            for m in tq.map.keys() {
                if let Some(c) = &m.high_qc {
                    cqcs.entry(acqc(c)).or_insert_with(|| (format!("CQ{:?}", acqc(c)), c.clone()));
                }
            }
            tq_in.entry(atqc(tq)).or_insert_with(|| tq.clone());
        }
    };
    for id in g.pool.iter() {
        let validator::ConsensusMsg::V2(x) = &t.msgs[*id as usize].msg.msg;
        match x {
            v2::ChonkyMsg::LeaderProposal(p) => note_just(&p.justification, &mut cqcs),
            v2::ChonkyMsg::ReplicaNewView(n) => note_just(&n.justification, &mut cqcs),
            v2::ChonkyMsg::ReplicaTimeout(tm) => {
                if let Some(c) = &tm.high_qc {
                    cqcs.entry(acqc(c)).or_insert_with(|| (format!("CQ{:?}", acqc(c)), c.clone()));
                }
            }
            _ => {}
        }
    }
    // commit certificates formable from votes in the pool plus the faulty key
    for ((_, a), votes) in commit_groups(sys, t, g) {
        let signers: BTreeSet<usize> = votes.iter().map(|x| x.0).collect();
        if weight(sys, signers.iter().copied()) + w.c.weights[sys.z] >= q {
            let validator::ConsensusMsg::V2(v2::ChonkyMsg::ReplicaCommit(vote)) = &t.msgs[votes[0].1 as usize].msg.msg else { continue };
            let mut mask = 1u32 << sys.z;
            for s in &signers {
                mask |= 1 << s;
            }
            cqcs.entry(a.clone()).or_insert_with(|| (format!("CQ{a:?}"), w.commit_qc(vote, mask)));
        }
    }
    let cq_list: Vec<(String, v2::CommitQC)> = cqcs.into_values().collect();
    // timeout certificates formable from votes in the pool plus the faulty key (quorum only)
    let mut tqcs: Vec<(String, v2::TimeoutQC)> = tq_in.into_iter().map(|(a, q)| (format!("TQ(in pool){a:?}"), q)).collect();
    for (v, per_signer) in timeout_votes(t, g) {
        let zs = z_timeout_variants(sys, t, g, v, &cq_list);
        // one variant per correct signer (the last one it sent) - plus each variant of z or none
        let base: Vec<(usize, v2::ReplicaTimeout)> = per_signer
            .iter()
            .filter_map(|(s, ids)| {
                let validator::ConsensusMsg::V2(v2::ChonkyMsg::ReplicaTimeout(tm)) = &t.msgs[*ids.last().unwrap() as usize].msg.msg else { return None };
                Some((*s, tm.clone()))
            })
            .collect();
        let bw = weight(sys, base.iter().map(|x| x.0));
        if bw >= q {
            tqcs.push((format!("TQ(v{v}, correct votes only)"), w.timeout_qc(v, &base)));
        }
        if bw + w.c.weights[sys.z] >= q {
            for (k, zv) in zs.iter().enumerate() {
                let mut votes = base.clone();
                votes.push((sys.z, zv.clone()));
                tqcs.push((format!("TQ(v{v}, correct votes + faulty variant {k})"), w.timeout_qc(v, &votes)));
            }
        }
    }
    Derivable { cqcs: cq_list, tqcs }
}

fn justification_of(l: &Local) -> Option<v2::ProposalJustification> {
    let s = &l.snap;
    let cv = s.high_commit_qc.as_ref().map(|q| q.view().number.0);
    let tv = s.high_timeout_qc.as_ref().map(|q| q.view.number.0);
    if cv.is_none() && tv.is_none() {
        return None;
    }
    Some(if cv >= tv { v2::ProposalJustification::Commit(s.high_commit_qc.clone().unwrap()) } else { v2::ProposalJustification::Timeout(s.high_timeout_qc.clone().unwrap()) })
}

/// All actions offered in global state `g` (cached per (replica, its local state, pool, available blocks)).
pub fn actions(sys: &Sys, t: &Tables, g: &G) -> Vec<std::sync::Arc<Action>> {
    let mut avail: Vec<(u64, u64)> = vec![];
    for lid in &g.locals {
        for b in &t.locals[*lid as usize].blocks {
            let k = (b.number().0, bftmsgs::ph(&b.payload.hash()));
            if !avail.contains(&k) {
                avail.push(k);
            }
        }
    }
    avail.sort();
    let (pk, ak) = (fx_hash(&*g.pool), fx_hash(&avail));
    let mut out = vec![];
    for ri in 0..sys.correct.len() {
        let key = (ri, g.locals[ri], pk, ak);
        let hit = t.caches.actions.lock().unwrap().get(&key).cloned();
        let acts = match hit {
            Some(a) => a,
            None => {
                let a = std::sync::Arc::new(actions_uncached(sys, t, g, ri).into_iter().map(std::sync::Arc::new).collect::<Vec<_>>());
                t.caches.actions.lock().unwrap().insert(key, a.clone());
                a
            }
        };
        out.extend(acts.iter().cloned());
    }
    out
}

fn actions_uncached(sys: &Sys, t: &Tables, g: &G, only: usize) -> Vec<Action> {
    let w = &sys.w;
    let q = w.c.quorum();
    let generous = w.c.total() - 2 * w.c.max_faulty();
    let mut out = vec![];
    let d = {
        let hit = t.caches.derivable.lock().unwrap().get(&*g.pool).cloned();
        match hit {
            Some(d) => d,
            None => {
                let t0 = std::time::Instant::now();
                let d = std::sync::Arc::new(derivable(sys, t, g));
                T_DERIV.fetch_add(t0.elapsed().as_micros() as u64, std::sync::atomic::Ordering::Relaxed);
                t.caches.derivable.lock().unwrap().insert((*g.pool).clone(), d.clone());
                d
            }
        }
    };
    let cgroups = commit_groups(sys, t, g);
    let tvotes = timeout_votes(t, g);
    // blocks any replica has (block sync source), by number
    let mut avail_blocks: BTreeMap<u64, Vec<v2::FinalBlock>> = BTreeMap::new();
    for lid in &g.locals {
        for b in &t.locals[*lid as usize].blocks {
            let e = avail_blocks.entry(b.number().0).or_default();
            if !e.iter().any(|x| x.payload == b.payload) {
                e.push(b.clone());
            }
        }
    }
    // ... and blocks nobody stores yet but whose certificate the faulty validator can assemble from the votes in
    // the pool plus its own: it can serve them to anyone through block sync ("a certified block is part of the
    // chain even if no correct node saw the certificate when it was formed")
    for (_, c) in &d.cqcs {
        for p in &w.proposals {
            if p.hash() == c.header().payload {
                let e = avail_blocks.entry(c.header().number.0).or_default();
                if !e.iter().any(|x| x.payload == *p) {
                    e.push(w.final_block(p, c));
                }
            }
        }
    }
    let (px, py) = (w.proposals[0].clone(), w.proposals[1].clone());
    for (ri, &vi) in sys.correct.iter().enumerate() {
        if ri != only {
            continue;
        }
        let l = &t.locals[g.locals[ri] as usize];
        let view = l.snap.view_number.0;
        if view > sys.max_view {
            continue; // beyond the bound: not expanded
        }
        // 1. proposals / new-views from the pool
        for id in g.pool.iter() {
            let mi = &t.msgs[*id as usize];
            if (mi.kind == 0 || mi.kind == 3) && mi.view >= view && mi.view <= sys.max_view + 1 {
                out.push(Action { replica: ri, desc: format!("v{vi} receives {}", mi.desc), inputs: vec![LInput::Pool(*id)], restart: false, key: 0, crash_lost: false });
            }
        }
        // 2. commit quorums (generous candidates: weight >= n - 2f)
        for ((v, a), votes) in &cgroups {
            if *v < view {
                continue;
            }
            let mut signers: Vec<(usize, u32)> = vec![];
            for (s, id) in votes {
                if !signers.iter().any(|x| x.0 == *s) {
                    signers.push((*s, *id));
                }
            }
            let cw = weight(sys, signers.iter().map(|x| x.0));
            let validator::ConsensusMsg::V2(v2::ChonkyMsg::ReplicaCommit(vote)) = &t.msgs[votes[0].1 as usize].msg.msg else { continue };
            for with_z in [false, true] {
                let tw = cw + if with_z { w.c.weights[sys.z] } else { 0 };
                if tw < generous {
                    continue;
                }
                let mut inputs: Vec<LInput> = signers.iter().map(|(_, id)| LInput::Pool(*id)).collect();
                if with_z {
                    inputs.push(LInput::ZCommit(vote.clone()));
                }
                out.push(Action { replica: ri, desc: format!("v{vi} collects commit votes {a:?} from {:?}{} (weight {tw}, quorum {q})", signers.iter().map(|x| x.0).collect::<Vec<_>>(), if with_z { " + faulty" } else { "" }), inputs, restart: false, key: 0, crash_lost: false });
            }
        }
        // 3. timeout quorums
        for (v, per_signer) in &tvotes {
            if *v < view {
                continue;
            }
            let zs = z_timeout_variants(sys, t, g, *v, &d.cqcs);
            // choose, for every correct signer, its latest vote (or its first one if different)
            let mut combos: Vec<Vec<(usize, u32)>> = vec![vec![]];
            for (s, ids) in per_signer {
                let mut opts: Vec<u32> = vec![*ids.last().unwrap()];
                if ids.len() > 1 {
                    opts.push(ids[0]);
                }
                let mut next = vec![];
                for c in &combos {
                    // signer absent
                    next.push(c.clone());
                    for o in &opts {
                        let mut x = c.clone();
                        x.push((*s, *o));
                        next.push(x);
                    }
                }
                combos = next;
            }
            for c in combos {
                let cw = weight(sys, c.iter().map(|x| x.0));
                for zopt in std::iter::once(None).chain(zs.iter().map(Some)) {
                    let tw = cw + if zopt.is_some() { w.c.weights[sys.z] } else { 0 };
                    if tw < generous {
                        continue;
                    }
                    let mut inputs: Vec<LInput> = c.iter().map(|(_, id)| LInput::Pool(*id)).collect();
                    let mut zdesc = String::new();
                    if let Some(zv) = zopt {
                        inputs.push(LInput::ZTimeout(zv.clone()));
                        zdesc = format!(" + faulty(high_vote {:?}, high_qc {:?})", zv.high_vote.as_ref().map(avote), zv.high_qc.as_ref().map(acqc));
                    }
                    out.push(Action { replica: ri, desc: format!("v{vi} collects timeout votes of view {v} from {:?}{zdesc} (weight {tw}, quorum {q})", c.iter().map(|x| (x.0, x.1)).collect::<Vec<_>>()), inputs, restart: false, key: 0, crash_lost: false });
                }
            }
        }
        // 4. timer
        out.push(Action { replica: ri, desc: format!("v{vi}: view timer fires"), inputs: vec![LInput::Ready(Input::Timeout)], restart: false, key: 0, crash_lost: false });
        // 5. own proposer
        if w.leader(view) == vi && l.snap.phase == v2::Phase::Prepare {
            if let Some(j) = justification_of(l) {
                if j.view().number.0 == view {
                    out.push(Action { replica: ri, desc: format!("v{vi}: proposer runs for view {view}"), inputs: vec![LInput::Ready(Input::Propose(j))], restart: false, key: 0, crash_lost: false });
                }
            }
        }
        // 6. block sync
        let next = w.c.genesis.first_block.0 + l.blocks.len() as u64;
        if let Some(bs) = avail_blocks.get(&next) {
            for b in bs {
                out.push(Action { replica: ri, desc: format!("v{vi}: block sync delivers block {next} ({:x})", bftmsgs::ph(&b.payload.hash())), inputs: vec![LInput::Ready(Input::Sync(b.clone()))], restart: false, key: 0, crash_lost: false });
            }
        }
        // 7. restart
        out.push(Action { replica: ri, desc: format!("v{vi} restarts"), inputs: vec![], restart: true, key: 0, crash_lost: false });
        let tz = std::time::Instant::now();
        // 8. the faulty validator's own messages: proposals for views it leads, new-views
        let mut justs: Vec<(String, v2::ProposalJustification)> = d.cqcs.iter().map(|(n, c)| (n.clone(), v2::ProposalJustification::Commit(c.clone()))).collect();
        justs.extend(d.tqcs.iter().map(|(n, c)| (n.clone(), v2::ProposalJustification::Timeout(c.clone()))));
        for (jn, j) in &justs {
            let jv = j.view().number.0;
            if jv < view || jv > sys.max_view + 1 {
                continue;
            }
            if w.leader(jv) == sys.z {
                for (pn, p) in [("no payload", None), ("payload X", Some(px.clone())), ("payload Y", Some(py.clone()))] {
                    out.push(Action { replica: ri, desc: format!("v{vi} receives the faulty leader's proposal for view {jv} [{jn}, {pn}]"), inputs: vec![LInput::ZProposal(j.clone(), p)], restart: false, key: 0, crash_lost: false });
                }
            }
            if jv > view {
                out.push(Action { replica: ri, desc: format!("v{vi} receives a new-view for view {jv} from the faulty validator [{jn}]"), inputs: vec![LInput::ZNewView(j.clone())], restart: false, key: 0, crash_lost: false });
            }
        }
        // ... and proposals whose justification does not verify: a timeout / commit certificate for the previous
        // view signed by the faulty key alone (a replica that already holds a certificate for that view must
        // still check the one it is given)
        for jv in view.max(1)..=sys.max_view + 1 {
            if !sys.forged || w.leader(jv) != sys.z {
                continue;
            }
            let forged_t = v2::ProposalJustification::Timeout(w.timeout_qc(jv - 1, &[(sys.z, w.timeout_vote(jv - 1, None, None))]));
            let next = w.c.genesis.first_block.0 + l.blocks.len() as u64;
            let forged_c = v2::ProposalJustification::Commit(w.commit_qc(&w.commit_vote(jv - 1, next, &py), 1 << sys.z));
            for (jn, j, payloads) in [("timeout certificate", forged_t, vec![Some(px.clone()), Some(py.clone())]), ("commit certificate", forged_c, vec![Some(px.clone())])] {
                for p in payloads {
                    out.push(Action { replica: ri, desc: format!("v{vi} receives the faulty leader's proposal for view {jv} justified by a {jn} for view {} signed by the faulty key alone, payload {:x?}", jv - 1, p.as_ref().map(|p| p.0.clone())), inputs: vec![LInput::ZForgedProposal(j.clone(), p)], restart: false, key: 0, crash_lost: false });
                }
            }
        }
        T_ZMSG.fetch_add(tz.elapsed().as_micros() as u64, std::sync::atomic::Ordering::Relaxed);
    }
    let tk = std::time::Instant::now();
    for a in out.iter_mut() {
        a.key = content_key(t, a);
        a.desc = format!("{} #{:08x}", a.desc, a.key as u32);
    }
    // the same content may be offered under several labels: keep one
    let mut seen_keys: HashSet<(usize, u64)> = HashSet::new();
    out.retain(|a| seen_keys.insert((a.replica, a.key)));
    if sys.crashes {
        let variants: Vec<Action> = out
            .iter()
            .filter(|a| !a.restart && a.inputs.len() == 1 && !matches!(a.inputs[0], LInput::Ready(Input::Sync(_)) | LInput::Ready(Input::Propose(_))))
            .map(|a| Action { replica: a.replica, desc: format!("{} -- CRASH at its first durable write (write lost)", a.desc), inputs: a.inputs.clone(), restart: false, key: a.key ^ 0xC4A5_4C05_7000_0001, crash_lost: true })
            .collect();
        out.extend(variants);
    }
    T_KEY.fetch_add(tk.elapsed().as_micros() as u64, std::sync::atomic::Ordering::Relaxed);
    out
}

pub type MemoKey = (u32, u64, usize);

/// Identifies the inputs of an action by their content (never by a label).
pub fn content_key(t: &Tables, a: &Action) -> u64 {
    let mut h: u64 = if a.restart { 0x1234 } else { 0 };
    let mut mix = |x: u64| h = (h ^ x).wrapping_mul(0x100000001b3).rotate_left(23);
    for i in &a.inputs {
        match i {
            LInput::Pool(id) => mix(fx_hash(&("pool", &t.msgs[*id as usize].desc))),
            LInput::Ready(Input::Msg(_)) => unreachable!("messages are referenced through the pool or lazily"),
            LInput::Ready(Input::Timeout) => mix(1),
            LInput::Ready(Input::Propose(j)) => mix(fx_hash(&("propose", bftmsgs::ajust(j)))),
            LInput::Ready(Input::Sync(b)) => mix(fx_hash(&("sync", b.number().0, bftmsgs::ph(&b.payload.hash())))),
            LInput::ZProposal(j, p) => mix(fx_hash(&("zprop", bftmsgs::ajust(j), p.as_ref().map(|p| p.0.clone())))),
            LInput::ZForgedProposal(j, p) => mix(fx_hash(&("zforged", bftmsgs::ajust(j), p.as_ref().map(|p| p.0.clone())))),
            LInput::ZNewView(j) => mix(fx_hash(&("znv", bftmsgs::ajust(j)))),
            LInput::ZCommit(c) => mix(fx_hash(&("zc", avote(c)))),
            LInput::ZTimeout(tm) => mix(fx_hash(&("zt", tm.view.number.0, tm.high_vote.as_ref().map(avote), tm.high_qc.as_ref().map(acqc)))),
        }
    }
    h
}

fn memo_key(sys: &Sys, t: &Tables, g: &G, a: &Action, sync_pool: &[v2::FinalBlock]) -> MemoKey {
    let lid = g.locals[a.replica];
    let l = &t.locals[lid as usize];
    let next = sys.w.c.genesis.first_block.0 + l.blocks.len() as u64;
    let relevant: Vec<(u64, u64)> = sync_pool.iter().filter(|b| b.number().0 >= next).map(|b| (b.number().0, bftmsgs::ph(&b.payload.hash()))).collect();
    let akey = fx_hash(&(a.key, relevant));
    (lid, akey, sys.correct[a.replica])
}

/// Runs the real handlers for one macro step (pure function of its arguments).
fn materialise(sys: &Sys, t: &Tables, i: &LInput) -> Input {
    let w = &sys.w;
    match i {
        LInput::Ready(x) => x.clone(),
        LInput::Pool(id) => Input::Msg(t.msgs[*id as usize].msg.clone()),
        LInput::ZProposal(j, p) | LInput::ZForgedProposal(j, p) => Input::Msg(w.proposal(sys.z, j, p.clone())),
        LInput::ZNewView(j) => Input::Msg(w.new_view(sys.z, j)),
        LInput::ZCommit(c) => Input::Msg(w.signed_commit(sys.z, c)),
        LInput::ZTimeout(tm) => Input::Msg(w.signed_timeout(sys.z, tm)),
    }
}

fn execute(sys: &Sys, t: &Tables, local: &Local, vi: usize, a: &Action, sync_pool: &[v2::FinalBlock]) -> (Local, Vec<SignedMsg>, StepFlags, u64) {
    let mut local = local.clone();
    let mut sent_msgs: Vec<SignedMsg> = vec![];
    let mut flags = StepFlags::default();
    let mut steps = 0;
    if a.restart {
        local = bftsim::real_restart(&sys.w, vi, &local);
    }
    for linp in &a.inputs {
        let inp = &materialise(sys, t, linp);
        let before = local.blocks.clone();
        let crash = a.crash_lost.then_some(bftsim::Crash { at: 0, applied: false, fail: false });
        let out = bftsim::step(&sys.w, vi, &local, inp, &Policy { shutdown: false, crash, sync: sync_pool.to_vec() });
        steps += 1;
        sent_msgs.extend(out.sent.iter().cloned());
        flags.blocked |= out.blocked;
        if out.local.blocks.len() < before.len() || before.iter().zip(out.local.blocks.iter()).any(|(x, y)| x != y) {
            flags.store_rewritten = true;
        }
        local = out.local;
        if out.blocked {
            break;
        }
    }
    let me = sys.w.c.keys[vi].public();
    sent_msgs.retain(|m| m.key == me);
    (local, sent_msgs, flags, steps)
}

/// Successor state from the memo table (the entry must exist).
fn successor(t: &Tables, g: &G, a: &Action, mk: &MemoKey) -> (G, StepFlags) {
    let (new_lid, sent, flags) = t.memo.get(mk).expect("memo entry").clone();
    let mut ng = g.clone();
    ng.locals[a.replica] = new_lid;
    if sent.iter().any(|id| ng.pool.binary_search(id).is_err()) {
        let mut p: Vec<u32> = (*ng.pool).clone();
        for id in sent {
            if let Err(pos) = p.binary_search(&id) {
                p.insert(pos, id);
            }
        }
        ng.pool = t.caches.intern_pool(p);
    }
    (ng, flags)
}

fn sync_pool_of(t: &Tables, g: &G) -> Vec<v2::FinalBlock> {
    let mut sync_pool: Vec<v2::FinalBlock> = vec![];
    for lid in &g.locals {
        for b in &t.locals[*lid as usize].blocks {
            if !sync_pool.iter().any(|x| x.number() == b.number()) {
                sync_pool.push(b.clone());
            }
        }
    }
    sync_pool
}

#[derive(Default)]
pub struct L2Result {
    pub states: usize,
    pub transitions: usize,
    pub real_steps: u64,
    pub distinct_locals: usize,
    pub distinct_msgs: usize,
    pub completed_depth: u32,
    pub max_depth: u32,
    pub fixed_point: bool,
    pub capped: bool,
    pub commit_qcs_formed: usize,
    pub blocks_finalized_max: usize,
    pub max_view: u64,
    pub reproposal_forced: usize,
    pub violations: Vec<(String, String, serde_json::Value)>,
    pub samples: Vec<String>,
    /// states kept for the progress check (C06): (state, path)
    /// states kept for C06 with the index of their path in `paths`
    pub kept: Vec<(G, u32)>,
    pub paths: Paths,
}

/// Arena of BFS paths: a path is (parent path, action description); descriptions are interned.
/// (Storing a Vec<String> per state cost ~1 kB per state and ended a thorough run in the OOM killer.)
#[derive(Default)]
pub struct Paths {
    nodes: Vec<(u32, u32)>,
    descs: Vec<String>,
    index: HashMap<String, u32>,
}

pub const ROOT_PATH: u32 = u32::MAX;

impl Paths {
    pub fn push(&mut self, parent: u32, desc: &str) -> u32 {
        let d = match self.index.get(desc) {
            Some(d) => *d,
            None => {
                let d = self.descs.len() as u32;
                self.descs.push(desc.to_string());
                self.index.insert(desc.to_string(), d);
                d
            }
        };
        self.nodes.push((parent, d));
        (self.nodes.len() - 1) as u32
    }
    pub fn get(&self, mut idx: u32) -> Vec<String> {
        let mut v = vec![];
        while idx != ROOT_PATH {
            let (p, d) = self.nodes[idx as usize];
            v.push(self.descs[d as usize].clone());
            idx = p;
        }
        v.reverse();
        v
    }
    pub fn with(&self, idx: u32, last: &str) -> Vec<String> {
        let mut v = self.get(idx);
        v.push(last.to_string());
        v
    }
}

/// Safety oracle on one global state.
pub fn check_state(sys: &Sys, t: &Tables, g: &G) -> Vec<(String, String)> {
    let mut v = vec![];
    // (i) agreement: one payload per block number across correct replicas
    let mut by_number: BTreeMap<u64, BTreeSet<u64>> = BTreeMap::new();
    for lid in &g.locals {
        for b in &t.locals[*lid as usize].blocks {
            by_number.entry(b.number().0).or_default().insert(bftmsgs::ph(&b.payload.hash()));
        }
    }
    for (n, hs) in &by_number {
        if hs.len() > 1 {
            v.push(("agreement".into(), format!("correct replicas committed {} different payloads for block {n}: {:x?}", hs.len(), hs)));
        }
    }
    // (iii) every stored block verifies under the schedule
    for lid in &g.locals {
        for b in &t.locals[*lid as usize].blocks {
            let key = fx_hash(&(b.number().0, bftmsgs::ph(&b.payload.hash()), zksync_protobuf::encode(&b.justification)));
            let cached = t.caches.verified_blocks.lock().unwrap().get(&key).copied();
            let ok = match cached {
                Some(ok) => ok,
                None => {
                    let ok = b.verify(sys.w.c.genesis.hash(), sys.w.c.epoch, &sys.w.c.schedule).is_ok();
                    t.caches.verified_blocks.lock().unwrap().insert(key, ok);
                    ok
                }
            };
            if !ok {
                v.push(("unverified_block".into(), format!("a stored block {} does not verify", b.number().0)));
            }
        }
    }
    // C02 history level: once a quorum (correct votes in the pool + faulty weight) voted (v, n, h), no
    // correct replica signs a commit vote (v' > v, n, h' != h)
    let q = sys.w.c.quorum();
    let groups = commit_groups(sys, t, g);
    for ((view, a), votes) in &groups {
        let signers: BTreeSet<usize> = votes.iter().map(|x| x.0).collect();
        if weight(sys, signers.iter().copied()) + sys.w.c.weights[sys.z] >= q {
            for ((v2_, b), _) in groups.iter().filter(|((v2_, b), _)| *v2_ > *view && b.number == a.number && b.hash != a.hash) {
                v.push(("certified_block_displaced".into(), format!("block {:?} gathered a quorum of commit votes in view {view}, yet a correct replica signed a commit vote for {:?} in the later view {v2_}", a, b)));
            }
        }
    }
    // C02, premise of the uniqueness argument: a timeout vote of a correct replica for view v reports,
    // as its high vote, the replica's latest commit vote of a view <= v (a commit vote of view <= v was
    // signed before the timeout vote of view v: C03). Both are read off the messages the replica signed.
    let tv = timeout_votes(t, g);
    for (view, by_signer) in &tv {
        for (signer, ids) in by_signer {
            if *signer == sys.z {
                continue;
            }
            let latest: Option<AVote> = groups.iter().filter(|((cv, _), votes)| *cv <= *view && votes.iter().any(|x| x.0 == *signer)).map(|((_, a), _)| a.clone()).max_by_key(|a| a.view);
            for id in ids {
                let validator::ConsensusMsg::V2(v2::ChonkyMsg::ReplicaTimeout(tm)) = &t.msgs[*id as usize].msg.msg else { continue };
                let reported = tm.high_vote.as_ref().map(avote);
                if reported != latest {
                    v.push(("stale_high_vote_reported".into(), format!("validator #{signer} signed a timeout vote for view {view} reporting the high vote {reported:?}, but the latest commit vote it signed in a view <= {view} is {latest:?}")));
                }
            }
        }
    }
    v
}

pub fn explore(cfg: &L2Cfg, keep_for_progress: usize) -> (Sys, Tables, L2Result) {
    crate::core::trim_memory();
    let sys = system(cfg);
    let mut t = Tables::default();
    let mut res = L2Result::default();
    let l0 = t.intern_local(&sys.w, Local::initial());
    let init = G { locals: vec![l0; sys.correct.len()], pool: Default::default() };
    let mut seen: HashSet<G> = HashSet::new();
    seen.insert(init.clone());
    let mut paths = Paths::default();
    let mut frontier: Vec<(G, u32)> = vec![(init, ROOT_PATH)];
    let rss_limit: usize = std::env::var("VERIF_RSS_LIMIT_GB").ok().and_then(|s| s.parse().ok()).unwrap_or(24usize) << 30;
    res.states = 1;
    let mut depth = 0u32;
    let mut viol: BTreeMap<String, (String, serde_json::Value)> = BTreeMap::new();
    let mut last_level = std::time::Duration::ZERO;
    let (mut prev_frontier, mut last_growth) = (0usize, 0usize);
    'outer: while !frontier.is_empty() {
        // a level costs about (growth factor) x the previous one: do not start a level that cannot
        // be completed before the deadline (an unfinished level would not count anyway)
        // memory: a level's transient tables grow with the frontier; do not start a level whose
        // predicted peak (last level's growth scaled by the frontier growth) exceeds the cap
        let rss_now = crate::core::rss_bytes();
        let predicted = if prev_frontier > 0 { (last_growth as f64 * frontier.len() as f64 / prev_frontier as f64) as usize } else { 0 };
        if std::time::Instant::now() + last_level * 2 > cfg.deadline || res.states >= cfg.max_states || rss_now > rss_limit || rss_now + predicted > rss_limit + (rss_limit >> 2) {
            res.capped = true;
            break 'outer;
        }
        let t_level = std::time::Instant::now();
        let (rss_level_start, frontier_len) = (rss_now, frontier.len());
        let mut rss_level_peak = rss_now;
        // the per-pool caches (derivable certificates, action menus) are pure accelerators and are
        // by far the largest tables: drop them when memory gets tight
        if crate::core::rss_bytes() > rss_limit / 3 {
            t.caches.derivable.lock().unwrap().clear();
            t.caches.actions.lock().unwrap().clear();
        }
        // phase 1: actions of every frontier state; collect the local transitions not yet known
        let tp0 = std::time::Instant::now();
        let per_state: Vec<(Vec<v2::FinalBlock>, Vec<(std::sync::Arc<Action>, MemoKey)>)> = crate::core::par_map(frontier.len(), |fi| {
            let g = &frontier[fi].0;
            let sp = sync_pool_of(&t, g);
            let acts: Vec<(std::sync::Arc<Action>, MemoKey)> = actions(&sys, &t, g).into_iter().map(|a| { let mk = memo_key(&sys, &t, g, &a, &sp); (a, mk) }).collect();
            (sp, acts)
        });
        let mut level: Vec<(usize, std::sync::Arc<Action>, MemoKey)> = vec![];
        let mut needed: Vec<(MemoKey, usize, usize)> = vec![]; // key, frontier index, action index in `level`
        let mut needed_set: HashSet<MemoKey> = HashSet::new();
        let mut pools: Vec<Vec<v2::FinalBlock>> = Vec::with_capacity(frontier.len());
        for (fi, (sp, acts)) in per_state.into_iter().enumerate() {
            for (a, mk) in acts {
                if !t.memo.contains_key(&mk) && needed_set.insert(mk) {
                    needed.push((mk, fi, level.len()));
                }
                level.push((fi, a, mk));
            }
            pools.push(sp);
        }
        let tp1 = std::time::Instant::now();
        rss_level_peak = rss_level_peak.max(crate::core::rss_bytes());
        // phase 2: run the new local transitions on the real code, in parallel
        let deadline = cfg.deadline;
        let results = crate::core::par_map(needed.len(), |k| {
            if std::time::Instant::now() > deadline {
                return None;
            }
            let (mk, fi, ai) = &needed[k];
            let g = &frontier[*fi].0;
            let a = &level[*ai].1;
            Some(execute(&sys, &t, &t.locals[g.locals[a.replica] as usize], mk.2, a, &pools[*fi]))
        });
        let mut incomplete = false;
        for (k, r) in results.into_iter().enumerate() {
            let Some((local, sent, flags, steps)) = r else {
                incomplete = true;
                continue;
            };
            t.real_steps += steps;
            let ids: Vec<u32> = sent.iter().map(|m| t.intern_msg(&sys.w, m)).collect();
            let nl = t.intern_local(&sys.w, local);
            t.memo.insert(needed[k].0, (nl, ids, flags));
        }
        if incomplete {
            res.capped = true;
            break 'outer;
        }
        let tp2 = std::time::Instant::now();
        // phase 3: successor states
        let mut next: Vec<(G, u32)> = vec![];
        for (fi, a, mk) in &level {
            let (g, path) = &frontier[*fi];
            let (ng, flags) = successor(&t, g, a, mk);
            res.transitions += 1;
            if flags.store_rewritten && !cfg.ignore.contains(&"store_rewritten") {
                let p = paths.with(*path, &a.desc);
                viol.entry("store_rewritten".into()).or_insert_with(|| (format!("[store_rewritten] a correct replica removed or replaced a committed block\n  path: {}", p.join("  ->  ")), serde_json::json!({"harness":"l2","path":p})));
            }
            if ng == *g {
                continue;
            }
            if seen.insert(ng.clone()) {
                res.states += 1;
                let pi = paths.push(*path, &a.desc);
                for (k, what) in check_state(&sys, &t, &ng) {
                    if cfg.ignore.contains(&k.as_str()) {
                        continue;
                    }
                    let p = paths.get(pi);
                    viol.entry(k.clone()).or_insert_with(|| (format!("[{k}] {what}\n  path ({} steps): {}", p.len(), p.join("  ->  ")), serde_json::json!({"harness":"l2","path":p})));
                }
                let nb = ng.locals.iter().map(|l| t.locals[*l as usize].blocks.len()).max().unwrap_or(0);
                res.blocks_finalized_max = res.blocks_finalized_max.max(nb);
                res.max_view = res.max_view.max(ng.locals.iter().map(|l| t.locals[*l as usize].snap.view_number.0).max().unwrap_or(0));
                if res.samples.len() < 3 && nb >= 1 {
                    res.samples.push(paths.get(pi).join(" -> "));
                }
                if res.kept.len() < keep_for_progress {
                    res.kept.push((ng.clone(), pi));
                }
                next.push((ng, pi));
            }
        }
        if std::env::var("VERIF_DEBUG").is_ok() { eprintln!("   deriv {}ms zmsg {}ms key {}ms", T_DERIV.load(std::sync::atomic::Ordering::Relaxed)/1000, T_ZMSG.load(std::sync::atomic::Ordering::Relaxed)/1000, T_KEY.load(std::sync::atomic::Ordering::Relaxed)/1000); eprintln!("depth {depth}: frontier {} actions {} needed {} | phase1 {:.2}s phase2 {:.2}s phase3 {:.2}s", frontier.len(), level.len(), needed.len(), (tp1-tp0).as_secs_f64(), (tp2-tp1).as_secs_f64(), tp2.elapsed().as_secs_f64()); }
        last_level = t_level.elapsed();
        rss_level_peak = rss_level_peak.max(crate::core::rss_bytes());
        prev_frontier = frontier_len;
        last_growth = rss_level_peak.saturating_sub(rss_level_start);
        depth += 1;
        res.completed_depth = depth;
        res.max_depth = depth;
        if !viol.is_empty() {
            break 'outer;
        }
        frontier = next;
        if frontier.is_empty() {
            res.fixed_point = true;
        }
    }
    res.real_steps = t.real_steps;
    res.distinct_locals = t.locals.len();
    res.distinct_msgs = t.msgs.len();
    res.violations = viol.into_iter().map(|(k, (w, r))| (k, w, r)).collect();
    res.paths = paths;
    drop(seen);
    drop(frontier);
    crate::core::trim_memory();
    (sys, t, res)
}

/// Re-executes a path of action descriptions from the initial state, printing every step.
pub fn replay(cfg: &L2Cfg, path: &[String]) -> Result<Vec<(String, String)>, String> {
    let sys = system(cfg);
    let mut t = Tables::default();
    let l0 = t.intern_local(&sys.w, Local::initial());
    let mut g = G { locals: vec![l0; sys.correct.len()], pool: Default::default() };
    for (k, d) in path.iter().enumerate() {
        let sp = sync_pool_of(&t, &g);
        let acts = actions(&sys, &t, &g);
        let Some(a) = acts.iter().find(|a| a.desc == *d) else { return Err(format!("step {k}: action '{d}' is not offered in this state; offered: {:?}", acts.iter().map(|a| a.desc.clone()).collect::<Vec<_>>())) };
        let vi = sys.correct[a.replica];
        let (local, sent, flags, _) = execute(&sys, &t, &t.locals[g.locals[a.replica] as usize], vi, a, &sp);
        println!("  step {k}: {d}\n      -> view {} phase {:?} high_vote {:?} blocks {} blocked {} | sent: {}", local.snap.view_number.0, local.snap.phase, local.snap.high_vote.as_ref().map(avote), local.blocks.len(), flags.blocked, sent.iter().map(|m| bftmsgs::describe(&sys.w, m)).collect::<Vec<_>>().join("; "));
        let ids: Vec<u32> = sent.iter().map(|m| t.intern_msg(&sys.w, m)).collect();
        let nl = t.intern_local(&sys.w, local);
        g.locals[a.replica] = nl;
        let mut p: Vec<u32> = (*g.pool).clone();
        for id in ids {
            if let Err(pos) = p.binary_search(&id) {
                p.insert(pos, id);
            }
        }
        g.pool = t.caches.intern_pool(p);
    }
    Ok(check_state(&sys, &t, &g))
}

// ---------------------------------------------------------------------------------------------
// Good period (C06): from a reachable state, everything in flight is lost, every correct node
// restarts from its durable image, the faulty validator stays silent, and from now on every
// message is delivered to every correct node in send order; timers fire when nothing else happens.

pub struct GoodPeriod {
    pub ok: bool,
    pub rounds: u32,
    pub real_steps: u64,
    pub trace: Vec<String>,
    pub why: String,
}

pub fn good_period(sys: &Sys, t: &Tables, g: &G, max_timeout_rounds: u32) -> GoodPeriod {
    use std::collections::VecDeque;
    let n = sys.correct.len();
    let mut locals: Vec<Local> = g.locals.iter().enumerate().map(|(i, l)| bftsim::real_restart(&sys.w, sys.correct[i], &t.locals[*l as usize])).collect();
    let start_blocks: Vec<usize> = locals.iter().map(|l| l.blocks.len()).collect();
    let mut inbox: Vec<VecDeque<SignedMsg>> = vec![VecDeque::new(); n];
    let mut trace = vec![];
    let mut steps = 0u64;
    let mut rounds = 0u32;
    let progressed = |locals: &Vec<Local>| locals.iter().zip(start_blocks.iter()).all(|(l, s)| l.blocks.len() > *s);
    let sync_pool = |locals: &Vec<Local>| -> Vec<v2::FinalBlock> {
        let mut sp: Vec<v2::FinalBlock> = vec![];
        for l in locals {
            for b in &l.blocks {
                if !sp.iter().any(|x| x.number() == b.number()) {
                    sp.push(b.clone());
                }
            }
        }
        sp
    };
    loop {
        // deliver everything that is in flight, round-robin
        let mut deliveries = 0;
        loop {
            let Some(ri) = (0..n).find(|i| !inbox[*i].is_empty()) else { break };
            // fairness: serve the replica with the longest inbox first
            let ri = (0..n).max_by_key(|i| inbox[*i].len()).unwrap_or(ri);
            let m = inbox[ri].pop_front().unwrap();
            deliveries += 1;
            if deliveries > 3000 {
                return GoodPeriod { ok: false, rounds, real_steps: steps, trace, why: "message storm: more than 3000 deliveries in one round".into() };
            }
            let sp = sync_pool(&locals);
            let out = bftsim::step(&sys.w, sys.correct[ri], &locals[ri], &Input::Msg(m), &Policy { shutdown: false, crash: None, sync: sp.clone() });
            steps += 1;
            let mut sent = out.sent.clone();
            locals[ri] = out.local;
            if out.blocked {
                trace.push(format!("v{} blocked while handling a message", sys.correct[ri]));
            }
            if let Some(j) = out.published {
                if sys.w.leader(j.view().number.0) == sys.correct[ri] {
                    let o2 = bftsim::step(&sys.w, sys.correct[ri], &locals[ri], &Input::Propose(j), &Policy { shutdown: false, crash: None, sync: sp });
                    steps += 1;
                    sent.extend(o2.sent);
                }
            }
            for m in sent {
                for q in inbox.iter_mut() {
                    q.push_back(m.clone());
                }
            }
            if progressed(&locals) {
                return GoodPeriod { ok: true, rounds, real_steps: steps, trace, why: String::new() };
            }
        }
        if progressed(&locals) {
            return GoodPeriod { ok: true, rounds, real_steps: steps, trace, why: String::new() };
        }
        if rounds >= max_timeout_rounds {
            let views: Vec<u64> = locals.iter().map(|l| l.snap.view_number.0).collect();
            let blocks: Vec<usize> = locals.iter().map(|l| l.blocks.len()).collect();
            return GoodPeriod { ok: false, rounds, real_steps: steps, trace, why: format!("no new block after {rounds} rounds of view timeouts with reliable delivery: views {views:?}, stored blocks {blocks:?} (at start {start_blocks:?})") };
        }
        // nothing in flight: every view timer fires
        rounds += 1;
        trace.push(format!("round {rounds}: all view timers fire (views {:?})", locals.iter().map(|l| l.snap.view_number.0).collect::<Vec<_>>()));
        for ri in 0..n {
            let sp = sync_pool(&locals);
            let out = bftsim::step(&sys.w, sys.correct[ri], &locals[ri], &Input::Timeout, &Policy { shutdown: false, crash: None, sync: sp });
            steps += 1;
            locals[ri] = out.local;
            for m in out.sent {
                for q in inbox.iter_mut() {
                    q.push_back(m.clone());
                }
            }
        }
    }
}
