//! C04 — certificates are accepted exactly when genuinely backed by a quorum.
//! E4: every committee of a small scope x every signer subset x every single corruption of a
//! listed alphabet, on the real `add` / `verify` functions, against a reference predicate.
use std::collections::BTreeMap;

use serde_json::json;
use zksync_consensus_roles::validator::{
    self,
    v2::{BlockHeader, CommitQC, FinalBlock, LeaderProposal, ProposalJustification, ReplicaCommit, ReplicaNewView, ReplicaTimeout, Signers, TimeoutQC, View},
    BlockNumber, EpochNumber, GenesisHash, Payload, ViewNumber,
};

use super::util::{self, Committee};
use crate::{
    core::{catch, par_map, Report, Tier, Violation},
    Args,
};

#[derive(Default)]
struct Out {
    evals: u64,
    accepted: u64,
    rejected: u64,
    viol: BTreeMap<String, (String, serde_json::Value)>,
    distinct: u64,
}

struct Cx<'a> {
    c: &'a Committee,
    /// same keys, different chain
    other_genesis: GenesisHash,
    out: Out,
    wjson: serde_json::Value,
}

impl<'a> Cx<'a> {
    fn gh(&self) -> GenesisHash {
        self.c.genesis.hash()
    }
    fn view(&self, n: u64) -> View {
        View { genesis: self.gh(), epoch: self.c.epoch, number: ViewNumber(n) }
    }
    fn expect(&mut self, class: &str, desc: &str, got: Result<bool, String>, want: bool) {
        self.out.evals += 1;
        self.out.distinct += 1;
        match got {
            Ok(g) => {
                if g {
                    self.out.accepted += 1
                } else {
                    self.out.rejected += 1
                }
                if g != want {
                    let k = format!("{class}:{}", if g { "accepted_invalid" } else { "rejected_valid" });
                    self.out.viol.entry(k.clone()).or_insert_with(|| {
                        (
                            format!("[{k}] committee weights {:?}: {desc}: verify() {} but the reference predicate says {}", self.c.weights, if g { "accepted" } else { "refused" }, if want { "valid" } else { "invalid" }),
                            json!({"harness":"c04","weights": self.wjson, "class": class, "case": desc}),
                        )
                    });
                }
            }
            Err(p) => {
                let k = format!("{class}:panic");
                self.out.viol.entry(k.clone()).or_insert_with(|| (format!("[{k}] committee weights {:?}: {desc}: panicked: {p}", self.c.weights), json!({"harness":"c04","weights": self.wjson, "class": class, "case": desc})));
            }
        }
    }
    fn commit_msg(&self, view: u64, number: u64, payload: &Payload) -> ReplicaCommit {
        ReplicaCommit { view: self.view(view), proposal: BlockHeader { number: BlockNumber(number), payload: payload.hash() } }
    }
    /// Builds a CommitQC with the real incremental `add` for the signers in `mask`.
    fn build_commit(&mut self, msg: &ReplicaCommit, mask: u32) -> CommitQC {
        let mut qc = CommitQC::new(msg.clone(), &self.c.schedule);
        for i in 0..self.c.n() {
            if mask >> i & 1 == 1 {
                let s = self.c.keys[i].sign_msg(msg.clone());
                let r = catch(|| qc.add(&s, self.gh(), self.c.epoch, &self.c.schedule));
                match r {
                    Ok(Ok(())) => {}
                    Ok(Err(e)) => {
                        self.out.viol.entry("commit_add:refused_valid_vote".into()).or_insert_with(|| (format!("[commit_add:refused_valid_vote] CommitQC::add refused a valid vote of member #{i}: {e:#}"), json!({"harness":"c04","weights": self.wjson})));
                    }
                    Err(p) => {
                        self.out.viol.entry("commit_add:panic".into()).or_insert_with(|| (format!("[commit_add:panic] {p}"), json!({"harness":"c04","weights": self.wjson})));
                    }
                }
            }
        }
        qc
    }
    fn vcommit(&self, qc: &CommitQC) -> Result<bool, String> {
        catch(|| qc.verify(self.gh(), self.c.epoch, &self.c.schedule).is_ok())
    }
    fn vtimeout(&self, qc: &TimeoutQC) -> Result<bool, String> {
        catch(|| qc.verify(self.gh(), self.c.epoch, &self.c.schedule).is_ok())
    }
}

fn set_bit(s: &Signers, i: usize, v: bool) -> Signers {
    let mut s = s.clone();
    s.0.set(i, v);
    s
}

fn resize(s: &Signers, delta: i32) -> Signers {
    let mut bv = s.0.clone();
    if delta > 0 {
        bv.push(false);
    } else {
        bv.pop();
    }
    Signers(bv)
}

fn check_committee(c: &Committee, tier: Tier) -> Out {
    let other = util::committee_with(0, &c.weights, 7, 0, Default::default());
    let wjson = json!(c.weights);
    let mut cx = Cx { c, other_genesis: other.genesis.hash(), out: Out::default(), wjson };
    let n = c.n();
    let q = c.quorum();
    let pa = Payload(vec![1, 2, 3]);
    let pb = Payload(vec![4, 5]);
    let msg = cx.commit_msg(5, 2, &pa);
    let maxw = *c.weights.iter().max().unwrap();
    let full: u32 = (1u32 << n) - 1;

    // ---- A. every signer subset, CommitQC
    let mut accepted_masks = vec![];
    let mut boundary_masks = vec![];
    for mask in 0..=full {
        let w = c.weight_of(mask);
        let qc = cx.build_commit(&msg, mask);
        let got = cx.vcommit(&qc);
        cx.expect("commit_qc", &format!("signer subset {mask:#b} (weight {w}, quorum {q})"), got, w >= q);
        if w >= q {
            accepted_masks.push(mask);
        } else if w + maxw >= q {
            boundary_masks.push(mask);
        }
    }

    // ---- B. single corruptions of accepted and boundary-rejected CommitQCs
    let base_masks: Vec<u32> = accepted_masks.iter().chain(boundary_masks.iter()).copied().collect();
    for &mask in &base_masks {
        let qc = cx.build_commit(&msg, mask);
        let valid = c.weight_of(mask) >= q;
        let mut variants: Vec<(String, CommitQC, bool)> = vec![];
        for i in 0..n {
            let mut x = qc.clone();
            x.signers = set_bit(&x.signers, i, mask >> i & 1 == 0);
            variants.push((format!("flip signer bit {i}"), x, false));
        }
        for d in [-1, 1] {
            let mut x = qc.clone();
            x.signers = resize(&x.signers, d);
            variants.push((format!("bitmap length {d:+}"), x, false));
        }
        for (name, m2) in [
            ("view+1", ReplicaCommit { view: cx.view(6), ..msg.clone() }),
            ("view-1", ReplicaCommit { view: cx.view(4), ..msg.clone() }),
            ("epoch+1", ReplicaCommit { view: View { epoch: EpochNumber(1), ..msg.view }, ..msg.clone() }),
            ("other genesis", ReplicaCommit { view: View { genesis: cx.other_genesis, ..msg.view }, ..msg.clone() }),
            ("other payload hash", cx.commit_msg(5, 2, &pb)),
            ("other block number", cx.commit_msg(5, 3, &pa)),
        ] {
            // message replaced, signature kept
            let mut x = qc.clone();
            x.message = m2.clone();
            variants.push((format!("message field changed ({name}), signature kept"), x, false));
            // genuinely signed for the changed message: only context errors remain
            if name == "epoch+1" || name == "other genesis" {
                let y = {
                    let mut y = CommitQC::new(m2.clone(), &c.schedule);
                    for i in 0..n {
                        if mask >> i & 1 == 1 {
                            y.signers.0.set(i, true);
                            y.signature.add(&c.keys[i].sign_msg(m2.clone()).sig);
                        }
                    }
                    y
                };
                variants.push((format!("certificate genuinely signed for {name}"), y, false));
            }
        }
        // signature of a different subset
        for &m2 in accepted_masks.iter().filter(|m| **m != mask).take(3) {
            let o = cx.build_commit(&msg, m2);
            let mut x = qc.clone();
            x.signature = o.signature;
            variants.push((format!("signature of subset {m2:#b}"), x, false));
        }
        // signature over a different message by the same subset
        {
            let m2 = cx.commit_msg(5, 2, &pb);
            let o = cx.build_commit(&m2, mask);
            let mut x = qc.clone();
            x.signature = o.signature;
            variants.push(("signature of the same subset over another vote".into(), x, false));
        }
        // default (infinity) signature
        {
            let mut x = qc.clone();
            x.signature = validator::AggregateSignature::default();
            variants.push(("empty aggregate signature".into(), x, mask == 0 && valid));
        }
        for (name, x, want) in variants {
            let got = cx.vcommit(&x);
            cx.expect("commit_qc_corrupt", &format!("base subset {mask:#b} ({}), {name}", if valid { "valid" } else { "under-weight" }), got, want);
        }
        // verification context
        let got = catch(|| qc.verify(cx.other_genesis, c.epoch, &c.schedule).is_ok());
        cx.expect("commit_qc_context", &format!("subset {mask:#b} verified against another genesis"), got, false);
        let got = catch(|| qc.verify(cx.gh(), EpochNumber(1), &c.schedule).is_ok());
        cx.expect("commit_qc_context", &format!("subset {mask:#b} verified against another epoch"), got, false);
        // a schedule with the same keys in which the signers' weight is lower
        if valid && n >= 2 {
            let heavier: Vec<u64> = (0..n).map(|i| if mask >> i & 1 == 1 { c.weights[i] } else { c.weights[i] * 40 }).collect();
            let c2 = util::committee(0, &heavier);
            if c2.keys.iter().map(|k| k.public()).eq(c.keys.iter().map(|k| k.public())) && mask != full {
                let want = c2.weight_of(mask) >= c2.quorum();
                let got = catch(|| qc.verify(cx.gh(), c.epoch, &c2.schedule).is_ok());
                cx.expect("commit_qc_context", &format!("subset {mask:#b} verified against a schedule where non-signers are 40x heavier"), got, want);
            }
        }
    }

    // ---- C. TimeoutQC: every subset x assignment patterns of timeout votes
    let hv = cx.commit_msg(4, 2, &pa);
    let hq_msg = cx.commit_msg(3, 1, &pb);
    let high_qc = cx.build_commit(&hq_msg, full);
    let under_qc = cx.build_commit(&hq_msg, *boundary_masks.first().unwrap_or(&0));
    let tv = cx.view(5);
    let t0 = ReplicaTimeout { view: tv, high_vote: None, high_qc: None };
    let t1 = ReplicaTimeout { view: tv, high_vote: Some(hv.clone()), high_qc: None };
    let t2 = ReplicaTimeout { view: tv, high_vote: Some(hv.clone()), high_qc: Some(high_qc.clone()) };
    let tvars = [t0.clone(), t1.clone(), t2.clone()];
    let build_timeout = |cx: &mut Cx, mask: u32, pat: usize| -> TimeoutQC {
        let mut qc = TimeoutQC::new(tv);
        for i in 0..n {
            if mask >> i & 1 == 1 {
                let m = match pat {
                    0 => &tvars[0],
                    1 => &tvars[i % 2],
                    _ => &tvars[i % 3],
                };
                let s = c.keys[i].sign_msg(m.clone());
                match catch(|| qc.add(&s, cx.gh(), c.epoch, &c.schedule)) {
                    Ok(Ok(())) => {}
                    Ok(Err(e)) => {
                        cx.out.viol.entry("timeout_add:refused_valid_vote".into()).or_insert_with(|| (format!("[timeout_add:refused_valid_vote] TimeoutQC::add refused a valid vote of member #{i}: {e:#}"), json!({"harness":"c04","weights": cx.wjson})));
                    }
                    Err(p) => {
                        cx.out.viol.entry("timeout_add:panic".into()).or_insert_with(|| (format!("[timeout_add:panic] {p}"), json!({"harness":"c04","weights": cx.wjson})));
                    }
                }
            }
        }
        qc
    };
    let npat = tier.pick(2, 3);
    for mask in 0..=full {
        let w = c.weight_of(mask);
        for pat in 0..npat {
            let qc = build_timeout(&mut cx, mask, pat);
            let got = cx.vtimeout(&qc);
            cx.expect("timeout_qc", &format!("signer subset {mask:#b} (weight {w}, quorum {q}), vote pattern {pat}"), got, w >= q);
        }
    }
    // ---- D. corruptions of TimeoutQCs
    for &mask in &base_masks {
        let valid = c.weight_of(mask) >= q;
        let qc = build_timeout(&mut cx, mask, 1);
        let mut variants: Vec<(String, TimeoutQC, Option<bool>)> = vec![];
        let groups: Vec<ReplicaTimeout> = qc.map.keys().cloned().collect();
        for (gi, g) in groups.iter().enumerate() {
            for i in 0..n {
                let mut x = qc.clone();
                let cur = x.map[g].0[i];
                let s = set_bit(&x.map[g], i, !cur);
                x.map.insert(g.clone(), s);
                variants.push((format!("group {gi}: flip signer bit {i}"), x, Some(false)));
            }
            for d in [-1, 1] {
                let mut x = qc.clone();
                let s = resize(&x.map[g], d);
                x.map.insert(g.clone(), s);
                variants.push((format!("group {gi}: bitmap length {d:+}"), x, Some(false)));
            }
        }
        // an extra empty group: verdict not prescribed by the property (must not panic)
        {
            let mut x = qc.clone();
            x.map.insert(t2.clone(), Signers::new(n));
            variants.push(("extra group without signers".into(), x, None));
        }
        // a group of another view, genuinely signed by its signers
        if let Some(i) = (0..n).find(|i| mask >> i & 1 == 1) {
            let other_view = ReplicaTimeout { view: cx.view(6), high_vote: None, high_qc: None };
            let mut x = TimeoutQC::new(tv);
            for j in 0..n {
                if mask >> j & 1 == 1 {
                    let m = if j == i { other_view.clone() } else { tvars[j % 2].clone() };
                    let e = x.map.entry(m.clone()).or_insert_with(|| Signers::new(n));
                    e.0.set(j, true);
                    x.signature.add(&c.keys[j].sign_msg(m).sig);
                }
            }
            variants.push((format!("signer {i}'s vote is for another view (genuinely signed)"), x, Some(false)));
            // nested certificate under-weight / wrong epoch, genuinely signed by the voter
            let bad_nested = [
                ("under-weight high_qc", ReplicaTimeout { view: tv, high_vote: None, high_qc: Some(under_qc.clone()) }, c.weight_of(*boundary_masks.first().unwrap_or(&0)) >= q),
                ("high_qc of another epoch", {
                    let m = ReplicaCommit { view: View { epoch: EpochNumber(1), ..hq_msg.view }, ..hq_msg.clone() };
                    let mut y = CommitQC::new(m.clone(), &c.schedule);
                    for j in 0..n {
                        y.signers.0.set(j, true);
                        y.signature.add(&c.keys[j].sign_msg(m.clone()).sig);
                    }
                    ReplicaTimeout { view: tv, high_vote: None, high_qc: Some(y) }
                }, false),
                ("high_vote of another genesis", ReplicaTimeout { view: tv, high_vote: Some(ReplicaCommit { view: View { genesis: cx.other_genesis, ..hv.view }, ..hv.clone() }), high_qc: None }, false),
                ("high_qc for the same view and block as the genuine one, all signer bits set, a single signature", {
                    let mut y = CommitQC::new(hq_msg.clone(), &c.schedule);
                    for j in 0..n {
                        y.signers.0.set(j, true);
                    }
                    y.signature.add(&c.keys[i].sign_msg(hq_msg.clone()).sig);
                    ReplicaTimeout { view: tv, high_vote: None, high_qc: Some(y) }
                }, n == 1),
            ];
            let t3 = ReplicaTimeout { view: tv, high_vote: None, high_qc: Some(high_qc.clone()) };
            for (name, bm, nested_ok) in bad_nested {
                // alone, and next to another signer's vote that carries a GENUINE high_qc for the same
                // view (a verifier that checks "one certificate per view" would skip the bad one); the
                // bad vote with and without a high vote, so that it sorts before and after the genuine one
                let companion = (0..n).find(|j| *j != i && mask >> j & 1 == 1);
                for with_companion in [0usize, 1, 2] {
                    for with_high_vote in [false, true] {
                        if with_companion > 0 && companion.is_none() {
                            continue;
                        }
                        let mut bm2 = bm.clone();
                        if with_high_vote {
                            if bm2.high_vote.is_some() {
                                continue;
                            }
                            bm2.high_vote = Some(hv.clone());
                        }
                        let mut x = TimeoutQC::new(tv);
                        for j in 0..n {
                            if mask >> j & 1 == 1 {
                                let m = if j == i {
                                    bm2.clone()
                                } else if with_companion > 0 && Some(j) == companion {
                                    // the genuine certificate with / without a high vote: sorts after / before the bad vote
                                    if with_companion == 1 { t2.clone() } else { t3.clone() }
                                } else {
                                    tvars[j % 2].clone()
                                };
                                let e = x.map.entry(m.clone()).or_insert_with(|| Signers::new(n));
                                e.0.set(j, true);
                                x.signature.add(&c.keys[j].sign_msg(m).sig);
                            }
                        }
                        variants.push((format!("signer {i}'s vote carries {name} (genuinely signed){}{}", if with_high_vote { ", with a high vote" } else { "" }, match with_companion { 0 => "", 1 => ", next to another signer's vote (with a high vote) carrying a genuine high_qc of the same view", _ => ", next to another signer's vote (without a high vote) carrying a genuine high_qc of the same view" }), x, Some(valid && nested_ok)));
                    }
                }
            }
        }
        // two groups sharing a signer
        if groups.len() >= 2 {
            if let Some(i) = (0..n).find(|i| qc.map[&groups[0]].0[*i]) {
                let mut x = qc.clone();
                let s = set_bit(&x.map[&groups[1]], i, true);
                x.map.insert(groups[1].clone(), s);
                variants.push((format!("signer {i} listed in two groups"), x.clone(), Some(false)));
                // ... and with its genuine second signature aggregated (a double-signing validator)
                x.signature.add(&c.keys[i].sign_msg(groups[1].clone()).sig);
                variants.push((format!("signer {i} listed in two groups with both of its signatures"), x, Some(false)));
            }
        }
        for (name, v2) in [("view+1", cx.view(6)), ("epoch+1", View { epoch: EpochNumber(1), ..tv }), ("other genesis", View { genesis: cx.other_genesis, ..tv })] {
            let mut x = qc.clone();
            x.view = v2;
            variants.push((format!("certificate view changed ({name})"), x, Some(false)));
        }
        {
            let o = build_timeout(&mut cx, mask, 0);
            let mut x = qc.clone();
            x.signature = o.signature;
            variants.push(("signature of the same subset over other votes".into(), x, Some(groups.len() <= 1 && groups.first() == Some(&t0) && valid)));
        }
        for (name, x, want) in variants {
            let got = cx.vtimeout(&x);
            match want {
                Some(w) => cx.expect("timeout_qc_corrupt", &format!("base subset {mask:#b} ({}), {name}", if valid { "valid" } else { "under-weight" }), got, w),
                None => {
                    cx.out.evals += 1;
                    if let Err(p) = got {
                        cx.out.viol.entry("timeout_qc_corrupt:panic".into()).or_insert_with(|| (format!("[timeout_qc_corrupt:panic] {name}: {p}"), json!({"harness":"c04","weights": cx.wjson})));
                    }
                }
            }
        }
        let got = catch(|| qc.verify(cx.other_genesis, c.epoch, &c.schedule).is_ok());
        cx.expect("timeout_qc_context", &format!("subset {mask:#b} verified against another genesis"), got, false);
        let got = catch(|| qc.verify(cx.gh(), EpochNumber(1), &c.schedule).is_ok());
        cx.expect("timeout_qc_context", &format!("subset {mask:#b} verified against another epoch"), got, false);
    }

    // ---- E. wrappers: proposal, new-view, finalized block
    for &mask in &base_masks {
        let valid = c.weight_of(mask) >= q;
        let cq = cx.build_commit(&msg, mask);
        let tq = build_timeout(&mut cx, mask, 1);
        for (jn, j) in [("commit", ProposalJustification::Commit(cq.clone())), ("timeout", ProposalJustification::Timeout(tq.clone()))] {
            let p = LeaderProposal { proposal_payload: Some(pa.clone()), justification: j.clone() };
            let got = catch(|| p.verify(cx.gh(), c.epoch, &c.schedule).is_ok());
            cx.expect("leader_proposal", &format!("{jn} justification by subset {mask:#b}"), got, valid);
            let nv = ReplicaNewView { justification: j.clone() };
            let got = catch(|| nv.verify(cx.gh(), c.epoch, &c.schedule).is_ok());
            cx.expect("replica_new_view", &format!("{jn} justification by subset {mask:#b}"), got, valid);
            let got = catch(|| nv.verify(cx.other_genesis, c.epoch, &c.schedule).is_ok());
            cx.expect("replica_new_view", &format!("{jn} justification by subset {mask:#b}, other genesis"), got, false);
        }
        let fb = FinalBlock { payload: pa.clone(), justification: cq.clone() };
        let got = catch(|| fb.verify(cx.gh(), c.epoch, &c.schedule).is_ok());
        cx.expect("final_block", &format!("certificate by subset {mask:#b}, matching payload"), got, valid);
        let fb2 = FinalBlock { payload: pb.clone(), justification: cq.clone() };
        let got = catch(|| fb2.verify(cx.gh(), c.epoch, &c.schedule).is_ok());
        cx.expect("final_block", &format!("certificate by subset {mask:#b}, payload that does not hash to the header"), got, false);
        let fb3 = FinalBlock { payload: Payload(vec![]), justification: cq.clone() };
        let got = catch(|| fb3.verify(cx.gh(), c.epoch, &c.schedule).is_ok());
        cx.expect("final_block", &format!("certificate by subset {mask:#b}, empty payload"), got, false);
    }

    // ---- F. add() refuses and leaves the certificate unchanged
    let outsider = util::validator_keys(0xabcdef, 1).pop().unwrap();
    for &mask in base_masks.iter().take(tier.pick(4, 64)) {
        let qc = cx.build_commit(&msg, mask);
        let member_in = (0..n).find(|i| mask >> i & 1 == 1);
        let member_out = (0..n).find(|i| mask >> i & 1 == 0);
        let mut tries: Vec<(String, validator::Signed<ReplicaCommit>)> = vec![("non-member".into(), outsider.sign_msg(msg.clone()))];
        if let Some(i) = member_in {
            tries.push(("repeated signer".into(), c.keys[i].sign_msg(msg.clone())));
        }
        if let Some(i) = member_out {
            tries.push(("different vote".into(), c.keys[i].sign_msg(cx.commit_msg(5, 2, &pb))));
            tries.push(("vote of another view".into(), c.keys[i].sign_msg(cx.commit_msg(6, 2, &pa))));
            let mut bad = c.keys[i].sign_msg(msg.clone());
            bad.sig = c.keys[(i + 1) % n].sign_msg(cx.commit_msg(9, 9, &pb)).sig;
            tries.push(("bad signature".into(), bad));
            if n >= 2 {
                let mut imp = c.keys[(i + 1) % n].sign_msg(msg.clone());
                imp.key = c.keys[i].public();
                tries.push(("signature by another member's key".into(), imp));
            }
        }
        for (name, s) in tries {
            let mut x = qc.clone();
            let r = catch(|| x.add(&s, cx.gh(), c.epoch, &c.schedule).is_ok());
            cx.expect("commit_add_refuse", &format!("add({name}) to subset {mask:#b}"), r, false);
            cx.out.evals += 1;
            if x != qc {
                cx.out.viol.entry("commit_add_refuse:modified".into()).or_insert_with(|| (format!("[commit_add_refuse:modified] refused add({name}) changed the certificate (subset {mask:#b})"), json!({"harness":"c04","weights": cx.wjson})));
            }
        }
        // valid vote verified in the wrong context
        if let Some(i) = member_out {
            let s = c.keys[i].sign_msg(msg.clone());
            let mut x = qc.clone();
            let r = catch(|| x.add(&s, cx.other_genesis, c.epoch, &c.schedule).is_ok());
            cx.expect("commit_add_refuse", &format!("add(valid vote, other genesis) to subset {mask:#b}"), r, false);
        }
        // TimeoutQC::add
        let tq = build_timeout(&mut cx, mask, 1);
        let mut tries: Vec<(String, validator::Signed<ReplicaTimeout>)> = vec![("non-member".into(), outsider.sign_msg(t0.clone()))];
        if let Some(i) = member_in {
            tries.push(("repeated signer, same vote".into(), c.keys[i].sign_msg(tvars[i % 2].clone())));
            tries.push(("repeated signer, different vote".into(), c.keys[i].sign_msg(tvars[(i + 1) % 2].clone())));
        }
        if let Some(i) = member_out {
            tries.push(("vote of another view".into(), c.keys[i].sign_msg(ReplicaTimeout { view: cx.view(6), high_vote: None, high_qc: None })));
            tries.push(("vote with under-weight high_qc".into(), c.keys[i].sign_msg(ReplicaTimeout { view: tv, high_vote: None, high_qc: Some(cx.build_commit(&hq_msg, 0)) })));
            let mut bad = c.keys[i].sign_msg(t0.clone());
            bad.sig = c.keys[(i + 1) % n].sign_msg(t1.clone()).sig;
            tries.push(("bad signature".into(), bad));
        }
        for (name, s) in tries {
            let mut x = tq.clone();
            let r = catch(|| x.add(&s, cx.gh(), c.epoch, &c.schedule).is_ok());
            cx.expect("timeout_add_refuse", &format!("add({name}) to subset {mask:#b}"), r, false);
            cx.out.evals += 1;
            if x != tq {
                cx.out.viol.entry("timeout_add_refuse:modified".into()).or_insert_with(|| (format!("[timeout_add_refuse:modified] refused add({name}) changed the certificate (subset {mask:#b})"), json!({"harness":"c04","weights": cx.wjson})));
            }
        }
    }

    // ---- G. Signed::verify
    for i in 0..n {
        let s = c.keys[i].sign_msg(msg.clone());
        let got = catch(|| s.verify().is_ok());
        cx.expect("signed", &format!("genuine signature of member {i}"), got, true);
        let mut x = s.clone();
        x.msg = cx.commit_msg(5, 2, &pb);
        let got = catch(|| x.verify().is_ok());
        cx.expect("signed", &format!("message replaced under member {i}'s signature"), got, false);
        if n >= 2 {
            let mut x = s.clone();
            x.key = c.keys[(i + 1) % n].public();
            let got = catch(|| x.verify().is_ok());
            cx.expect("signed", &format!("member {i}'s signature attributed to another key"), got, false);
        }
    }
    cx.out
}

fn committees(tier: Tier) -> Vec<Vec<u64>> {
    let mut v = vec![];
    for len in 1..=tier.pick(4, 5) {
        v.extend(util::vectors(len, &[1, 2, 3]));
    }
    v.push(vec![1; 6]);
    if tier == Tier::Thorough {
        v.push(vec![1; 10]);
        v.push(vec![1; 11]);
    }
    v
}

pub fn run(args: &Args) -> Report {
    let mut rep = Report::new("C04", "exploration");
    if let Some(r) = &args.replay {
        let w: Vec<u64> = r["replay"]["weights"].as_array().map(|a| a.iter().map(|x| x.as_u64().unwrap()).collect()).unwrap_or(vec![1, 1, 1, 1]);
        let c = util::committee(args.seed, &w);
        let o = check_committee(&c, args.tier);
        for (k, (w, r)) in o.viol {
            rep.violations.push(Violation { key: k, what: w, replay: r });
        }
        return rep;
    }
    let cs = committees(args.tier);
    // committees in which only some validators are leader-eligible: eligibility must not influence any verdict
    let mixed: Vec<(Vec<u64>, u32)> = vec![(vec![1, 1, 1, 1], 0b0001), (vec![2, 2, 1, 1], 0b0100), (vec![3, 1, 1], 0b110), (vec![1; 6], 0b000011), (vec![1, 2], 0b10)];
    let outs = par_map(cs.len() + mixed.len(), |i| {
        let c = if i < cs.len() { util::committee(args.seed, &cs[i]) } else {
            let (w, l) = &mixed[i - cs.len()];
            let mut c = util::committee_elig(args.seed, w, 0, 0, Default::default(), *l);
            // ... and some of them live in a later epoch (every message then carries epoch 3)
            if (i - cs.len()) % 2 == 1 {
                c.epoch = validator::EpochNumber(3);
            }
            c
        };
        check_committee(&c, args.tier)
    });
    let (mut evals, mut acc, mut rej, mut distinct) = (0, 0, 0, 0);
    let mut by: BTreeMap<String, (u64, String, serde_json::Value)> = BTreeMap::new();
    for o in outs {
        evals += o.evals;
        acc += o.accepted;
        rej += o.rejected;
        distinct += o.distinct;
        for (k, (w, r)) in o.viol {
            by.entry(k).or_insert((0, w, r)).0 += 1;
        }
    }
    for (k, (cnt, w, r)) in by {
        rep.violations.push(Violation { key: k, what: format!("{w} ({cnt} committees affected)"), replay: r });
    }
    if acc == 0 || rej == 0 {
        rep.machinery_errors.push(format!("vacuous: accepted={acc} rejected={rej}"));
    }
    rep.coverage = json!({
        "evaluations": evals,
        "distinct_nontrivial": distinct,
        "rule": "per committee (all weight vectors over {1,2,3} up to the tier's size, plus unit committees): every signer subset assembled with the real incremental add() for CommitQC and TimeoutQC (2-3 vote-assignment patterns), every single corruption from the listed alphabet applied to every accepted and every boundary-rejected certificate, the LeaderProposal / ReplicaNewView / FinalBlock wrappers, refused add() calls (certificate must stay unchanged) and Signed::verify; each evaluation is a distinct (committee, certificate variant, verification context) triple whose expected verdict is computed by the harness's own predicate",
        "exhaustive": true,
        "committees": cs.len(),
        "committees_with_mixed_leader_eligibility": mixed.len(),
        "verdicts_accept": acc,
        "verdicts_reject": rej,
        "samples": [
            {"committee": cs[cs.len()/2], "case": "commit certificate, every signer subset; accepted iff weight >= n - floor((n-1)/5)"},
            {"committee": cs[cs.len()-1], "case": "timeout certificate, signer listed in two groups with both signatures -> must be refused"},
        ],
    });
    rep.assumptions = vec!["BLS12-381 aggregate signatures (blst) are sound: a signature over a different (key, message) multiset does not verify".into(), "committees above the listed sizes and multi-point corruptions are outside the scope".into()];
    rep
}
