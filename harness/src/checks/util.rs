//! Shared helpers for checks: deterministic keys, committees, small combinatorics.
use rand::{rngs::StdRng, Rng, SeedableRng};
use zksync_consensus_roles::validator;

/// Deterministic validator secret keys (key set selected by VERIF_SEED).
pub fn validator_keys(seed: u64, n: usize) -> Vec<validator::SecretKey> {
    let mut rng = StdRng::seed_from_u64(0x5eed_0000 ^ seed);
    (0..n).map(|_| rng.gen()).collect()
}

pub fn rng(seed: u64, salt: u64) -> StdRng {
    StdRng::seed_from_u64(seed.wrapping_mul(0x9e3779b97f4a7c15) ^ salt)
}

/// All vectors of length `len` over `alphabet`.
pub fn vectors(len: usize, alphabet: &[u64]) -> Vec<Vec<u64>> {
    let mut out = vec![vec![]];
    for _ in 0..len {
        let mut next = vec![];
        for v in &out {
            for a in alphabet {
                let mut w = v.clone();
                w.push(*a);
                next.push(w);
            }
        }
        out = next;
    }
    out
}

/// All permutations of 0..n (Heap's algorithm, deterministic order).
pub fn permutations(n: usize) -> Vec<Vec<usize>> {
    fn rec(k: usize, a: &mut Vec<usize>, out: &mut Vec<Vec<usize>>) {
        if k <= 1 {
            out.push(a.clone());
            return;
        }
        for i in 0..k {
            rec(k - 1, a, out);
            if k % 2 == 0 {
                a.swap(i, k - 1);
            } else {
                a.swap(0, k - 1);
            }
        }
    }
    let mut a: Vec<usize> = (0..n).collect();
    let mut out = vec![];
    rec(n, &mut a, &mut out);
    out.sort();
    out.dedup();
    out
}

/// Boundary view / integer set: 0..small, [2^k-2, 2^k+2] for all k, top of the range.
pub fn boundary_u64(small: u64) -> Vec<u64> {
    let mut v: Vec<u64> = (0..small).collect();
    for k in 1..64u32 {
        let p = 1u64 << k;
        for d in 0..=4u64 {
            v.push(p.wrapping_sub(2).wrapping_add(d));
        }
    }
    for d in 0..=2u64 {
        v.push(u64::MAX - d);
    }
    v.sort();
    v.dedup();
    v
}

// ---------------------------------------------------------------------------------------------
// Committees

use zksync_consensus_roles::validator::{
    BlockNumber, ChainId, EpochNumber, ForkNumber, Genesis, GenesisRaw, LeaderSelection, LeaderSelectionMode, ProtocolVersion, Schedule, SecretKey, ValidatorInfo,
};

#[derive(Clone)]
pub struct Committee {
    /// secret keys in schedule (= public key) order
    pub keys: Vec<SecretKey>,
    /// weights in schedule order
    pub weights: Vec<u64>,
    pub schedule: Schedule,
    pub genesis: Genesis,
    pub epoch: EpochNumber,
}

impl Committee {
    pub fn n(&self) -> usize {
        self.keys.len()
    }
    pub fn total(&self) -> u64 {
        self.weights.iter().sum()
    }
    /// own arithmetic (not the library's)
    pub fn max_faulty(&self) -> u64 {
        (self.total() - 1) / 5
    }
    pub fn quorum(&self) -> u64 {
        self.total() - self.max_faulty()
    }
    pub fn subquorum(&self) -> u64 {
        self.total() - 3 * self.max_faulty()
    }
    pub fn weight_of(&self, mask: u32) -> u64 {
        (0..self.n()).filter(|i| mask >> i & 1 == 1).map(|i| self.weights[i]).sum()
    }
}

pub fn committee_with(seed: u64, weights: &[u64], fork: u64, first_block: u64, sel: LeaderSelection) -> Committee {
    committee_elig(seed, weights, fork, first_block, sel, u32::MAX)
}

/// Like `committee_with`; validator i (schedule order) is leader-eligible iff bit i of `leaders` is set.
pub fn committee_elig(seed: u64, weights: &[u64], fork: u64, first_block: u64, sel: LeaderSelection, leaders: u32) -> Committee {
    let mut keys = validator_keys(seed, weights.len());
    keys.sort_by_key(|k| k.public());
    let schedule = Schedule::new(
        keys.iter().zip(weights).enumerate().map(|(i, (k, w))| ValidatorInfo { key: k.public(), weight: *w, leader: leaders >> i & 1 == 1 }),
        sel,
    )
    .expect("valid schedule");
    let genesis = GenesisRaw {
        chain_id: ChainId(1337),
        fork_number: ForkNumber(fork),
        protocol_version: ProtocolVersion::CURRENT,
        first_block: BlockNumber(first_block),
        validators_schedule: Some(schedule.clone()),
    }
    .with_hash();
    Committee { keys, weights: weights.to_vec(), schedule, genesis, epoch: EpochNumber(0) }
}

pub fn committee(seed: u64, weights: &[u64]) -> Committee {
    committee_fb(seed, weights, 0)
}

/// Round-robin committee whose genesis starts at block `first_block`.
pub fn committee_fb(seed: u64, weights: &[u64], first_block: u64) -> Committee {
    let fb = std::env::var("VERIF_FIRST_BLOCK").ok().and_then(|s| s.parse().ok()).unwrap_or(first_block);
    committee_with(seed, weights, 0, fb, LeaderSelection { frequency: 1, mode: LeaderSelectionMode::RoundRobin })
}
