//! Real gossip / validator networks over loop-back TCP (shared by C19, C08 and C18).
//!
//! The node under test N is a real `gossip::Network` (hook `VGossip`) with a real `EngineManager`
//! over an in-memory store, its connection handling (`run_inbound_stream` -> `run_stream`: the RPC
//! service, the per-connection fetch loop of gossip/runner.rs) and its `run_block_fetcher`
//! (gossip/mod.rs).  Its peers are real networks too, but their *storage* is the adversary: a peer's
//! `EngineInterface` answers `get_block` for one target number with every element of a listed set
//! (error, a block with another number, a block whose certificate does not verify, no answer at all,
//! the connection dropped mid-call), announces a pruned range, or is honest.  One run per element,
//! on a real runtime in real time: exhaustive over the listed peer behaviours, NOT over schedules.
//! Outcomes the properties *require* are awaited for a long time and end the wait when they happen
//! (a loaded machine cannot raise an alarm); outcomes they forbid are read off the stores and the
//! peers' request logs at the end.
use std::{
    collections::{BTreeMap, HashSet},
    sync::{Arc, Mutex},
    time::Duration,
};

use rand::Rng;
use tokio::net::TcpListener;
use zksync_concurrency::{ctx, limiter, scope, sync, time};
use zksync_consensus_engine::{BlockStoreState, EngineInterface, EngineManager, Last, Transaction};
use zksync_consensus_network::{verif as nv, Config, GossipConfig, RpcConfig};
use zksync_consensus_roles::{
    validator::{self, BlockNumber, Payload},
};

use super::{c08, util};

#[derive(Clone, Copy, Debug, PartialEq)]
pub enum Lie {
    Honest,
    /// storage error while reading the target block
    Error,
    /// answers the request for block t with block t+1
    WrongNumber,
    /// answers with a block t whose certificate does not verify
    BadCertificate,
    /// answers with the genuine certificate of block t attached to a foreign payload
    SwappedPayload,
    /// never answers (the requester's get_block timeout has to fire)
    Stall,
    /// never answers, and the peer's process goes away as soon as it got the request
    StallThenDisconnect,
    /// fails the first request for the target (storage error), is honest afterwards and keeps re-dialling
    FlakyOnce,
    /// holds the answer for the target back until the harness releases it, then answers honestly
    HoldUntilReleased,
}

struct StoreInner {
    genesis: validator::Genesis,
    persisted: sync::watch::Sender<BlockStoreState>,
    first: u64,
    blocks: Mutex<BTreeMap<u64, validator::Block>>,
    lie: Lie,
    target: u64,
    bad_block: Option<validator::Block>,
    /// every get_block call that reached this store
    reads: Mutex<Vec<u64>>,
    read_times: Mutex<Vec<std::time::Instant>>,
    lied: Mutex<u64>,
    released: sync::watch::Sender<bool>,
    /// the replica state written by the node's consensus component (kept across restarts of the node)
    replica_state: Mutex<validator::ReplicaState>,
}

#[derive(Clone)]
pub struct NetStore(Arc<StoreInner>);

impl std::fmt::Debug for NetStore {
    fn fmt(&self, f: &mut std::fmt::Formatter<'_>) -> std::fmt::Result {
        f.write_str("NetStore")
    }
}

impl NetStore {
    fn new(genesis: &validator::Genesis, blocks: &[validator::Block], lie: Lie, target: u64, bad_block: Option<validator::Block>) -> Self {
        let first = blocks.first().map(|b| b.number().0).unwrap_or(genesis.first_block.0);
        let last = blocks.last().map(Last::from);
        NetStore(Arc::new(StoreInner {
            genesis: genesis.clone(),
            persisted: sync::watch::channel(BlockStoreState { first: BlockNumber(first), last }).0,
            first,
            blocks: Mutex::new(blocks.iter().map(|b| (b.number().0, b.clone())).collect()),
            lie,
            target,
            bad_block,
            reads: Mutex::new(vec![]),
            read_times: Mutex::new(vec![]),
            lied: Mutex::new(0),
            released: sync::watch::channel(false).0,
            replica_state: Mutex::new(Default::default()),
        }))
    }
    fn reads(&self) -> Vec<u64> {
        self.0.reads.lock().unwrap().clone()
    }
    fn stored(&self) -> BTreeMap<u64, validator::Block> {
        self.0.blocks.lock().unwrap().clone()
    }
    /// The node prunes every block below `first` (and tells its EngineManager through the persisted watch).
    fn prune(&self, first: u64) {
        let mut b = self.0.blocks.lock().unwrap();
        b.retain(|n, _| *n >= first);
        let last = b.values().next_back().map(Last::from);
        drop(b);
        self.0.persisted.send_replace(BlockStoreState { first: BlockNumber(first), last });
    }
    fn release(&self) {
        self.0.released.send_replace(true);
    }
    /// The node's store gains its next block (as if its consensus had finalized it).
    fn append(&self, block: validator::Block) {
        let mut b = self.0.blocks.lock().unwrap();
        let last = Last::from(&block);
        b.insert(block.number().0, block);
        let first = *b.keys().next().unwrap();
        drop(b);
        self.0.persisted.send_replace(BlockStoreState { first: BlockNumber(first), last: Some(last) });
    }
}

#[async_trait::async_trait]
impl EngineInterface for NetStore {
    async fn genesis(&self, _ctx: &ctx::Ctx) -> ctx::Result<validator::Genesis> {
        Ok(self.0.genesis.clone())
    }
    async fn get_validator_schedule(&self, _ctx: &ctx::Ctx, _n: BlockNumber) -> ctx::Result<(validator::Schedule, BlockNumber)> {
        Err(anyhow::format_err!("static").into())
    }
    async fn get_pending_validator_schedule(&self, _ctx: &ctx::Ctx, _n: BlockNumber) -> ctx::Result<Option<(validator::Schedule, BlockNumber)>> {
        Ok(None)
    }
    fn persisted(&self) -> sync::watch::Receiver<BlockStoreState> {
        self.0.persisted.subscribe()
    }
    async fn get_block(&self, ctx: &ctx::Ctx, n: BlockNumber) -> ctx::Result<validator::Block> {
        self.0.reads.lock().unwrap().push(n.0);
        self.0.read_times.lock().unwrap().push(std::time::Instant::now());
        let honest = || -> ctx::Result<validator::Block> { Ok(self.0.blocks.lock().unwrap().get(&n.0).cloned().ok_or_else(|| anyhow::format_err!("not found"))?) };
        if n.0 != self.0.target {
            return honest();
        }
        let nth = {
            let mut l = self.0.lied.lock().unwrap();
            *l += 1;
            *l
        };
        match self.0.lie {
            Lie::Honest => honest(),
            Lie::Error => Err(anyhow::format_err!("injected storage error").into()),
            Lie::FlakyOnce => {
                if nth == 1 {
                    Err(anyhow::format_err!("injected storage error (first read only)").into())
                } else {
                    honest()
                }
            }
            Lie::WrongNumber => Ok(self.0.blocks.lock().unwrap().get(&(n.0 + 1)).cloned().ok_or_else(|| anyhow::format_err!("not found"))?),
            Lie::BadCertificate => Ok(self.0.bad_block.clone().unwrap()),
            Lie::SwappedPayload => {
                let b = honest()?;
                match b {
                    validator::Block::FinalV2(mut f) => {
                        f.payload = Payload(vec![0x5A, 0x5A, n.0 as u8]);
                        Ok(validator::Block::FinalV2(f))
                    }
                    b => Ok(b),
                }
            }
            Lie::HoldUntilReleased => {
                let b = honest();
                sync::wait_for(ctx, &mut self.0.released.subscribe(), |r| *r).await?;
                b
            }
            Lie::Stall | Lie::StallThenDisconnect => {
                ctx.canceled().await;
                Err(ctx::Canceled.into())
            }
        }
    }
    async fn queue_next_block(&self, _ctx: &ctx::Ctx, block: validator::Block) -> ctx::Result<()> {
        let mut b = self.0.blocks.lock().unwrap();
        let next = b.keys().next_back().map(|n| n + 1).unwrap_or(self.0.first);
        if block.number().0 == next {
            let last = Last::from(&block);
            b.insert(next, block);
            let first = *b.keys().next().unwrap();
            drop(b);
            self.0.persisted.send_replace(BlockStoreState { first: BlockNumber(first), last: Some(last) });
        }
        Ok(())
    }
    async fn verify_pregenesis_block(&self, _ctx: &ctx::Ctx, _b: &validator::PreGenesisBlock) -> ctx::Result<()> {
        Ok(())
    }
    async fn verify_payload(&self, _ctx: &ctx::Ctx, _n: BlockNumber, _p: &Payload) -> ctx::Result<()> {
        Ok(())
    }
    async fn propose_payload(&self, _ctx: &ctx::Ctx, n: BlockNumber) -> ctx::Result<Payload> {
        Ok(Payload(n.0.to_le_bytes().to_vec()))
    }
    async fn get_state(&self, _ctx: &ctx::Ctx) -> ctx::Result<validator::ReplicaState> {
        Ok(self.0.replica_state.lock().unwrap().clone())
    }
    async fn set_state(&self, _ctx: &ctx::Ctx, s: &validator::ReplicaState) -> ctx::Result<()> {
        *self.0.replica_state.lock().unwrap() = s.clone();
        Ok(())
    }
    async fn push_tx(&self, _ctx: &ctx::Ctx, _tx: Transaction) -> ctx::Result<bool> {
        Ok(false)
    }
}

fn make_cfg(rng: &mut impl Rng, validator_key: Option<validator::SecretKey>) -> Config {
    let addr = zksync_concurrency::net::tcp::testonly::reserve_listener();
    Config {
        build_version: None,
        server_addr: addr,
        public_addr: (*addr).into(),
        ping_timeout: None,
        validator_key,
        gossip: GossipConfig { key: rng.gen(), dynamic_inbound_limit: 8, static_inbound: HashSet::new(), static_outbound: Default::default() },
        max_block_size: usize::MAX,
        max_tx_size: usize::MAX,
        tcp_accept_rate: limiter::Rate::INF,
        rpc: RpcConfig { get_block_timeout: Some(time::Duration::milliseconds(1500)), ..RpcConfig::default() },
        max_block_queue_size: 10,
    }
}

fn t(s: i64) -> time::Utc {
    time::UNIX_EPOCH + time::Duration::seconds(s)
}

async fn wait_for_ms(ms: u64, mut f: impl FnMut() -> bool) -> bool {
    for _ in 0..ms / 5 {
        if f() {
            return true;
        }
        tokio::time::sleep(Duration::from_millis(5)).await;
    }
    f()
}

async fn wait_for(secs: u64, mut f: impl FnMut() -> bool) -> bool {
    for _ in 0..secs * 200 {
        if f() {
            return true;
        }
        tokio::time::sleep(Duration::from_millis(5)).await;
    }
    f()
}

/// One peer of a scenario: the range of the canonical chain it stores and how it answers for the target.
#[derive(Clone, Debug)]
pub struct PeerSpec {
    pub lo: u64,
    pub hi: u64,
    pub lie: Lie,
}

#[derive(Clone, Debug)]
pub struct FetchScenario {
    pub name: &'static str,
    pub target: u64,
    /// connected first; the scenario waits until each of them has been asked for `wait_read`
    pub first: Vec<PeerSpec>,
    /// block number the first wave is expected to be asked for before the second wave connects
    pub wait_read: Option<u64>,
    /// connected afterwards
    pub second: Vec<PeerSpec>,
}

pub fn fetch_scenarios() -> Vec<FetchScenario> {
    let bad = |name: &'static str, lie: Lie| FetchScenario { name, target: 2, first: vec![PeerSpec { lo: 0, hi: 4, lie }], wait_read: Some(2), second: vec![PeerSpec { lo: 0, hi: 4, lie: Lie::Honest }] };
    vec![
        FetchScenario { name: "honest_peer", target: 2, first: vec![PeerSpec { lo: 0, hi: 4, lie: Lie::Honest }], wait_read: None, second: vec![] },
        bad("storage_error_then_other_peer", Lie::Error),
        bad("wrong_block_number_then_other_peer", Lie::WrongNumber),
        bad("bad_certificate_then_other_peer", Lie::BadCertificate),
        bad("certificate_with_foreign_payload_then_other_peer", Lie::SwappedPayload),
        bad("no_answer_timeout_then_other_peer", Lie::Stall),
        bad("peer_vanishes_mid_call_then_other_peer", Lie::StallThenDisconnect),
        // the silent peer stores nothing above the block it is silent about: no other call on its connection can
        // fail and tear the connection down, only the get_block timeout of that very call releases the request
        FetchScenario { name: "no_answer_on_the_peers_last_block_then_other_peer", target: 2, first: vec![PeerSpec { lo: 0, hi: 2, lie: Lie::Stall }], wait_read: Some(2), second: vec![PeerSpec { lo: 0, hi: 4, lie: Lie::Honest }] },
        FetchScenario { name: "flaky_peer_reconnects", target: 2, first: vec![PeerSpec { lo: 0, hi: 4, lie: Lie::FlakyOnce }], wait_read: None, second: vec![] },
        // two partial peers: one has only 0..1, the other has pruned everything below 3; nobody has 2
        // until the late peer arrives. Requests must reach a peer only for numbers it announced.
        // handled by run_prune (the peer's announced range shrinks while it is connected)
        FetchScenario { name: PRUNE_SCENARIO, target: 0, first: vec![], wait_read: None, second: vec![] },
        FetchScenario { name: "partial_and_pruned_peers", target: 99, first: vec![PeerSpec { lo: 0, hi: 1, lie: Lie::Honest }, PeerSpec { lo: 3, hi: 4, lie: Lie::Honest }], wait_read: Some(1), second: vec![PeerSpec { lo: 2, hi: 4, lie: Lie::Honest }] },
    ]
}

pub struct NetOutcome {
    pub cases: u64,
    /// (class, description, scenario); classes: request_lost, sent_to_peer_without_block (C19), foreign_block_stored (C08)
    pub viol: Vec<(String, String, String)>,
    pub machinery: Vec<String>,
    pub lies_told: u64,
    pub blocks_fetched: u64,
    pub prune_attempts_clean: u64,
}

/// Runs the fetch scenarios whose name passes `filter`.
pub fn run_fetch(seed: u64, filter: &dyn Fn(&FetchScenario) -> bool) -> NetOutcome {
    let mut out = NetOutcome { cases: 0, viol: vec![], machinery: vec![], lies_told: 0, blocks_fetched: 0, prune_attempts_clean: 0 };
    let chn = c08::chain(seed, 5);
    let canon: Vec<validator::Block> = chn.blocks.iter().cloned().map(validator::Block::FinalV2).collect();
    let rt = tokio::runtime::Builder::new_multi_thread().worker_threads(4).enable_all().build().unwrap();
    for sc in fetch_scenarios().into_iter().filter(|s| filter(s)) {
        if sc.name == PRUNE_SCENARIO {
            run_prune(seed, &chn, &canon, &rt, &mut out);
            if !out.viol.is_empty() {
                break;
            }
            continue;
        }
        out.cases += 1;
        let res: Result<(Vec<(String, String)>, u64, u64), String> = rt.block_on(one_fetch(seed, &chn, &canon, &sc));
        match res {
            Ok((v, lies, fetched)) => {
                let stop = !v.is_empty();
                out.viol.extend(v.into_iter().map(|(k, w)| (k, w, sc.name.to_string())));
                out.lies_told += lies;
                out.blocks_fetched += fetched;
                if stop {
                    // a violating scenario may have cost minutes of waiting: the first one is enough
                    break;
                }
            }
            Err(e) => out.machinery.push(format!("gossip scenario {}: {e}", sc.name)),
        }
    }
    drop(rt);
    out
}

async fn one_fetch(seed: u64, chn: &c08::Chain, canon: &[validator::Block], sc: &FetchScenario) -> Result<(Vec<(String, String)>, u64, u64), String> {
    let rng = &mut util::rng(seed, 0x6055 ^ crate::core::fx_hash(&sc.name));
    let root = ctx::test_root(&ctx::RealClock);
    let ctx = &root;
    let genesis = &chn.w.c.genesis;
    let epoch = chn.w.c.epoch;
    let mut viol: Vec<(String, String)> = vec![];
    let bad_block = {
        // block `target` with the certificate of the prepared invalid block (one signer only)
        let mut b = chn.invalid2.clone();
        if sc.target != 2 {
            b = chn.invalid2.clone();
        }
        validator::Block::FinalV2(b)
    };
    // node under test
    let n_store = NetStore::new(genesis, &[], Lie::Honest, u64::MAX, None);
    let (n_mgr, n_runner) = EngineManager::new(ctx, Box::new(n_store.clone()), time::Duration::seconds(1)).await.map_err(|e| format!("{e:?}"))?;
    let cfg_n = make_cfg(rng, None);
    let n_key = cfg_n.gossip.key.public();
    let net = nv::VGossip::new(cfg_n, n_mgr.clone(), Some(epoch));
    let listener = TcpListener::bind("127.0.0.1:0").await.map_err(|e| e.to_string())?;
    let addr = listener.local_addr().unwrap();
    // peers
    struct Peer {
        spec: PeerSpec,
        store: NetStore,
        net: nv::VGossip,
        runner: Option<zksync_consensus_engine::EngineManagerRunner>,
    }
    let mut peers: Vec<Peer> = vec![];
    for spec in sc.first.iter().chain(sc.second.iter()) {
        let blocks: Vec<validator::Block> = canon.iter().filter(|b| b.number().0 >= spec.lo && b.number().0 <= spec.hi).cloned().collect();
        let store = NetStore::new(genesis, &blocks, spec.lie, sc.target, Some(bad_block.clone()));
        let (mgr, runner) = EngineManager::new(ctx, Box::new(store.clone()), time::Duration::seconds(1)).await.map_err(|e| format!("{e:?}"))?;
        let mut cfg = make_cfg(rng, None);
        cfg.gossip.static_outbound.insert(n_key.clone(), zksync_concurrency::net::Host(addr.to_string()));
        peers.push(Peer { spec: spec.clone(), store, net: nv::VGossip::new(cfg, mgr, Some(epoch)), runner: Some(runner) });
    }
    let n_first = sc.first.len();
    let peer_logs: Vec<(PeerSpec, NetStore)> = peers.iter().map(|p| (p.spec.clone(), p.store.clone())).collect();
    let peers = &mut peers;
    let viol_ref = &mut viol;
    let (n_store_ref, net_ref, n_key_ref) = (&n_store, &net, &n_key);
    let r: Result<(), ctx::Error> = scope::run!(ctx, |ctx, s| async move {
        s.spawn_bg(async move {
            let _ = n_runner.run(ctx).await;
            Ok(())
        });
        for p in peers.iter_mut() {
            let r = p.runner.take().unwrap();
            s.spawn_bg(async move {
                let _ = r.run(ctx).await;
                Ok(())
            });
        }
        {
            let net = net_ref.clone();
            let mut listener = listener;
            s.spawn_bg(async move {
                while let Ok(tcp) = nv::accept_tcp(ctx, &mut listener).await {
                    let net = net.clone();
                    s.spawn_bg(async move {
                        let _ = net.handle_inbound(ctx, tcp).await;
                        Ok(())
                    });
                }
                Ok(())
            });
        }
        {
            let net = net_ref.clone();
            s.spawn_bg(async move {
                net.run_block_fetcher(ctx).await;
                Ok(())
            });
        }
        // a peer process: dials N; a flaky peer keeps re-dialling; a peer whose kill switch is set goes away
        // (its connection task is cancelled, the TCP connection closes)
        let kills: Vec<sync::watch::Sender<bool>> = peers.iter().map(|_| sync::watch::channel(false).0).collect();
        let connect = |i: usize| {
            let pnet = peers[i].net.clone();
            let key = n_key_ref.clone();
            // a peer keeps re-dialling the node, as the real `Runner::run` does for its static outbound peers (a peer that
            // dialled only once stayed away for good after the node had dropped it for an unrelated failed call: false
            // alarm `request_lost` in a loaded thorough run)
            let redial = true;
            let mut rx = kills[i].subscribe();
            s.spawn_bg(async move {
                let _: Result<(), ctx::Canceled> = scope::run!(ctx, |ctx, s| async {
                    s.spawn_bg(async {
                        loop {
                            let _ = pnet.dial(ctx, &key, addr).await;
                            if !redial || !ctx.is_active() {
                                break;
                            }
                            tokio::time::sleep(Duration::from_millis(50)).await;
                        }
                        Ok(())
                    });
                    sync::wait_for(ctx, &mut rx, |k| *k).await?;
                    Ok(())
                })
                .await;
                Ok(())
            });
        };
        for i in 0..n_first {
            connect(i);
        }
        if let Some(t) = sc.wait_read {
            // required: the first wave is asked for block t (it announced it and nobody else is there)
            let asked = wait_for(60, || peers[..n_first].iter().any(|p| p.store.reads().contains(&t))).await;
            if !asked {
                viol_ref.push(("request_lost".into(), format!("[gossip:{}] no connected peer was ever asked for block {t} although a peer announcing it was connected for 60 s; fetch queue {:?}, stored {:?}", sc.name, net_ref.fetch_requested(), n_store_ref.stored().keys().collect::<Vec<_>>())));
            }
        }
        for (i, p) in peers.iter().enumerate() {
            if i < n_first && p.spec.lie == Lie::StallThenDisconnect {
                // the peer's process goes away while the call is in flight
                kills[i].send_replace(true);
            }
        }
        for i in n_first..peers.len() {
            connect(i);
        }
        // required: every block of the chain that some connected honest-for-that-number peer stores ends up in N's store
        let want: Vec<u64> = (0..canon.len() as u64).collect();
        let done = wait_for(90, || {
            let st = n_store_ref.stored();
            want.iter().all(|n| st.contains_key(n))
        })
        .await;
        if std::env::var("VERIF_DEBUG").is_ok() {
            eprintln!("[{}] done={done} stored {:?} reads {:?} inbound {:?}", sc.name, n_store_ref.stored().keys().collect::<Vec<_>>(), peers.iter().map(|p| p.store.reads()).collect::<Vec<_>>(), net_ref.inbound_keys().len());
        }
        if !done {
            viol_ref.push((
                "request_lost".into(),
                format!(
                    "[gossip:{}] after the peer that was handed block {} {} and an honest peer storing the whole chain connected, the node still misses blocks 90 s later: stored {:?}, waiting in the fetch queue {:?}, requests seen by the peers {:?}",
                    sc.name,
                    sc.target,
                    match sc.first[0].lie {
                        Lie::Error | Lie::FlakyOnce => "failed with a storage error",
                        Lie::WrongNumber => "answered with another block",
                        Lie::BadCertificate => "answered with an uncertified block",
                        Lie::SwappedPayload => "answered with a foreign payload under the block's certificate",
                        Lie::Stall => "never answered",
                        Lie::StallThenDisconnect => "vanished mid-call",
                        Lie::Honest | Lie::HoldUntilReleased => "(all peers honest)",
                    },
                    n_store_ref.stored().keys().collect::<Vec<_>>(),
                    net_ref.fetch_requested(),
                    peers.iter().map(|p| p.store.reads()).collect::<Vec<_>>()
                ),
            ));
        }
        Ok(())
    })
    .await;
    if let Err(e) = r {
        return Err(format!("{e:?}"));
    }
    // forbidden: a stored block that is not the canonical one
    for (n, b) in n_store.stored() {
        if canon.get(n as usize) != Some(&b) {
            viol.push(("foreign_block_stored".into(), format!("[gossip:{}] the node stored, for number {n}, a block that is not the certified block of the chain (a peer answered get_block({}) with it)", sc.name, sc.target)));
        }
    }
    // forbidden: a request sent to a peer that never announced the block
    let mut lies = 0;
    let mut fetched = 0;
    for (spec, store) in peer_logs.iter() {
        for r in store.reads() {
            fetched += 1;
            if r < spec.lo || r > spec.hi {
                viol.push(("sent_to_peer_without_block".into(), format!("[gossip:{}] block {r} was requested from a peer that announced the range {}..={} only", sc.name, spec.lo, spec.hi)));
            }
        }
        lies += *store.0.lied.lock().unwrap() * (spec.lie != Lie::Honest) as u64;
    }
    Ok((viol, lies, fetched))
}

// ---------------------------------------------------------------------------------------------
// C18: the address a validator node dials comes from the address book (consensus/mod.rs
// `maintain_connection`), which is fed through `validator_addrs.update`.

pub struct DialOutcome {
    pub cases: u64,
    pub viol: Vec<(String, String)>,
    pub machinery: Vec<String>,
    pub dials_observed: u64,
}

pub fn run_dial(seed: u64) -> DialOutcome {
    let mut out = DialOutcome { cases: 0, viol: vec![], machinery: vec![], dials_observed: 0 };
    let rt = tokio::runtime::Builder::new_multi_thread().worker_threads(4).enable_all().build().unwrap();
    match rt.block_on(one_dial(seed, &mut out)) {
        Ok(()) => {}
        Err(e) => out.machinery.push(format!("dial scenario: {e}")),
    }
    drop(rt);
    out
}

async fn one_dial(seed: u64, out: &mut DialOutcome) -> Result<(), String> {
    let rng = &mut util::rng(seed, 0xd1a1);
    let c = util::committee(seed, &[1, 1, 1]);
    let w = crate::bftsim::World { c, proposals: vec![], invalid_payload: Payload(vec![]) };
    let root = ctx::test_root(&ctx::RealClock);
    let ctx = &root;
    let store = NetStore::new(&w.c.genesis, &[], Lie::Honest, u64::MAX, None);
    let (mgr, runner) = EngineManager::new(ctx, Box::new(store), time::Duration::seconds(1)).await.map_err(|e| format!("{e:?}"))?;
    let cfg = make_cfg(rng, Some(w.c.keys[0].clone()));
    let gnet = nv::VGossip::new(cfg, mgr, Some(w.c.epoch));
    let vnet = nv::VConsensus::new(&gnet).map_err(|e| e.to_string())?.ok_or("not a validator")?;
    let peer = w.c.keys[1].clone();
    let outsider: validator::SecretKey = rng.gen();
    let mut listeners = vec![];
    for _ in 0..4 {
        listeners.push(TcpListener::bind("127.0.0.1:0").await.map_err(|e| e.to_string())?);
    }
    let addrs: Vec<std::net::SocketAddr> = listeners.iter().map(|l| l.local_addr().unwrap()).collect();
    // connection counters per listener; accepted connections are closed at once
    let hits: Arc<Mutex<Vec<u64>>> = Arc::new(Mutex::new(vec![0; 4]));
    let hits_end = hits.clone();
    let sign = |k: &validator::SecretKey, addr: std::net::SocketAddr, version: u64, ts: i64| Arc::new(k.sign_msg(validator::NetAddress { addr, version, timestamp: t(ts) }));
    let sched = w.c.schedule.clone();
    let (gnet, vnet, hits2, hits3) = (&gnet, &vnet, hits.clone(), hits.clone());
    let hits = hits3;
    let viol = &mut out.viol;
    let cases = &mut out.cases;
    let r: Result<(), ctx::Error> = scope::run!(ctx, |ctx, s| async move {
        s.spawn_bg(async move {
            let _ = runner.run(ctx).await;
            Ok(())
        });
        for (i, l) in listeners.into_iter().enumerate() {
            let hits = hits2.clone();
            s.spawn_bg(async move {
                loop {
                    tokio::select! {
                        r = l.accept() => { if let Ok((tcp, _)) = r { hits.lock().unwrap()[i] += 1; drop(tcp); } }
                        _ = ctx.canceled() => break,
                    }
                }
                Ok(())
            });
        }
        let pk = peer.public();
        {
            let vnet = vnet.clone();
            let pk = pk.clone();
            s.spawn_bg(async move {
                vnet.maintain_connection(ctx, &pk).await;
                Ok(())
            });
        }
        let hit = |i: usize| hits.lock().unwrap()[i];
        let mut expect_no_dial = |name: &str, idx: usize, before: u64, why: &str, viol: &mut Vec<(String, String)>| {
            let now = hits.lock().unwrap()[idx];
            if now != before {
                viol.push(("dialled_unauthentic_address".into(), format!("[dial:{name}] the node dialled {why}")));
            }
        };
        // 1. empty book: nothing to dial
        *cases += 1;
        tokio::time::sleep(Duration::from_millis(200)).await;
        if (0..4).any(|i| hit(i) > 0) {
            viol.push(("dialled_unauthentic_address".into(), "[dial:empty_book] the node dialled an address although its address book is empty".into()));
        }
        // 2. valid announcement (version 1) -> address 0 is dialled
        *cases += 1;
        let a1 = sign(&peer, addrs[0], 1, 100);
        gnet.addrs_update(&sched, &[a1.clone()]).await.map_err(|e| anyhow::format_err!(e))?;
        if !wait_for(60, || hit(0) > 0).await {
            viol.push(("authentic_address_not_dialled".into(), "[dial:valid_announcement] the validator's announced address was not dialled within 60 s".into()));
        }
        // 3. forged newer announcement (signature of another message) for address 3: batch refused, never dialled
        *cases += 1;
        let h3 = hit(3);
        let mut forged = (*sign(&peer, addrs[3], 5, 500)).clone();
        forged.sig = peer.sign_msg(validator::NetAddress { addr: addrs[2], version: 5, timestamp: t(0) }).sig;
        let r = gnet.addrs_update(&sched, &[Arc::new(forged)]).await;
        if r.is_ok() {
            viol.push(("forged_accepted".into(), "[dial:forged_newer] a forged announcement was accepted by update()".into()));
        }
        // 4. older valid announcement (version 0) for address 3: ignored
        *cases += 1;
        let _ = gnet.addrs_update(&sched, &[sign(&peer, addrs[3], 0, 900)]).await;
        // 5. a non-member's valid announcement for address 3: ignored
        *cases += 1;
        let _ = gnet.addrs_update(&sched, &[sign(&outsider, addrs[3], 9, 900)]).await;
        // 6. another member's announcement for address 3 must not redirect the connection to `peer`
        *cases += 1;
        let _ = gnet.addrs_update(&sched, &[sign(&w.c.keys[2], addrs[3], 9, 900)]).await;
        tokio::time::sleep(Duration::from_millis(400)).await;
        expect_no_dial("forged_older_outsider_othermember", 3, h3, "an address taken from a forged / older / non-member's / other member's announcement", viol);
        let book = gnet.addrs_current();
        if book.get(&pk).map(|x| x.msg.addr) != Some(addrs[0]) {
            viol.push(("book_changed".into(), format!("[dial:book] after forged / older / foreign announcements the entry of the validator is {:?}, expected the address of its newest valid announcement", book.get(&pk).map(|x| x.msg.addr))));
        }
        // 7. strictly newer valid announcement (version 2) -> address 1 is dialled (the address changed: no retry delay)
        *cases += 1;
        gnet.addrs_update(&sched, &[sign(&peer, addrs[1], 2, 50)]).await.map_err(|e| anyhow::format_err!(e))?;
        if !wait_for(60, || hit(1) > 0).await {
            viol.push(("authentic_address_not_dialled".into(), "[dial:newer_announcement] the validator's newer announced address was not dialled within 60 s".into()));
        }
        // 8. same version, later timestamp -> address 2
        *cases += 1;
        gnet.addrs_update(&sched, &[sign(&peer, addrs[2], 2, 60)]).await.map_err(|e| anyhow::format_err!(e))?;
        if !wait_for(60, || hit(2) > 0).await {
            viol.push(("authentic_address_not_dialled".into(), "[dial:later_timestamp] the address of the announcement with the same version and a later timestamp was not dialled within 60 s".into()));
        }
        expect_no_dial("end", 3, h3, "an address that never was in a valid newest announcement of the validator", viol);
        Ok(())
    })
    .await;
    out.dials_observed = hits_end.lock().unwrap().iter().sum();
    r.map_err(|e| format!("{e:?}"))
}

// ---------------------------------------------------------------------------------------------
// A peer prunes while it is connected (push_block_store_state handler of gossip/runner.rs): its newer
// announcement no longer covers blocks it announced before; requests for those must not go to it.

pub const PRUNE_SCENARIO: &str = "peer_prunes_while_connected";

/// One attempt with `wait_ms` between "the peer pruned" and "the node needs the pruned block".
/// Ok(Some(description)) = the forbidden outcome was observed in this attempt.
async fn one_prune(seed: u64, chn: &c08::Chain, canon: &[validator::Block], wait_ms: u64) -> Result<(Vec<(String, String)>, Option<String>), String> {
    let rng = &mut util::rng(seed, 0x9ea1 ^ wait_ms);
    let root = ctx::test_root(&ctx::RealClock);
    let ctx = &root;
    let genesis = &chn.w.c.genesis;
    let epoch = chn.w.c.epoch;
    let n_store = NetStore::new(genesis, &[], Lie::Honest, u64::MAX, None);
    let (n_mgr, n_runner) = EngineManager::new(ctx, Box::new(n_store.clone()), time::Duration::seconds(1)).await.map_err(|e| format!("{e:?}"))?;
    let mut cfg_n = make_cfg(rng, None);
    // one block at a time: block n+1 is requested only after block n has been stored
    cfg_n.max_block_queue_size = 1;
    cfg_n.rpc.get_block_timeout = Some(time::Duration::seconds(120));
    let n_key = cfg_n.gossip.key.public();
    let net = nv::VGossip::new(cfg_n, n_mgr.clone(), Some(epoch));
    let listener = TcpListener::bind("127.0.0.1:0").await.map_err(|e| e.to_string())?;
    let addr = listener.local_addr().unwrap();
    let mk_peer = |rng: &mut rand::rngs::StdRng, store: &NetStore| {
        let mut cfg = make_cfg(rng, None);
        cfg.gossip.static_outbound.insert(n_key.clone(), zksync_concurrency::net::Host(addr.to_string()));
        (cfg, store.clone())
    };
    let a_store = NetStore::new(genesis, canon, Lie::HoldUntilReleased, 0, None);
    let b_store = NetStore::new(genesis, canon, Lie::Honest, u64::MAX, None);
    let (a_cfg, _) = mk_peer(rng, &a_store);
    let (b_cfg, _) = mk_peer(rng, &b_store);
    let a_key = a_cfg.gossip.key.public();
    let (a_mgr, a_runner) = EngineManager::new(ctx, Box::new(a_store.clone()), time::Duration::seconds(1)).await.map_err(|e| format!("{e:?}"))?;
    let (b_mgr, b_runner) = EngineManager::new(ctx, Box::new(b_store.clone()), time::Duration::seconds(1)).await.map_err(|e| format!("{e:?}"))?;
    let a_net = nv::VGossip::new(a_cfg, a_mgr, Some(epoch));
    let b_net = nv::VGossip::new(b_cfg, b_mgr, Some(epoch));
    let mut viol: Vec<(String, String)> = vec![];
    let mut forbidden: Option<String> = None;
    let (viol_ref, forbidden_ref) = (&mut viol, &mut forbidden);
    let (net_ref, n_store_ref, a_store_ref, n_key_ref, a_key_ref) = (&net, &n_store, &a_store, &n_key, &a_key);
    let r: Result<(), ctx::Error> = scope::run!(ctx, |ctx, s| async move {
        for r in [n_runner, a_runner, b_runner] {
            s.spawn_bg(async move {
                let _ = r.run(ctx).await;
                Ok(())
            });
        }
        {
            let net = net_ref.clone();
            let mut listener = listener;
            s.spawn_bg(async move {
                while let Ok(tcp) = nv::accept_tcp(ctx, &mut listener).await {
                    let net = net.clone();
                    s.spawn_bg(async move {
                        let _ = net.handle_inbound(ctx, tcp).await;
                        Ok(())
                    });
                }
                Ok(())
            });
        }
        {
            let net = net_ref.clone();
            s.spawn_bg(async move {
                net.run_block_fetcher(ctx).await;
                Ok(())
            });
        }
        let key = n_key_ref.clone();
        s.spawn_bg(async move {
            let _ = a_net.dial(ctx, &key, addr).await;
            Ok(())
        });
        // the node asks A (announcing 0..=4) for block 0; the answer is held back
        if !wait_for(60, || a_store_ref.reads().contains(&0)).await {
            viol_ref.push(("request_lost".into(), format!("[gossip:{PRUNE_SCENARIO}] the only connected peer announced blocks 0..=4 but was not asked for block 0 within 60 s")));
            return Ok(());
        }
        // A prunes everything below 2 and announces 2..=4; give the node time to take note
        a_store_ref.prune(2);
        tokio::time::sleep(Duration::from_millis(wait_ms)).await;
        // A answers the held call: the node stores block 0 and now needs block 1, which A no longer announces
        a_store_ref.release();
        if !wait_for(60, || n_store_ref.stored().contains_key(&0)).await {
            viol_ref.push(("request_lost".into(), format!("[gossip:{PRUNE_SCENARIO}] the peer answered get_block(0) but the node did not store block 0 within 60 s")));
            return Ok(());
        }
        // forbidden: block 1 handed to A (A answers 'not found', the node drops the connection; or A's store sees the read)
        let dropped = wait_for((wait_ms / 1000).max(1), || !net_ref.inbound_keys().contains(a_key_ref) || a_store_ref.reads().contains(&1)).await;
        if dropped {
            *forbidden_ref = Some(format!("[gossip:{PRUNE_SCENARIO}] a peer announced blocks 0..=4, then (having pruned) 2..=4; {wait_ms} ms later the node needed block 1 and handed the request to that peer, whose latest announcement does not contain block 1 (requests seen by the peer's store {:?}; the peer is {} connected)", a_store_ref.reads(), if net_ref.inbound_keys().contains(a_key_ref) { "still" } else { "no longer" }));
        }
        // an honest peer with the whole chain connects: everything must arrive
        let key = n_key_ref.clone();
        s.spawn_bg(async move {
            let _ = b_net.dial(ctx, &key, addr).await;
            Ok(())
        });
        let done = wait_for(90, || (0..5u64).all(|n| n_store_ref.stored().contains_key(&n))).await;
        if !done {
            viol_ref.push(("request_lost".into(), format!("[gossip:{PRUNE_SCENARIO}] with an honest peer storing the whole chain connected the node still misses blocks 90 s later: stored {:?}, waiting in the fetch queue {:?}", n_store_ref.stored().keys().collect::<Vec<_>>(), net_ref.fetch_requested())));
        }
        Ok(())
    })
    .await;
    r.map_err(|e| format!("{e:?}"))?;
    for (n, b) in n_store.stored() {
        if canon.get(n as usize) != Some(&b) {
            viol.push(("foreign_block_stored".into(), format!("[gossip:{PRUNE_SCENARIO}] the node stored a foreign block for number {n}")));
        }
    }
    Ok((viol, forbidden))
}

/// The forbidden outcome rests on "the node has processed the peer's second announcement", which can
/// only be awaited by time: it is reported only if it shows up with 0.5 s, 2 s and 8 s of waiting.
fn run_prune(seed: u64, chn: &c08::Chain, canon: &[validator::Block], rt: &tokio::runtime::Runtime, out: &mut NetOutcome) {
    out.cases += 1;
    let mut last = None;
    for wait_ms in [500u64, 2000, 8000] {
        match rt.block_on(one_prune(seed, chn, canon, wait_ms)) {
            Ok((v, forbidden)) => {
                if !v.is_empty() {
                    out.viol.extend(v.into_iter().map(|(k, w)| (k, w, PRUNE_SCENARIO.to_string())));
                    return;
                }
                match forbidden {
                    None => {
                        out.prune_attempts_clean += 1;
                        return;
                    }
                    Some(f) => last = Some(f),
                }
            }
            Err(e) => {
                out.machinery.push(format!("gossip scenario {PRUNE_SCENARIO}: {e}"));
                return;
            }
        }
    }
    if let Some(f) = last {
        out.viol.push(("sent_to_peer_without_block".into(), format!("{f} - observed in all three attempts (0.5 s, 2 s, 8 s)"), PRUNE_SCENARIO.to_string()));
    }
}

// ---------------------------------------------------------------------------------------------
// C15: the rate configured for an RPC kind is the rate the node's server of that kind enforces
// (gossip/runner.rs hands cfg.rpc.<kind>_rate to add_server; config.rs).

pub struct RateOutcome {
    pub viol: Vec<(String, String)>,
    pub machinery: Vec<String>,
    pub requests_served: u64,
}

/// A node storing 8 blocks serves get_block with rate (burst 2, refresh 400 ms) - every other RPC kind
/// keeps a much faster rate - to a peer that fetches the whole chain as fast as its own (unlimited)
/// client side lets it. The times at which the node's store is read (= handler starts; the manager's
/// cache is empty) must respect the window bound b + T/r + 1, with one more for scheduling jitter
/// between the limiter's grant and the read (this part runs in real time).
pub fn run_rates(seed: u64) -> RateOutcome {
    let mut out = RateOutcome { viol: vec![], machinery: vec![], requests_served: 0 };
    let rt = tokio::runtime::Builder::new_multi_thread().worker_threads(4).enable_all().build().unwrap();
    let (burst, refresh_ms) = (2usize, 400u64);
    let res: Result<Vec<std::time::Instant>, String> = rt.block_on(async {
        let chn = c08::chain(seed, 8);
        let canon: Vec<validator::Block> = chn.blocks.iter().cloned().map(validator::Block::FinalV2).collect();
        let rng = &mut util::rng(seed, 0x4a7e);
        let root = ctx::test_root(&ctx::RealClock);
        let ctx = &root;
        let genesis = &chn.w.c.genesis;
        let epoch = chn.w.c.epoch;
        let fast = limiter::Rate { burst: 100, refresh: time::Duration::ZERO };
        // the serving node
        let n_store = NetStore::new(genesis, &canon, Lie::Honest, u64::MAX, None);
        let (n_mgr, n_runner) = EngineManager::new(ctx, Box::new(n_store.clone()), time::Duration::seconds(1)).await.map_err(|e| format!("{e:?}"))?;
        let mut cfg_n = make_cfg(rng, None);
        cfg_n.rpc = RpcConfig { get_block_rate: limiter::Rate { burst, refresh: time::Duration::milliseconds(refresh_ms as i64) }, push_validator_addrs_rate: fast, push_block_store_state_rate: fast, push_tx_rate: fast, consensus_rate: fast, get_block_timeout: Some(time::Duration::seconds(60)) };
        let n_key = cfg_n.gossip.key.public();
        let net = nv::VGossip::new(cfg_n, n_mgr, Some(epoch));
        let listener = TcpListener::bind("127.0.0.1:0").await.map_err(|e| e.to_string())?;
        let addr = listener.local_addr().unwrap();
        // the fetching peer: no limits of its own
        let p_store = NetStore::new(genesis, &[], Lie::Honest, u64::MAX, None);
        let (p_mgr, p_runner) = EngineManager::new(ctx, Box::new(p_store.clone()), time::Duration::seconds(1)).await.map_err(|e| format!("{e:?}"))?;
        let mut cfg_p = make_cfg(rng, None);
        cfg_p.rpc = RpcConfig { get_block_rate: fast, push_validator_addrs_rate: fast, push_block_store_state_rate: fast, push_tx_rate: fast, consensus_rate: fast, get_block_timeout: Some(time::Duration::seconds(60)) };
        cfg_p.gossip.static_outbound.insert(n_key.clone(), zksync_concurrency::net::Host(addr.to_string()));
        let p_net = nv::VGossip::new(cfg_p, p_mgr, Some(epoch));
        let (net_ref, p_store_ref) = (&net, &p_store);
        let r: Result<(), ctx::Error> = scope::run!(ctx, |ctx, s| async move {
            for r in [n_runner, p_runner] {
                s.spawn_bg(async move {
                    let _ = r.run(ctx).await;
                    Ok(())
                });
            }
            {
                let net = net_ref.clone();
                let mut listener = listener;
                s.spawn_bg(async move {
                    while let Ok(tcp) = nv::accept_tcp(ctx, &mut listener).await {
                        let net = net.clone();
                        s.spawn_bg(async move {
                            let _ = net.handle_inbound(ctx, tcp).await;
                            Ok(())
                        });
                    }
                    Ok(())
                });
            }
            {
                let p = p_net.clone();
                s.spawn_bg(async move {
                    p.run_block_fetcher(ctx).await;
                    Ok(())
                });
            }
            s.spawn_bg(async move {
                let _ = p_net.dial(ctx, &n_key, addr).await;
                Ok(())
            });
            // required: the peer ends up with the whole chain (the limit delays, it does not starve)
            if !wait_for(120, || (0..8u64).all(|n| p_store_ref.stored().contains_key(&n))).await {
                return Err(anyhow::format_err!("STARVED: the peer obtained only blocks {:?} of 0..=7 within 120 s from a node serving get_block at burst {burst} / {refresh_ms} ms", p_store_ref.stored().keys().collect::<Vec<_>>()).into());
            }
            Ok(())
        })
        .await;
        match r {
            Ok(()) => {}
            Err(ctx::Error::Internal(e)) if format!("{e:#}").contains("STARVED") => return Err(format!("{e:#}")),
            Err(e) => return Err(format!("machinery: {e:?}")),
        }
        let t = n_store.0.read_times.lock().unwrap().clone();
        Ok(t)
    });
    drop(rt);
    match res {
        Err(e) if e.starts_with("machinery") => out.machinery.push(format!("rate scenario: {e}")),
        Err(e) => out.viol.push(("rpc_starved".into(), format!("[gossip:get_block_rate] {e}"))),
        Ok(times) => {
            out.requests_served = times.len() as u64;
            let t0 = times.first().copied();
            let ms: Vec<u128> = times.iter().map(|t| t.duration_since(t0.unwrap()).as_millis()).collect();
            'outer: for i in 0..times.len() {
                for j in i..times.len() {
                    let span = times[j].duration_since(times[i]).as_millis() as u64;
                    let allowed = burst as u64 + span / refresh_ms + 2;
                    let got = (j - i + 1) as u64;
                    if got > allowed {
                        out.viol.push(("rpc_rate_not_enforced".into(), format!("[gossip:get_block_rate] a node configured with get_block rate burst {burst} / refresh {refresh_ms} ms started serving {got} get_block calls of one connection within {span} ms (at most {allowed} allowed, one of them for jitter); handler starts at {ms:?} ms")));
                        break 'outer;
                    }
                }
            }
        }
    }
    out
}

/// The push RPCs: a node configured with rate (burst 2, refresh 1 h) for one push kind - and fast rates
/// for everything else - can serve at most burst + 1 calls of that kind within the seconds this scenario
/// lasts. The peer (no limits of its own) has news eight times, 50 ms apart:
///  * kind 0, push_block_store_state: the peer's store gains a block each time, the next one only after
///    the node has asked for the previous one (or 300 ms): a block requested before its successor exists
///    proves a served announcement distinct from all the others counted;
///  * kind 1, push_validator_addrs: the peer's address book gains a newer announcement each time; the
///    node counts the calls it serves.
/// Returns (what was observed, allowed).
pub fn run_push_rate(seed: u64, kind: u32) -> Result<(u64, u64, String), String> {
    let rt = tokio::runtime::Builder::new_multi_thread().worker_threads(4).enable_all().build().unwrap();
    let burst = 2usize;
    let r = rt.block_on(async {
        let chn = c08::chain(seed, 8);
        let canon: Vec<validator::Block> = chn.blocks.iter().cloned().map(validator::Block::FinalV2).collect();
        let rng = &mut util::rng(seed, 0x9a7e ^ kind as u64);
        let root = ctx::test_root(&ctx::RealClock);
        let ctx = &root;
        let genesis = &chn.w.c.genesis;
        let epoch = chn.w.c.epoch;
        let fast = limiter::Rate { burst: 100, refresh: time::Duration::ZERO };
        let slow = limiter::Rate { burst, refresh: time::Duration::seconds(3600) };
        let all_fast = RpcConfig { get_block_rate: fast, push_validator_addrs_rate: fast, push_block_store_state_rate: fast, push_tx_rate: fast, consensus_rate: fast, get_block_timeout: Some(time::Duration::seconds(60)) };
        let n_store = NetStore::new(genesis, &[], Lie::Honest, u64::MAX, None);
        let (n_mgr, n_runner) = EngineManager::new(ctx, Box::new(n_store.clone()), time::Duration::seconds(1)).await.map_err(|e| format!("{e:?}"))?;
        let mut cfg_n = make_cfg(rng, None);
        cfg_n.rpc = all_fast.clone();
        if kind == 0 {
            cfg_n.rpc.push_block_store_state_rate = slow;
        } else {
            cfg_n.rpc.push_validator_addrs_rate = slow;
        }
        let n_key = cfg_n.gossip.key.public();
        let net = nv::VGossip::new(cfg_n, n_mgr, Some(epoch));
        let listener = TcpListener::bind("127.0.0.1:0").await.map_err(|e| e.to_string())?;
        let addr = listener.local_addr().unwrap();
        let p_store = NetStore::new(genesis, &[], Lie::Honest, u64::MAX, None);
        let (p_mgr, p_runner) = EngineManager::new(ctx, Box::new(p_store.clone()), time::Duration::seconds(1)).await.map_err(|e| format!("{e:?}"))?;
        let mut cfg_p = make_cfg(rng, None);
        cfg_p.rpc = all_fast;
        cfg_p.gossip.static_outbound.insert(n_key.clone(), zksync_concurrency::net::Host(addr.to_string()));
        let p_net = nv::VGossip::new(cfg_p, p_mgr, Some(epoch));
        let (net_ref, p_store_ref, p_net_ref, canon_ref, chn_ref) = (&net, &p_store, &p_net, &canon, &chn);
        let res: Result<(u64, u64, String), ctx::Error> = scope::run!(ctx, |ctx, s| async move {
            for r in [n_runner, p_runner] {
                s.spawn_bg(async move {
                    let _ = r.run(ctx).await;
                    Ok(())
                });
            }
            {
                let net = net_ref.clone();
                let mut listener = listener;
                s.spawn_bg(async move {
                    while let Ok(tcp) = nv::accept_tcp(ctx, &mut listener).await {
                        let net = net.clone();
                        s.spawn_bg(async move {
                            let _ = net.handle_inbound(ctx, tcp).await;
                            Ok(())
                        });
                    }
                    Ok(())
                });
            }
            {
                let net = net_ref.clone();
                s.spawn_bg(async move {
                    net.run_block_fetcher(ctx).await;
                    Ok(())
                });
            }
            {
                let p = p_net_ref.clone();
                s.spawn_bg(async move {
                    let _ = p.dial(ctx, &n_key, addr).await;
                    Ok(())
                });
            }
            // the connection must be up before the news start (required outcome)
            if !wait_for(60, || !net_ref.inbound_keys().is_empty()).await {
                return Err(anyhow::format_err!("machinery: the peer did not connect within 60 s").into());
            }
            tokio::time::sleep(Duration::from_millis(200)).await;
            let calls_before = net_ref.push_validator_addrs_calls() as u64;
            let mut separated = 0u64;
            let mut seen_log = vec![];
            for k in 0..8usize {
                if kind == 0 {
                    p_store_ref.append(canon_ref[k].clone());
                    // Block k+1 is appended only after the node has asked for block k (or 300 ms passed).
                    // If the request for k is seen BEFORE k+1 exists, the announcement that taught the
                    // node about k was sent before k+1 existed, so it is a different call from the one
                    // that will teach it about k+1: the blocks counted here prove pairwise distinct served
                    // calls, whatever the timing.
                    let seen = wait_for_ms(300, || p_store_ref.reads().contains(&(k as u64))).await;
                    if seen {
                        separated += 1;
                    }
                    seen_log.push(seen);
                } else {
                    let a = Arc::new(chn_ref.w.c.keys[0].sign_msg(validator::NetAddress { addr: std::net::SocketAddr::from(([10, 0, 0, 1], 1000 + k as u16)), version: k as u64, timestamp: t(100) }));
                    p_net_ref.addrs_update(&chn_ref.w.c.schedule, &[a]).await.map_err(|e| anyhow::format_err!("machinery: addrs_update: {e}"))?;
                    tokio::time::sleep(Duration::from_millis(50)).await;
                }
            }
            if kind == 0 {
                // the initial (empty) announcement + `burst` more at the very most + one for slack
                Ok((separated, burst as u64 + 1, format!("for each block the peer stored, was it requested before the next block existed: {seen_log:?}")))
            } else {
                tokio::time::sleep(Duration::from_millis(1000)).await;
                let calls = net_ref.push_validator_addrs_calls() as u64 - calls_before;
                Ok((calls, burst as u64 + 1, format!("push_validator_addrs calls served after the connection was up: {calls}")))
            }
        })
        .await;
        res.map_err(|e| format!("{e:?}"))
    });
    drop(rt);
    r
}

pub fn report_rates(rep: &mut crate::core::Report, seed: u64) -> serde_json::Value {
    // real time: a violation of the window bound is reported only if three runs in a row show one
    // (a changed rate shows in every run; a scheduling hiccup on a loaded machine does not repeat)
    let mut o = run_rates(seed);
    let mut attempts = 1;
    while attempts < 3 && o.viol.iter().any(|v| v.0 == "rpc_rate_not_enforced") {
        let o2 = run_rates(seed);
        attempts += 1;
        if !o2.viol.iter().any(|v| v.0 == "rpc_rate_not_enforced") {
            o = o2;
            break;
        }
        o = o2;
    }
    for (k, w) in &o.viol {
        rep.violations.push(crate::core::Violation { key: format!("gossipnet:{k}"), what: w.clone(), replay: serde_json::json!({"harness": "gossipnet", "config": {"scenario": "rates"}, "deviations": []}) });
    }
    rep.machinery_errors.extend(o.machinery.iter().cloned());
    if o.viol.is_empty() && o.machinery.is_empty() && o.requests_served < 8 {
        rep.machinery_errors.push(format!("vacuous: the rate scenario saw only {} get_block requests", o.requests_served));
    }
    let mut push_obs = vec![];
    for (kind, name) in [(0u32, "push_block_store_state"), (1, "push_validator_addrs")] {
        // forbidden outcome in real time: reported only if three runs in a row show it
        let mut last: Option<String> = None;
        for _ in 0..3 {
            match run_push_rate(seed, kind) {
                Err(e) => {
                    rep.machinery_errors.push(format!("push-rate scenario {name}: {e}"));
                    last = None;
                    break;
                }
                Ok((got, allowed, what)) => {
                    push_obs.push(serde_json::json!({"rpc": name, "observed": got, "allowed": allowed}));
                    if got > allowed {
                        last = Some(format!("[gossip:{name}_rate] a node configured with {name} rate burst 2 / refresh 1 h served more than {allowed} calls of that kind on one connection within three seconds: {what} (every 'true' proves a distinct served call)"));
                    } else {
                        last = None;
                        break;
                    }
                }
            }
        }
        if let Some(w) = last {
            rep.violations.push(crate::core::Violation { key: format!("gossipnet:rpc_rate_not_enforced:{name}"), what: w, replay: serde_json::json!({"harness": "gossipnet", "config": {"scenario": "rates"}, "deviations": []}) });
        }
    }
    serde_json::json!({"push_rpc_observations": push_obs, "get_block_requests_served": o.requests_served, "rule": "a real gossip network serving 8 blocks with get_block rate (2, 400 ms) and every other RPC kind at (100, 0) to a peer without limits, over loop-back TCP in real time: handler starts respect b + T/r + 1 (+1 for jitter); one run"})
}

// ---------------------------------------------------------------------------------------------
// Glue for the checks.

/// Runs the fetch scenarios selected by `filter` (or the one named in a replay file) and reports the
/// violations whose class is in `classes`. Returns the coverage fragment for the evidence file.
pub fn report_fetch(rep: &mut crate::core::Report, seed: u64, classes: &[&str], filter: &dyn Fn(&FetchScenario) -> bool) -> serde_json::Value {
    let o = run_fetch(seed, filter);
    for (k, w, scn) in &o.viol {
        if classes.contains(&k.as_str()) {
            rep.violations.push(crate::core::Violation { key: format!("gossipnet:{k}"), what: w.clone(), replay: serde_json::json!({"harness": "gossipnet", "config": {"scenario": scn}, "deviations": []}) });
        }
    }
    rep.machinery_errors.extend(o.machinery.iter().cloned());
    if o.viol.is_empty() && o.machinery.is_empty() && o.cases > 1 && o.lies_told == 0 {
        rep.machinery_errors.push("vacuous: no peer of the gossip scenarios ever got to misbehave".into());
    }
    serde_json::json!({
        "scenarios_run": o.cases, "prune_scenario_attempts_without_the_forbidden_request": o.prune_attempts_clean, "peer_misbehaviours_delivered": o.lies_told, "get_block_requests_seen_by_peers": o.blocks_fetched,
        "scenarios": fetch_scenarios().iter().filter(|s| filter(s)).map(|s| s.name).collect::<Vec<_>>(),
        "rule": "real gossip networks over loop-back TCP in real time, one run per listed peer behaviour; exhaustive over the list, not over schedules",
    })
}

/// Replay entry: `{"harness":"gossipnet","config":{"scenario":NAME}}`.
pub fn replay_fetch(rep: &mut crate::core::Report, seed: u64, rp: &serde_json::Value, classes: &[&str]) -> bool {
    if rp["harness"] != "gossipnet" {
        return false;
    }
    let name = rp["config"]["scenario"].as_str().unwrap_or("").to_string();
    if name == "dial" {
        report_dial(rep, seed);
    } else if name == "rates" {
        report_rates(rep, seed);
    } else {
        report_fetch(rep, seed, classes, &|s| s.name == name);
    }
    true
}

pub fn report_dial(rep: &mut crate::core::Report, seed: u64) -> serde_json::Value {
    let d = run_dial(seed);
    for (k, w) in &d.viol {
        rep.violations.push(crate::core::Violation { key: format!("gossipnet:{k}"), what: w.clone(), replay: serde_json::json!({"harness": "gossipnet", "config": {"scenario": "dial"}, "deviations": []}) });
    }
    rep.machinery_errors.extend(d.machinery.iter().cloned());
    if d.viol.is_empty() && d.machinery.is_empty() && d.dials_observed < 3 {
        rep.machinery_errors.push("vacuous: the dial scenario observed fewer than 3 connection attempts".into());
    }
    serde_json::json!({"announcement_steps": d.cases, "dials_observed": d.dials_observed,
        "rule": "a real validator network (consensus::Network::maintain_connection) fed through validator_addrs.update over loop-back TCP in real time: valid, forged, older, non-member and other-member announcements; one run"})
}

// ---------------------------------------------------------------------------------------------
// The debug page (C10): what a node *renders* from validly signed but absurd announcements.
// The node's address book is fed, through the real `ValidatorAddrsWatch::update`, one announcement
// signed by a committee member (faulty weight 1 of a committee with f = 1); the real
// `debug_page::Server` then serves one HTTP request over loop-back TCP.  The server task must not
// panic (the node is built with panic = abort), and the request must be answered.

pub struct PageOutcome {
    pub cases: u64,
    pub served: u64,
    pub viol: Vec<(String, String)>,
    pub machinery: Vec<String>,
}

pub fn run_debug_page(seed: u64) -> PageOutcome {
    let mut out = PageOutcome { cases: 0, served: 0, viol: vec![], machinery: vec![] };
    let rt = tokio::runtime::Builder::new_multi_thread().worker_threads(4).enable_all().build().unwrap();
    let c = util::committee(seed, &[1, 1, 1, 1, 1, 1]);
    let w = Arc::new(crate::bftsim::World { c, proposals: vec![], invalid_payload: Payload(vec![]) });
    crate::core::quiet_all(std::env::var("VERIF_SHOW_PANICS").is_err());
    for (i, a) in super::wiretypes::net_addresses().into_iter().enumerate() {
        out.cases += 1;
        let desc = format!("validator #1 announces {{addr {}, version {}, timestamp = epoch + {:?}}}", a.addr, a.version, a.timestamp - time::UNIX_EPOCH);
        match rt.block_on(one_page(seed ^ i as u64, w.clone(), a)) {
            Ok(None) => out.served += 1,
            Ok(Some(p)) => {
                let k = format!("debug_page_panic:{}", p.chars().take(60).collect::<String>());
                if !out.viol.iter().any(|x| x.0 == k) {
                    out.viol.push((k, format!("[debug_page] {desc}; the node stored the announcement, and serving its debug page then panicked: {p}")));
                }
            }
            Err(e) => out.machinery.push(format!("debug page, {desc}: {e}")),
        }
    }
    crate::core::quiet_all(false);
    drop(rt);
    out
}

/// Ok(None): the page was served. Ok(Some(panic message)): the server panicked. Err: no verdict.
async fn one_page(seed: u64, w: Arc<crate::bftsim::World>, a: validator::NetAddress) -> Result<Option<String>, String> {
    use tokio::io::{AsyncReadExt as _, AsyncWriteExt as _};
    use zksync_consensus_network::debug_page;
    let page_addr = *zksync_concurrency::net::tcp::testonly::reserve_listener();
    let w2 = w.clone();
    let server = tokio::spawn(async move {
        let w = w2;
        let rng = &mut util::rng(seed, 0xdeb6);
        let root = ctx::test_root(&ctx::RealClock);
        let ctx = &root;
        let store = NetStore::new(&w.c.genesis, &[], Lie::Honest, u64::MAX, None);
        let (mgr, runner) = EngineManager::new(ctx, Box::new(store), time::Duration::seconds(1)).await.map_err(|e| format!("{e:?}"))?;
        let gnet = nv::VGossip::new(make_cfg(rng, Some(w.c.keys[0].clone())), mgr, Some(w.c.epoch));
        let vnet = nv::VConsensus::new(&gnet).map_err(|e| e.to_string())?;
        let signed = Arc::new(w.c.keys[1].sign_msg(a));
        let stored = gnet.addrs_update(&w.c.schedule, &[signed]).await.is_ok() && gnet.addrs_current().contains_key(&w.c.keys[1].public());
        let net = nv::node_state(&gnet, vnet.as_ref());
        let srv = debug_page::Server::new(debug_page::Config { addr: page_addr }, net);
        let srv = &srv;
        let r: Result<bool, ctx::Error> = scope::run!(ctx, |ctx, s| async move {
            s.spawn_bg(async move {
                let _ = runner.run(ctx).await;
                Ok(())
            });
            s.spawn_bg(async move { srv.run(ctx, false).await.map_err(ctx::Error::Internal) });
            // the request: answered (any status) or the connection is closed by the server
            let mut answered = false;
            for _ in 0..400 {
                let Ok(mut tcp) = tokio::net::TcpStream::connect(page_addr).await else {
                    tokio::time::sleep(Duration::from_millis(25)).await;
                    continue;
                };
                let _ = tcp.write_all(b"GET / HTTP/1.1\r\nHost: node\r\nConnection: close\r\n\r\n").await;
                let mut buf = vec![];
                let _ = tokio::time::timeout(Duration::from_secs(30), tcp.read_to_end(&mut buf)).await;
                answered = buf.starts_with(b"HTTP/1.1 200");
                break;
            }
            Ok(answered)
        }).await;
        r.map(|answered| (answered, stored)).map_err(|e| format!("{e:?}"))
    });
    match server.await {
        Ok(Ok((true, _))) => Ok(None),
        Ok(Ok((false, stored))) => Err(format!("no HTTP 200 answer and no panic (announcement stored: {stored})")),
        Ok(Err(e)) => Err(e),
        Err(e) if e.is_panic() => {
            let p = e.into_panic();
            let msg = p.downcast_ref::<String>().cloned().or_else(|| p.downcast_ref::<&str>().map(|s| s.to_string())).unwrap_or_else(|| "panic".into());
            Ok(Some(msg))
        }
        Err(e) => Err(format!("server task: {e}")),
    }
}

pub fn report_debug_page(rep: &mut crate::core::Report, seed: u64) -> serde_json::Value {
    let d = run_debug_page(seed);
    for (k, w) in &d.viol {
        rep.violations.push(crate::core::Violation { key: k.clone(), what: w.clone(), replay: serde_json::json!({"harness": "gossipnet", "config": {"scenario": "debug_page"}, "deviations": []}) });
    }
    rep.machinery_errors.extend(d.machinery.iter().cloned());
    if d.viol.is_empty() && d.machinery.is_empty() && d.served == 0 {
        rep.machinery_errors.push("vacuous: the debug page was never served".into());
    }
    serde_json::json!({"announcements": d.cases, "pages_served": d.served,
        "rule": "a real node state (gossip + validator network) whose address book received, through ValidatorAddrsWatch::update, one announcement signed by a committee member with an extreme address / version / timestamp; the real debug_page::Server answers one HTTP request over loop-back TCP; one run per listed announcement"})
}

// ---------------------------------------------------------------------------------------------
// The node's own accept loop (C10): the real `Network::new` + `Runner::run` (lib.rs: listener,
// accept-rate limiter, preface dispatch, one task per connection) against raw TCP peers that behave
// in each of a listed set of ways.  Whatever a peer does to its own connection, the network component
// must keep running and must still admit an honest peer afterwards.

pub struct AcceptOutcome {
    pub cases: u64,
    pub honest_admitted: u64,
    pub viol: Vec<(String, String)>,
    pub machinery: Vec<String>,
}

#[derive(Clone, Copy, Debug, PartialEq)]
pub enum RawPeer {
    /// connects and resets the connection at once (SO_LINGER 0), many times
    ConnectReset,
    /// connects and closes at once (FIN), many times
    ConnectClose,
    /// sends bytes that are not a preface, then closes
    Garbage,
    /// a length prefix announcing 4 GiB, then silence (the connection is held open)
    HugeFrameThenSilence,
    /// half of a valid first frame, then reset
    HalfFrameThenReset,
}

pub fn run_accept_loop(seed: u64) -> AcceptOutcome {
    let mut out = AcceptOutcome { cases: 0, honest_admitted: 0, viol: vec![], machinery: vec![] };
    let rt = tokio::runtime::Builder::new_multi_thread().worker_threads(4).enable_all().build().unwrap();
    crate::core::quiet_all(std::env::var("VERIF_SHOW_PANICS").is_err());
    for (i, kind) in [RawPeer::ConnectReset, RawPeer::ConnectClose, RawPeer::Garbage, RawPeer::HugeFrameThenSilence, RawPeer::HalfFrameThenReset].into_iter().enumerate() {
        if std::env::var("VERIF_ACCEPT_ONLY").ok().and_then(|x| x.parse::<usize>().ok()).map_or(false, |k| k != i) {
            continue;
        }
        out.cases += 1;
        match rt.block_on(one_accept(seed ^ (i as u64) << 8, kind)) {
            Ok(None) => out.honest_admitted += 1,
            Ok(Some(v)) => out.viol.push((format!("accept_loop:{kind:?}"), format!("[accept_loop] raw TCP peers that {}: {v}", match kind {
                RawPeer::ConnectReset => "connect and reset the connection at once (200 times)",
                RawPeer::ConnectClose => "connect and close at once (200 times)",
                RawPeer::Garbage => "send 64 bytes that are not a preface and close (50 times)",
                RawPeer::HugeFrameThenSilence => "announce a 4 GiB frame and stay silent (20 connections held open)",
                RawPeer::HalfFrameThenReset => "send half of the first frame and reset (100 times)",
            }))),
            Err(e) => out.machinery.push(format!("accept loop, {kind:?}: {e}")),
        }
    }
    crate::core::quiet_all(false);
    drop(rt);
    out
}

async fn one_accept(seed: u64, kind: RawPeer) -> Result<Option<String>, String> {
    use tokio::io::AsyncWriteExt as _;
    let rng = &mut util::rng(seed, 0xacce);
    let c = util::committee(seed, &[1, 1, 1]);
    let root = ctx::test_root(&ctx::RealClock);
    // node under test: the public constructor and the real runner
    let store = NetStore::new(&c.genesis, &[], Lie::Honest, u64::MAX, None);
    let (mgr, mgr_runner) = EngineManager::new(&root, Box::new(store), time::Duration::seconds(1)).await.map_err(|e| format!("{e:?}"))?;
    let cfg = make_cfg(rng, None);
    let (n_key, addr) = (cfg.gossip.key.public(), *cfg.server_addr);
    let (cons_send, _cons_recv) = sync::prunable_mpsc::unpruned_channel();
    let (_msg_send, msg_recv) = ctx::channel::unbounded();
    let (_net, runner) = zksync_consensus_network::Network::new(cfg, mgr, Some(c.epoch), cons_send, msg_recv).map_err(|e| format!("{e:#}"))?;
    let (stop_send, mut stop) = sync::watch::channel(false);
    let node = tokio::spawn(async move {
        let root2 = ctx::test_root(&ctx::RealClock);
        let r: Result<(), ctx::Error> = scope::run!(&root2, |ctx, s| async move {
            s.spawn_bg(async move {
                let _ = mgr_runner.run(ctx).await;
                Ok(())
            });
            let run = s.spawn(async move { runner.run(ctx, false).await.map_err(ctx::Error::Internal) });
            tokio::select! {
                r = run.join(ctx) => r.map(|_| ()).map_err(ctx::Error::Canceled),
                _ = sync::wait_for(ctx, &mut stop, |s| *s) => Err(ctx::Error::Canceled(ctx::Canceled)),
            }
        })
        .await;
        r
    });
    // wait until the node listens
    let mut up = false;
    for _ in 0..400 {
        if tokio::net::TcpStream::connect(addr).await.is_ok() {
            up = true;
            break;
        }
        tokio::time::sleep(Duration::from_millis(25)).await;
    }
    if !up {
        return Err("the node never started listening".into());
    }
    // the raw peers
    let mut held = vec![];
    let (n, pause_ms) = match kind {
        RawPeer::ConnectReset | RawPeer::ConnectClose => (200, 0),
        RawPeer::Garbage => (50, 0),
        RawPeer::HugeFrameThenSilence => (20, 0),
        RawPeer::HalfFrameThenReset => (100, 1),
    };
    for _ in 0..n {
        let Ok(mut tcp) = tokio::net::TcpStream::connect(addr).await else { continue };
        match kind {
            RawPeer::ConnectReset => {
                let _ = tcp.set_linger(Some(Duration::ZERO));
            }
            RawPeer::ConnectClose => {}
            RawPeer::Garbage => {
                let _ = tcp.write_all(&[0xA5u8; 64]).await;
            }
            RawPeer::HugeFrameThenSilence => {
                let _ = tcp.write_all(&u32::MAX.to_le_bytes()).await;
                held.push(tcp);
                continue;
            }
            RawPeer::HalfFrameThenReset => {
                let _ = tcp.write_all(&[2, 0]).await;
                tokio::time::sleep(Duration::from_millis(pause_ms)).await;
                let _ = tcp.set_linger(Some(Duration::ZERO));
            }
        }
        drop(tcp);
    }
    tokio::time::sleep(Duration::from_millis(300)).await;
    // required: the network component is still running ...
    let mut verdict = None;
    if node.is_finished() {
        verdict = Some(match node.await {
            Ok(Ok(())) => "the network component stopped (Runner::run returned Ok)".to_string(),
            Ok(Err(e)) => format!("the network component stopped with an error: {e:?}"),
            Err(e) => format!("the network component panicked: {e}"),
        });
        return Ok(verdict);
    }
    // ... and admits an honest peer (a real gossip network dialling it)
    let pstore = NetStore::new(&c.genesis, &[], Lie::Honest, u64::MAX, None);
    let (pmgr, prunner) = EngineManager::new(&root, Box::new(pstore), time::Duration::seconds(1)).await.map_err(|e| format!("{e:?}"))?;
    let mut pcfg = make_cfg(rng, None);
    pcfg.gossip.static_outbound.insert(n_key.clone(), zksync_concurrency::net::Host(addr.to_string()));
    let pnet = nv::VGossip::new(pcfg, pmgr, Some(c.epoch));
    let pkey = n_key.clone();
    let pnet2 = pnet.clone();
    let mut pstop = stop_send.subscribe();
    let peer = tokio::spawn(async move {
        let proot = ctx::test_root(&ctx::RealClock);
        let _: Result<(), ctx::Error> = scope::run!(&proot, |ctx, s| async move {
            s.spawn_bg(async move {
                let _ = prunner.run(ctx).await;
                Ok(())
            });
            s.spawn_bg(async move {
                let r = pnet2.dial(ctx, &pkey, addr).await;
                if std::env::var("VERIF_DEBUG").is_ok() {
                    eprintln!("honest dial ended: {r:?}");
                }
                Ok(())
            });
            let _ = sync::wait_for(ctx, &mut pstop, |s| *s).await;
            Ok(())
        })
        .await;
    });
    let admitted = wait_for(60, || pnet.outbound_keys().contains(&n_key)).await;
    if !admitted {
        verdict = Some(if node.is_finished() { "the network component stopped".to_string() } else { "an honest peer dialling the node afterwards was not admitted within 60 s".to_string() });
    }
    drop(held);
    stop_send.send_replace(true);
    let _ = tokio::time::timeout(Duration::from_secs(10), node).await;
    let _ = tokio::time::timeout(Duration::from_secs(10), peer).await;
    Ok(verdict)
}

pub fn report_accept_loop(rep: &mut crate::core::Report, seed: u64) -> serde_json::Value {
    let d = run_accept_loop(seed);
    for (k, w) in &d.viol {
        rep.violations.push(crate::core::Violation { key: k.clone(), what: w.clone(), replay: serde_json::json!({"harness": "gossipnet", "config": {"scenario": "accept_loop"}, "deviations": []}) });
    }
    rep.machinery_errors.extend(d.machinery.iter().cloned());
    if d.viol.is_empty() && d.machinery.is_empty() && d.honest_admitted == 0 {
        rep.machinery_errors.push("vacuous: no honest peer was ever admitted by the accept loop".into());
    }
    serde_json::json!({"raw_peer_behaviours": d.cases, "honest_peer_admitted_afterwards": d.honest_admitted,
        "rule": "the real Network::new + Runner::run (listener, accept-rate limiter, preface dispatch) over loop-back TCP against raw peers that reset / close at once, send garbage, announce a 4 GiB frame and stay silent, or reset in the middle of the first frame; afterwards the component must still run and admit an honest peer; one run per behaviour"})
}


// ---------------------------------------------------------------------------------------------
// Whole nodes on real networks (C06, sampled): every validator is the real `Network::new` + `Runner::run`
// wired to the real `bft::Config::run` over a real `EngineManager`, exactly as the executor wires them;
// the nodes know only a ring of gossip peers, so validators find each other through the address
// announcements of the loop-back connection, votes travel through `MsgPool` and the consensus RPC, a
// stopped node catches up through the block fetcher.  One run per listed scenario in real time.

#[derive(Clone, Copy, Debug, PartialEq)]
pub enum SystemScenario {
    /// six validators, all running
    AllUp,
    /// validator #5 never starts (weight f = 1 of 6): views it leads must time out
    OneDown,
    /// validator #0 is stopped after two blocks, the others go on, then it is restarted from its store
    Restart,
}

pub struct SystemOutcome {
    pub cases: u64,
    pub blocks_finalized: u64,
    pub viol: Vec<(String, String)>,
    pub machinery: Vec<String>,
}

pub fn run_system(seed: u64, scenarios: &[SystemScenario]) -> SystemOutcome {
    let mut out = SystemOutcome { cases: 0, blocks_finalized: 0, viol: vec![], machinery: vec![] };
    let rt = tokio::runtime::Builder::new_multi_thread().worker_threads(8).enable_all().build().unwrap();
    for sc in scenarios {
        out.cases += 1;
        match rt.block_on(one_system(seed, *sc)) {
            Ok((v, blocks)) => {
                out.blocks_finalized += blocks;
                out.viol.extend(v.into_iter().map(|(k, w)| (k, format!("[system:{sc:?}] {w}"))));
            }
            Err(e) => out.machinery.push(format!("system scenario {sc:?}: {e}")),
        }
    }
    drop(rt);
    out
}

async fn one_system(seed: u64, sc: SystemScenario) -> Result<(Vec<(String, String)>, u64), String> {
    use zksync_consensus_bft as bft;
    let rng = &mut util::rng(seed, 0x5157 ^ sc as u64);
    let n = 6usize;
    let c = util::committee(seed, &[1, 1, 1, 1, 1, 1]);
    let root = ctx::test_root(&ctx::RealClock);
    let mut cfgs: Vec<Config> = (0..n).map(|i| make_cfg(rng, Some(c.keys[i].clone()))).collect();
    // gossip ring: node i dials i+1 and i+2
    let ids: Vec<(zksync_consensus_roles::node::PublicKey, std::net::SocketAddr)> = cfgs.iter().map(|c| (c.gossip.key.public(), *c.server_addr)).collect();
    for i in 0..n {
        for d in 1..=2 {
            let (k, a) = &ids[(i + d) % n];
            cfgs[i].gossip.static_outbound.insert(k.clone(), zksync_concurrency::net::Host(a.to_string()));
        }
    }
    let stores: Vec<NetStore> = (0..n).map(|_| NetStore::new(&c.genesis, &[], Lie::Honest, u64::MAX, None)).collect();
    let stops: Vec<sync::watch::Sender<bool>> = (0..n).map(|_| sync::watch::channel(false).0).collect();
    // one incarnation of node i: runs until its stop flag is raised; Err(text) if a component ended on its own
    let spawn_node = |i: usize| {
        let (cfg, store, key, epoch, mut stop) = (cfgs[i].clone(), stores[i].clone(), c.keys[i].clone(), c.epoch, stops[i].subscribe());
        tokio::spawn(async move {
            let root = ctx::test_root(&ctx::RealClock);
            let (mgr, mgr_runner) = EngineManager::new(&root, Box::new(store), time::Duration::seconds(1)).await.map_err(|e| format!("EngineManager::new: {e:?}"))?;
            let (consensus_send, consensus_recv) = bft::create_input_channel();
            let (network_send, network_recv) = ctx::channel::unbounded();
            let r: Result<(), ctx::Error> = scope::run!(&root, |ctx, s| async move {
                s.spawn_bg(async move { mgr_runner.run(ctx).await.map_err(|e| ctx::Error::Internal(anyhow::format_err!("engine manager runner: {e:#}"))) });
                let (_net, runner) = zksync_consensus_network::Network::new(cfg, mgr.clone(), Some(epoch), consensus_send, network_recv)?;
                s.spawn_bg(async move { runner.run(ctx, false).await.map_err(|e| ctx::Error::Internal(e.context("network component stopped"))) });
                let bcfg = bft::Config::new(key, 1 << 20, time::Duration::milliseconds(2000), mgr, epoch)?;
                s.spawn_bg(async move { bcfg.run(ctx, network_send, consensus_recv).await.map_err(|e| ctx::Error::Internal(e.context("consensus component stopped"))) });
                let _ = sync::wait_for(ctx, &mut stop, |s| *s).await;
                Ok(())
            })
            .await;
            match r {
                Ok(()) | Err(ctx::Error::Canceled(_)) => Ok::<(), String>(()),
                Err(ctx::Error::Internal(e)) => Err(format!("{e:#}")),
            }
        })
    };
    let _ = &root;
    let up: Vec<usize> = if sc == SystemScenario::OneDown { (0..n - 1).collect() } else { (0..n).collect() };
    let mut handles: Vec<Option<tokio::task::JoinHandle<Result<(), String>>>> = (0..n).map(|_| None).collect();
    for &i in &up {
        handles[i] = Some(spawn_node(i));
    }
    let mut viol: Vec<(String, String)> = vec![];
    let height = |i: usize| stores[i].stored().len() as u64;
    let ended = |handles: &Vec<Option<tokio::task::JoinHandle<Result<(), String>>>>| handles.iter().enumerate().find(|(_, h)| h.as_ref().map_or(false, |h| h.is_finished())).map(|x| x.0);
    let progress = |who: Vec<usize>, want: u64| {
        let stores = stores.clone();
        async move { wait_for(150, move || who.iter().all(|&i| stores[i].stored().len() as u64 >= want)).await }
    };
    let first_goal = if sc == SystemScenario::Restart { 2 } else { 3 };
    if !progress(up.clone(), first_goal).await {
        viol.push(("no_progress_real_network".into(), format!("validators {up:?} of 6 (unit weights) on a loop-back network did not all finalize {first_goal} blocks within 150 s; heights {:?}; a component ended early on node {:?}", (0..n).map(height).collect::<Vec<_>>(), ended(&handles))));
    } else if sc == SystemScenario::Restart {
        // stop node 0, the other five (a quorum) go on; then restart node 0 from its store
        stops[0].send_replace(true);
        if let Some(h) = handles[0].take() {
            let _ = tokio::time::timeout(Duration::from_secs(20), h).await;
        }
        stops[0].send_replace(false);
        let h0 = height(0);
        let others: Vec<usize> = (1..n).collect();
        let goal = (1..n).map(height).max().unwrap_or(0) + 2;
        if !progress(others.clone(), goal).await {
            viol.push(("no_progress_real_network".into(), format!("after validator 0 was stopped the other five did not finalize two more blocks within 150 s; heights {:?}", (0..n).map(height).collect::<Vec<_>>())));
        } else {
            handles[0] = Some(spawn_node(0));
            let goal2 = (1..n).map(height).max().unwrap_or(0) + 1;
            if !progress((0..n).collect(), goal2).await {
                viol.push(("lagging_node_did_not_catch_up".into(), format!("validator 0 was restarted from its store at height {h0}; 150 s later the six validators have not all reached height {goal2}: heights {:?}; a component ended early on node {:?}", (0..n).map(height).collect::<Vec<_>>(), ended(&handles))));
            }
        }
    }
    // forbidden: a component of a running node ended on its own
    if let Some(i) = ended(&handles) {
        if let Some(h) = handles[i].take() {
            let r = h.await;
            viol.push(("component_stopped".into(), format!("a component of validator {i} ended while the node was running: {r:?}")));
        }
    }
    // forbidden: two validators finalized different blocks for one number
    let mut blocks = 0u64;
    let mut by_n: BTreeMap<u64, Vec<validator::Block>> = BTreeMap::new();
    for st in &stores {
        for (k, b) in st.stored() {
            blocks = blocks.max(k + 1);
            let e = by_n.entry(k).or_default();
            if !e.iter().any(|x| x.payload() == b.payload()) {
                e.push(b);
            }
        }
    }
    for (k, v) in &by_n {
        if v.len() > 1 {
            viol.push(("agreement_real_network".into(), format!("validators stored {} different payloads for block {k}", v.len())));
        }
    }
    for s in &stops {
        s.send_replace(true);
    }
    for h in handles.into_iter().flatten() {
        let _ = tokio::time::timeout(Duration::from_secs(20), h).await;
    }
    Ok((viol, blocks))
}

pub fn report_system(rep: &mut crate::core::Report, seed: u64, scenarios: &[SystemScenario]) -> serde_json::Value {
    let d = run_system(seed, scenarios);
    for (k, w) in &d.viol {
        rep.violations.push(crate::core::Violation { key: format!("gossipnet:{k}"), what: w.clone(), replay: serde_json::json!({"harness": "gossipnet", "config": {"scenario": "system"}, "deviations": []}) });
    }
    rep.machinery_errors.extend(d.machinery.iter().cloned());
    if d.viol.is_empty() && d.machinery.is_empty() && d.blocks_finalized == 0 {
        rep.machinery_errors.push("vacuous: the whole-node scenarios finalized no block".into());
    }
    serde_json::json!({"scenarios": scenarios.iter().map(|s| format!("{s:?}")).collect::<Vec<_>>(), "highest_block_finalized_summed_over_scenarios": d.blocks_finalized,
        "rule": "six whole validator nodes (real Network::new + Runner::run + bft::Config::run + EngineManager, wired as the executor wires them) on loop-back TCP in real time; validators discover each other through address announcements over a gossip ring; one run per scenario (all up / one validator never starts / one validator stopped and restarted from its store); sampled schedules, not exhaustive"})
}
