//! C15 — rate and concurrency limits are enforced on every RPC stream.
//! (a) limiter: acquirer tasks + a clock environment under the controlled scheduler, all
//!     schedules / clock steps within a deviation bound; window bound and FIFO on the grant log;
//!     cancel-consumes-nothing as a differential enumeration of scripts;
//! (b) RPC: a real rpc::Service server with a counting handler against a greedy real client over
//!     an in-memory pipe: handler start times obey the window bound, concurrency <= INFLIGHT.
use std::{
    sync::{Arc, Mutex},
    time::Duration,
};

use serde_json::json;
use zksync_concurrency::{ctx, limiter, scope, sync, time};
use zksync_consensus_network::verif as nv;

use crate::{
    core::{self, env_choose, explore, fx_hash, Ch, ExecResult, ExploreCfg, Report, Violation},
    pipe, sched, Args,
};

const R_MS: i64 = 1000;

/// permits granted in [t_i, t_j] <= b + (t_j - t_i)/r + 1 for all i <= j
fn window_violation(grants: &[(i64, usize)], burst: usize) -> Option<String> {
    for i in 0..grants.len() {
        let mut sum = 0usize;
        for j in i..grants.len() {
            sum += grants[j].1;
            let t = grants[j].0 - grants[i].0;
            let bound = burst as i64 + t / R_MS + 1;
            if sum as i64 > bound {
                return Some(format!("{sum} permits were granted within a window of {t} ms (from t={} to t={}), burst {burst} and refresh {R_MS} ms allow at most {bound}; grants (time ms, permits): {grants:?}", grants[i].0, grants[j].0));
            }
        }
    }
    None
}

struct SendCh(Ch);
unsafe impl Send for SendCh {}
unsafe impl Sync for SendCh {}

/// Acquirers: task k wants permits[k], holds the permit for holds[k] clock steps.
fn limiter_run(ch: &Ch, burst: usize, permits: &[usize], holds: &[u32], repeat: u32) -> ExecResult {
    let log: Arc<Mutex<Vec<(String, i64, usize, usize)>>> = Default::default(); // (event, time, task, permits)
    let log2 = log.clone();
    let sch = Arc::new(SendCh(ch.clone()));
    let permits = permits.to_vec();
    let holds = holds.to_vec();
    let n = permits.len();
    let stuck = sched::run(ch, |idle| async move {
        let clock = ctx::ManualClock::new();
        let root = ctx::test_root(&clock);
        let t0 = root.now();
        let lim = limiter::Limiter::new(&root, limiter::Rate { burst, refresh: time::Duration::milliseconds(R_MS) });
        let tick = sync::watch::channel(0u32).0;
        let (lim, tick, log, root, clock, sch, idle_ref, permits, holds) = (&lim, &tick, &log2, &root, &clock, &sch, &idle, &permits, &holds);
        let fut = async move {
            scope::run!(root, |ctx, s| async move {
                for k in 0..n {
                    s.spawn(async move {
                        // `repeat` acquisitions in a row: later acquisitions consume whatever an earlier
                        // accounting slip credited
                        for _round in 0..repeat {
                            log.lock().unwrap().push(("arrive".into(), (ctx.now() - t0).whole_milliseconds() as i64, k, permits[k]));
                            let p = lim.acquire(ctx, permits[k]).await?;
                            log.lock().unwrap().push(("grant".into(), (ctx.now() - t0).whole_milliseconds() as i64, k, permits[k]));
                            // hold for holds[k] clock steps
                            let mut sub = tick.subscribe();
                            let start = *sub.borrow();
                            while *sub.borrow() < start + holds[k] {
                                if sync::changed(ctx, &mut sub).await.is_err() {
                                    break;
                                }
                            }
                            drop(p);
                            log.lock().unwrap().push(("release".into(), (ctx.now() - t0).whole_milliseconds() as i64, k, permits[k]));
                        }
                        anyhow::Ok(())
                    });
                }
                // clock environment: at every idle point advance by r/2, r or 3r
                s.spawn_bg(async move {
                    for _ in 0..40 {
                        idle_ref.settle().await;
                        let d = [R_MS, R_MS / 2, 3 * R_MS][env_choose(&sch.0, 3)];
                        clock.advance(time::Duration::milliseconds(d));
                        tick.send_modify(|x| *x += 1);
                    }
                    anyhow::Ok(())
                });
                anyhow::Ok(())
            })
            .await
        };
        matches!(sched::drive(&idle, fut, |k| k < 200).await, sched::Driven::Stuck)
    });
    let lg = log.lock().unwrap().clone();
    let grants: Vec<(i64, usize)> = lg.iter().filter(|e| e.0 == "grant").map(|e| (e.1, e.3)).collect();
    let mut violation = window_violation(&grants, burst);
    // FIFO: grants happen in arrival order
    let arrivals: Vec<usize> = lg.iter().filter(|e| e.0 == "arrive").map(|e| e.2).collect();
    let granted: Vec<usize> = lg.iter().filter(|e| e.0 == "grant").map(|e| e.2).collect();
    let expected: Vec<usize> = arrivals.iter().copied().filter(|k| granted.contains(k)).collect();
    if violation.is_none() && granted != expected {
        violation = Some(format!("waiting callers were not served in arrival order: arrivals {arrivals:?}, grants {granted:?}; events {lg:?}"));
    }
    if violation.is_none() && (stuck || granted.len() != n * repeat as usize) {
        violation = Some(format!("not every acquire (each <= burst) was granted although the clock kept advancing (granted {granted:?} of {n} x {repeat}, stuck={stuck}); events {lg:?}"));
    }
    ExecResult { obs: fx_hash(&format!("{lg:?}")), violation, nontrivial: true, witnesses: vec![("grants_after_waiting", grants.iter().filter(|g| g.0 > 0).count() as u64)] }
}


/// Extreme refresh periods (the property quantifies over every positive period): one caller asks for
/// `per_call` permits `burst + 4` times in a row while the clock is advanced, at every quiescent point, by
/// 1 s, 10^6 s, 10^9 s (cyclically, 12 steps).  Window bound with exact arithmetic; for periods that fit
/// the horizon every acquire must be granted.
fn extreme_rates() -> (u64, u64, Option<String>) {
    let periods: Vec<(&str, time::Duration)> = vec![
        ("1 ns", time::Duration::nanoseconds(1)),
        ("1 ms", time::Duration::milliseconds(1)),
        ("2^40 s", time::Duration::seconds(1 << 40)),
        ("i64::MAX ns", time::Duration::nanoseconds(i64::MAX)),
        ("i64::MAX s", time::Duration::new(i64::MAX, 0)),
        ("Duration::MAX", time::Duration::MAX),
    ];
    let (mut n, mut waited_forever) = (0u64, 0u64);
    for (pname, period) in &periods {
        for burst in 1..=3usize {
            for per_call in 1..=burst {
                n += 1;
                let grants: Arc<Mutex<Vec<(i128, usize)>>> = Default::default();
                let g2 = grants.clone();
                let ch = core::Chooser::new(vec![], None);
                let calls = burst + 4;
                let period = *period;
                sched::run(&ch, |idle| async move {
                    let clock = ctx::ManualClock::new();
                    let root = ctx::test_root(&clock);
                    let t0 = root.now();
                    let lim = limiter::Limiter::new(&root, limiter::Rate { burst, refresh: period });
                    let (lim, root, clock, idle_ref, g2) = (&lim, &root, &clock, &idle, &g2);
                    let fut = async move {
                        scope::run!(root, |ctx, s| async move {
                            s.spawn_bg(async move {
                                for _ in 0..calls {
                                    let p = lim.acquire(ctx, per_call).await?;
                                    g2.lock().unwrap().push(((ctx.now() - t0).whole_nanoseconds(), per_call));
                                    drop(p);
                                }
                                anyhow::Ok(())
                            });
                            for step in 0..12 {
                                idle_ref.settle().await;
                                clock.advance(time::Duration::seconds([1, 1_000_000, 1_000_000_000][step % 3]));
                            }
                            idle_ref.settle().await;
                            anyhow::Ok(())
                        })
                        .await
                    };
                    let _ = sched::drive(&idle, fut, |k| k < 100).await;
                });
                let g = grants.lock().unwrap().clone();
                let r = period.whole_nanoseconds();
                for i in 0..g.len() {
                    let mut sum = 0i128;
                    for j in i..g.len() {
                        sum += g[j].1 as i128;
                        let t = g[j].0 - g[i].0;
                        let bound = burst as i128 + t / r + 1;
                        if sum > bound {
                            return (n, waited_forever, Some(format!("limiter with burst {burst} and refresh period {pname}: {sum} permits were granted within a window of {t} ns, at most {bound} allowed; one caller acquiring {per_call} permit(s) {calls} times; grants (time ns, permits): {g:?}")));
                        }
                    }
                }
                let horizon: i128 = 4 * 1_001_000_001 * 1_000_000_000;
                let granted: i128 = g.iter().map(|x| x.1 as i128).sum();
                let due = (burst as i128 + horizon / r).min((calls * per_call) as i128) / per_call as i128 * per_call as i128;
                if granted + (per_call as i128) <= due - per_call as i128 {
                    return (n, waited_forever, Some(format!("limiter with burst {burst} and refresh period {pname}: only {granted} permits were granted within {horizon} ns although {due} were due; grants {g:?}")));
                }
                if (g.len()) < calls {
                    waited_forever += 1;
                }
            }
        }
    }
    (n, waited_forever, None)
}

/// Differential scripts for "a cancelled wait consumes nothing": B's grant time with a cancelled
/// waiter C in between must equal B's grant time without C.
fn cancel_scripts() -> (u64, Option<String>) {
    let mut n = 0;
    for burst in 1..=3usize {
        for pa in 1..=burst {
            for pc in 1..=burst {
                for pb in 1..=burst {
                    for hold_steps in 0..3u32 {
                        for cancel_after in 0..3u32 {
                            let run = |with_c: bool| -> Option<i64> {
                                let out: Arc<Mutex<Option<i64>>> = Default::default();
                                let o2 = out.clone();
                                let ch = core::Chooser::new(vec![], None);
                                sched::run(&ch, |idle| async move {
                                    let clock = ctx::ManualClock::new();
                                    let root = ctx::test_root(&clock);
                                    let t0 = root.now();
                                    let lim = limiter::Limiter::new(&root, limiter::Rate { burst, refresh: time::Duration::milliseconds(R_MS) });
                                    let (lim, root, clock, idle_ref, o2) = (&lim, &root, &clock, &idle, &o2);
                                    let cancel_c = sync::Notify::new();
                                    let start_b = sync::Notify::new();
                                    let release_a = sync::Notify::new();
                                    let (cancel_c, start_b, release_a) = (&cancel_c, &start_b, &release_a);
                                    let fut = async move {
                                        scope::run!(root, |ctx, s| async move {
                                            s.spawn(async move {
                                                let p = lim.acquire(ctx, pa).await?;
                                                sync::notified(ctx, release_a).await?;
                                                drop(p);
                                                anyhow::Ok(())
                                            });
                                            if with_c {
                                                s.spawn(async move {
                                                    // C waits inside a scope that gets cancelled
                                                    let _ = scope::run!(ctx, |ctx, s| async move {
                                                        s.spawn_bg(async move {
                                                            let _p = lim.acquire(ctx, pc).await?;
                                                            // if it was granted before the cancellation it is released at once
                                                            anyhow::Ok(())
                                                        });
                                                        sync::notified(ctx, cancel_c).await?;
                                                        anyhow::Ok(())
                                                    })
                                                    .await;
                                                    anyhow::Ok(())
                                                });
                                            }
                                            s.spawn(async move {
                                                sync::notified(ctx, start_b).await?;
                                                let _p = lim.acquire(ctx, pb).await?;
                                                *o2.lock().unwrap() = Some((ctx.now() - t0).whole_milliseconds() as i64);
                                                anyhow::Ok(())
                                            });
                                            s.spawn_bg(async move {
                                                // script: [hold_steps clock steps] release A ... cancel C after `cancel_after` steps, then start B, then run the clock
                                                for step in 0..30u32 {
                                                    idle_ref.settle().await;
                                                    if step == cancel_after {
                                                        cancel_c.notify_one();
                                                    }
                                                    if step == hold_steps {
                                                        release_a.notify_one();
                                                    }
                                                    if step == 3 {
                                                        start_b.notify_one();
                                                    }
                                                    clock.advance(time::Duration::milliseconds(R_MS / 2));
                                                }
                                                anyhow::Ok(())
                                            });
                                            anyhow::Ok(())
                                        })
                                        .await
                                    };
                                    let _ = sched::drive(&idle, fut, |k| k < 200).await;
                                });
                                let r = *out.lock().unwrap();
                                r
                            };
                            n += 2;
                            let (with_c, without_c) = (run(true), run(false));
                            // C, if granted before being cancelled, legitimately consumes permits; only a
                            // C that was still waiting when cancelled must leave no trace. C is waiting iff
                            // pa + pc > burst at cancel time (A still holds) - restrict to those scripts.
                            let c_was_waiting = pa + pc > burst && cancel_after <= hold_steps;
                            if c_was_waiting && with_c != without_c {
                                return (n, Some(format!("a cancelled wait left a trace: with burst {burst}, A holding {pa} permits, C asking for {pc} and cancelled while waiting (after {cancel_after} steps), B asking for {pb}: B is granted at {with_c:?} ms, but at {without_c:?} ms when C never asked")));
                            }
                        }
                    }
                }
            }
        }
    }
    (n, None)
}

/// (b) RPC server with a counting handler vs a greedy client.
fn rpc_run(ch: &Ch, burst: usize, idle_s: i64, calls: usize) -> ExecResult {
    let starts: Arc<Mutex<Vec<i64>>> = Default::default();
    let active_max: Arc<Mutex<(i32, i32)>> = Default::default();
    let (s2, am2) = (starts.clone(), active_max.clone());
    let done: Arc<Mutex<usize>> = Default::default();
    let d2 = done.clone();
    sched::run(ch, |idle| async move {
        let clock = ctx::ManualClock::new();
        let root = ctx::test_root(&clock);
        let t0 = root.now();
        let (pa, pb) = pipe::pair();
        let client = nv::VRpcClient::new(&root, limiter::Rate::INF);
        let (client, root, clock, idle_ref, starts, done) = (&client, &root, &clock, &idle, &s2, &d2);
        let rate = limiter::Rate { burst, refresh: time::Duration::milliseconds(R_MS) };
        let fut = async move {
            scope::run!(root, |ctx, s| async move {
                let st = starts.clone();
                s.spawn_bg(async move {
                    let _ = nv::run_counting_server(ctx, pa, rate, Arc::new(move |now| st.lock().unwrap().push((now - t0).whole_milliseconds() as i64))).await;
                    anyhow::Ok(())
                });
                s.spawn_bg(async move {
                    let _ = client.run(ctx, pb).await;
                    anyhow::Ok(())
                });
                s.spawn(async move {
                    // warm-up: one call, then the connection idles, then a burst of concurrent calls
                    let _ = client.call(ctx, 0).await;
                    idle_ref.settle().await;
                    clock.advance(time::Duration::seconds(idle_s));
                    idle_ref.settle().await;
                    scope::run!(ctx, |ctx, s| async move {
                        for k in 0..calls {
                            s.spawn(async move {
                                if client.call(ctx, k as u64 + 1).await.is_ok() {
                                    *done.lock().unwrap() += 1;
                                }
                                anyhow::Ok(())
                            });
                        }
                        // clock environment while the burst is served
                        s.spawn_bg(async move {
                            for _ in 0..(4 * calls as u32 + 20) {
                                idle_ref.settle().await;
                                clock.advance(time::Duration::milliseconds(R_MS / 2));
                            }
                            anyhow::Ok(())
                        });
                        anyhow::Ok(())
                    })
                    .await
                });
                anyhow::Ok(())
            })
            .await
        };
        let _ = am2;
        let _ = sched::drive(&idle, fut, |k| k < 2000).await;
    });
    let st = starts.lock().unwrap().clone();
    let grants: Vec<(i64, usize)> = st.iter().map(|t| (*t, 1usize)).collect();
    let mut violation = window_violation(&grants, burst).map(|v| format!("RPC server (rate burst {burst} / {R_MS} ms, INFLIGHT {}): handler starts violate the rate limit after the connection idled {idle_s}s: {v}", nv::COUNTING_RPC_INFLIGHT));
    let d = *done.lock().unwrap();
    if violation.is_none() && d != calls {
        violation = Some(format!("only {d} of {calls} calls completed although the clock kept advancing (handler starts at {st:?})"));
    }
    ExecResult { obs: fx_hash(&st), violation, nontrivial: true, witnesses: vec![("handler_starts", st.len() as u64)] }
}

pub fn run(args: &Args) -> Report {
    let mut rep = Report::new("C15", "model_checking");
    // (burst, permits per task, hold steps per task, acquisitions per task)
    let limiter_cfgs: Vec<(usize, Vec<usize>, Vec<u32>, u32)> = vec![
        (1, vec![1, 1, 1], vec![0, 1, 0], 1),
        (2, vec![1, 2, 1], vec![1, 0, 2], 1),
        (2, vec![2, 2], vec![0, 0], 1),
        (3, vec![2, 3, 1], vec![2, 0, 0], 1),
        (3, vec![1, 1, 1], vec![0, 0, 0], 1),
        // a holder that keeps a permit reserved across clock steps next to callers that come back
        (2, vec![1, 1, 1], vec![2, 0, 0], 3),
        (3, vec![1, 2], vec![1, 0], 4),
        // burst large enough that a refresh interval credited twice (3 periods) is not hidden by the
        // cap, and enough callers to drain it within the window
        (6, vec![1, 1, 1], vec![1, 0, 0], 6),
    ];
    let rpc_cfgs: Vec<(usize, i64, usize)> = vec![(2, 100, 9), (3, 10, 8), (1, 0, 4)];
    let devs_of = |rp: &serde_json::Value| -> core::Deviations { rp["deviations"].as_array().map(|a| a.iter().map(|p| (p[0].as_u64().unwrap() as u32, p[1].as_u64().unwrap() as u32)).collect()).unwrap_or_default() };
    if let Some(r) = &args.replay {
        let rp = &r["replay"];
        if super::gossipnet::replay_fetch(&mut rep, args.seed, rp, &[]) {
            return rep;
        }
        let c = &rp["config"];
        let (res, div) = if c["kind"] == "limiter" {
            let l = &limiter_cfgs[c["index"].as_u64().unwrap_or(0) as usize];
            core::replay_one(&|ch: &Ch| limiter_run(ch, l.0, &l.1, &l.2, l.3), devs_of(rp))
        } else if c["kind"] == "rpc" {
            let l = rpc_cfgs[c["index"].as_u64().unwrap_or(0) as usize];
            core::replay_one(&|ch: &Ch| rpc_run(ch, l.0, l.1, l.2), devs_of(rp))
        } else if c["kind"] == "extreme" {
            let (_, _, v) = extreme_rates();
            (ExecResult { violation: v, ..Default::default() }, None)
        } else {
            let (_, v) = cancel_scripts();
            (ExecResult { violation: v, ..Default::default() }, None)
        };
        if let Some(d) = div {
            rep.machinery_errors.push(d);
        }
        if let Some(v) = res.violation {
            rep.violations.push(Violation { key: "replay".into(), what: v, replay: rp.clone() });
        }
        return rep;
    }
    let budget = Duration::from_secs(args.tier.pick(45, 1200));
    let t0 = std::time::Instant::now();
    let (mut execs, mut points, mut distinct) = (0u64, 0u64, 0u64);
    let mut stats = vec![];
    let mut capped = false;
    let mut waited = 0;
    for (i, l) in limiter_cfgs.iter().enumerate() {
        let cfg = ExploreCfg::new(&format!("limiter[burst {} permits {:?} holds {:?} x{}]", l.0, l.1, l.2, l.3), args.tier.pick(3, 5), budget.saturating_sub(t0.elapsed()) / 8);
        let st = explore(&cfg, |ch| limiter_run(ch, l.0, &l.1, &l.2, l.3));
        execs += st.execs;
        points += st.choice_points;
        distinct += st.distinct_obs;
        capped |= st.capped;
        waited += *st.witnesses.get("grants_after_waiting").unwrap_or(&0);
        rep.absorb("c15", &st, json!({"kind": "limiter", "index": i}));
        stats.push(st.to_json());
    }
    // too many permits / infinite rate
    {
        let ch = core::Chooser::new(vec![], None);
        let r: (bool, bool) = sched::run(&ch, |idle| async move {
            let clock = ctx::ManualClock::new();
            let root = ctx::test_root(&clock);
            let lim = limiter::Limiter::new(&root, limiter::Rate { burst: 2, refresh: time::Duration::milliseconds(R_MS) });
            let inf = limiter::Limiter::new(&root, limiter::Rate::INF);
            let c = root.with_timeout(time::Duration::seconds(5));
            let idle = &idle;
            let clock = &clock;
            let too_many = {
                let f = lim.acquire(&c, 3);
                let mut f = Box::pin(f);
                let mut res = None;
                for _ in 0..5 {
                    tokio::select! {
                        biased;
                        r = &mut f => { res = Some(r.is_err()); break; }
                        _ = idle.settle() => { clock.advance(time::Duration::seconds(2)); }
                    }
                }
                res.unwrap_or(false)
            };
            let mut ok = true;
            for _ in 0..1000 {
                ok &= inf.acquire(&root, 1_000_000).await.is_ok();
            }
            (too_many, ok)
        });
        execs += 1;
        if !r.0 {
            rep.violations.push(Violation { key: "too_many_permits".into(), what: "acquire(burst+1) did not end with Canceled when the caller's context was cancelled".into(), replay: json!({"harness":"c15-misc"}) });
        }
        if !r.1 {
            rep.violations.push(Violation { key: "infinite_rate".into(), what: "the infinite-rate limiter refused a permit".into(), replay: json!({"harness":"c15-misc"}) });
        }
    }
    let (nextreme, extreme_waiting, ev) = extreme_rates();
    if let Some(v) = ev {
        rep.violations.push(Violation { key: "extreme_rate".into(), what: v, replay: json!({"harness":"c15", "config": {"kind": "extreme"}, "deviations": []}) });
    } else if extreme_waiting == 0 {
        rep.machinery_errors.push("vacuous: no extreme-rate configuration ever made a caller wait beyond the horizon".into());
    }
    let (nscripts, cv) = cancel_scripts();
    if let Some(v) = cv {
        rep.violations.push(Violation { key: "cancel_consumes".into(), what: v, replay: json!({"harness":"c15", "config": {"kind": "cancel"}, "deviations": []}) });
    }
    let mut starts = 0;
    for (i, l) in rpc_cfgs.iter().enumerate() {
        let cfg = ExploreCfg::new(&format!("rpc[burst {} idle {}s calls {}]", l.0, l.1, l.2), args.tier.pick(0, 1), budget.saturating_sub(t0.elapsed()) / 2);
        let st = explore(&cfg, |ch| rpc_run(ch, l.0, l.1, l.2));
        execs += st.execs;
        points += st.choice_points;
        distinct += st.distinct_obs;
        capped |= st.capped;
        starts += *st.witnesses.get("handler_starts").unwrap_or(&0);
        rep.absorb("c15", &st, json!({"kind": "rpc", "index": i}));
        stats.push(st.to_json());
    }
    if rep.violations.is_empty() && (waited == 0 || starts == 0) {
        rep.machinery_errors.push(format!("vacuous: grants_after_waiting={waited} handler_starts={starts}"));
    }
    // the rate a node's get_block server enforces is the one configured for that RPC kind (gossip/runner.rs)
    let net_cov = super::gossipnet::report_rates(&mut rep, args.seed);
    rep.coverage = json!({
        "configured_rate_on_a_real_network": net_cov,
        "states": execs, "transitions": points, "traces_validated_against_impl": execs,
        "evaluations": execs + nscripts + nextreme, "distinct_nontrivial": distinct,
        "samples": [
            {"limiter": {"burst": 2, "permits": [1,2,1], "holds": [1,0,2]}, "environment": "clock advanced by r, r/2 or 3r at every quiescent point (choice)"},
            {"rpc": {"burst": 2, "idle_s": 100, "concurrent_calls": 9}},
        ],
        "rule": "a state is one complete execution (schedule + clock steps); limiter drivers: all executions within the deviation bound; cancel scripts: full enumeration of (burst, permits of A/C/B, hold, cancel time) with and without the cancelled waiter; RPC drivers: default schedule (quick) / bound 1 (thorough) of a real Service pair over an in-memory pipe",
        "limiter_deviation_bound": args.tier.pick(3, 5),
        "cancel_scripts": nscripts,
        "extreme_rate_configurations": nextreme, "extreme_rate_configurations_with_a_caller_still_waiting_at_the_horizon": extreme_waiting,
        "exhaustive": !capped, "capped_by_time_budget": capped,
        "witness_grants_after_waiting": waited, "witness_rpc_handler_starts": starts,
        "explorations": stats,
    });
    rep.assumptions = vec!["time is the manual clock; the refresh period is 1000 ms in every explored configuration; periods from 1 ns to Duration::MAX only in the sequential extreme-rate part".into(), "the RPC part runs ~40 internal tasks; only shallow schedule exploration is affordable there".into()];
    rep
}
