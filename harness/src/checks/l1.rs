//! L1 search: ONE real replica against a fully adversarial environment that holds every other key
//! of the committee K4 = weights [2,2,1,1] (the replica under test has weight 1, so the other three
//! keys reach the quorum on their own and any certificate can be fabricated).
//! Breadth-first search over (local state, signed-log summary) with a finite input alphabet;
//! every transition runs the real handlers (bftsim::step). Used by C03, C05 and C16.
use std::collections::{BTreeMap, HashMap, HashSet};

use zksync_consensus_roles::validator::{self, v2, Payload};

use super::util;
use crate::{
    bftmsgs::{self, acqc, atqc, avote, AVote},
    bftsim::{self, Crash, Input, Local, Policy, SignedMsg, StepOut, World},
    core::{fx_hash, par_map},
};

pub struct L1Cfg {
    /// views after the bootstrap view 0 that the alphabet addresses
    pub max_view: u64,
    /// inject a crash at every durable write (both outcomes) of every accepted step
    pub crashes: bool,
    /// add the flood alphabet (votes for far-future views)
    pub flood: bool,
    /// full alphabet (all certificate classes / payloads) or the reduced one
    pub full: bool,
    /// minimal alphabet (one certificate class per kind and view) for the deep pass
    pub narrow: bool,
    pub max_states: usize,
    pub deadline: std::time::Instant,
    pub seed: u64,
}

/// Summary of everything signed with the replica's key along the path (all incarnations).
#[derive(Clone, Debug, Default, PartialEq, Eq, Hash)]
pub struct SignedLog {
    /// view -> the commit vote signed in it
    pub commits: BTreeMap<u64, (u64, u64)>,
    pub max_timeout_view: Option<u64>,
    pub last_vote_view: Option<u64>,
}

#[derive(Clone)]
pub struct Node {
    pub local: Local,
    pub log: SignedLog,
    pub depth: u32,
    /// how this state was reached (input descriptions)
    pub path: Vec<String>,
}

pub struct Edge<'a> {
    pub from: &'a Node,
    pub input_desc: &'a str,
    pub input: &'a InputKind,
    pub out: &'a StepOut,
    pub to_log: &'a SignedLog,
}

#[derive(Clone, Debug)]
pub enum InputKind {
    Step(Input, Policy),
    /// the process restarts from its durable image
    Restart,
}

#[derive(Default)]
pub struct L1Result {
    pub states: usize,
    pub transitions: usize,
    pub max_depth: u32,
    pub completed_depth: u32,
    pub fixed_point: bool,
    pub capped: bool,
    pub accepted_steps: usize,
    pub rejected_steps: usize,
    pub crash_steps: usize,
    pub blocked_steps: usize,
    pub view_reached: u64,
    pub blocks_stored: usize,
    pub max_cache: (usize, usize, usize, usize),
    pub violations: Vec<(String, String, serde_json::Value)>,
    pub samples: Vec<String>,
    pub outcome_classes: BTreeMap<String, usize>,
}

pub fn world(seed: u64) -> (World, usize) {
    world_fb(seed, 0)
}

/// The same world on a chain whose genesis starts at block `first_block` (the replica's store starts there).
pub fn world_fb(seed: u64, first_block: u64) -> (World, usize) {
    let c = util::committee_fb(seed, &[2, 2, 1, 1], first_block);
    // replica under test: the first weight-1 validator in schedule order
    let r = c.weights.iter().position(|w| *w == 1).unwrap();
    (World { c, proposals: vec![Payload(vec![0x58]), Payload(vec![0x58, 1])], invalid_payload: Payload(vec![0xBA, 0xD0]) }, r)
}

pub fn key_of_local(w: &World, l: &Local) -> u64 {
    let idx = |k: &validator::PublicKey| w.c.keys.iter().position(|x| x.public() == *k).map(|i| i as i32).unwrap_or(-1);
    let snap = |s: &zksync_consensus_bft::verif::Snapshot| {
        let props: Vec<(u64, Vec<u64>)> = s.proposals.iter().map(|(n, v)| (n.0, { let mut x: Vec<u64> = v.iter().map(|p| bftmsgs::ph(&p.hash())).collect(); x.sort(); x })).collect();
        // Entries for views below the current one are dead: votes for those views are refused as
        // `Old` before the caches are consulted, and a cached view below the current one never
        // makes a newer vote a duplicate. Dropping them merges only states with identical futures.
        let cur = s.view_number.0;
        let cv: Vec<(i32, u64)> = { let mut x: Vec<_> = s.commit_views_cache.iter().filter(|(_, v)| v.0 >= cur).map(|(k, v)| (idx(k), v.0)).collect(); x.sort(); x };
        let tv: Vec<(i32, u64)> = { let mut x: Vec<_> = s.timeout_views_cache.iter().filter(|(_, v)| v.0 >= cur).map(|(k, v)| (idx(k), v.0)).collect(); x.sort(); x };
        let cq: Vec<(u64, Vec<(AVote, Vec<bool>)>)> = s.commit_qcs_cache.iter().filter(|(v, _)| v.0 >= cur).map(|(v, m)| (v.0, { let mut x: Vec<_> = m.iter().map(|(k, q)| (avote(k), q.signers.0.iter().collect::<Vec<bool>>())).collect(); x.sort(); x })).collect();
        let tq: Vec<(u64, bftmsgs::ATqc)> = s.timeout_qcs_cache.iter().filter(|(v, _)| v.0 >= cur).map(|(v, q)| (v.0, atqc(q))).collect();
        format!("{}|{:?}|{:?}|{:?}|{:?}|{props:?}|{cv:?}|{tv:?}|{cq:?}|{tq:?}", s.view_number.0, s.phase, s.high_vote.as_ref().map(avote), s.high_commit_qc.as_ref().map(acqc), s.high_timeout_qc.as_ref().map(atqc))
    };
    let validator::ReplicaState::V2(d) = &l.durable;
    let dprops: Vec<(u64, u64)> = { let mut x: Vec<_> = d.proposals.iter().map(|p| (p.number.0, bftmsgs::ph(&p.payload.hash()))).collect(); x.sort(); x };
    let dur = format!("{}|{:?}|{:?}|{:?}|{:?}|{dprops:?}", d.view_number.0, d.phase, d.high_vote.as_ref().map(avote), d.high_commit_qc.as_ref().map(acqc), d.high_timeout_qc.as_ref().map(atqc));
    let blocks: Vec<(u64, u64)> = l.blocks.iter().map(|b| (b.number().0, bftmsgs::ph(&b.payload.hash()))).collect();
    fx_hash(&(snap(&l.snap), dur, blocks))
}

/// Updates the signed log with the messages sent in a step; returns a C03 violation if any.
pub fn update_log(w: &World, r: usize, log: &mut SignedLog, sent: &[SignedMsg]) -> Option<String> {
    let me = w.c.keys[r].public();
    let mut bad = None;
    for m in sent {
        if m.key != me {
            continue;
        }
        let validator::ConsensusMsg::V2(x) = &m.msg;
        match x {
            v2::ChonkyMsg::ReplicaCommit(c) => {
                let a = avote(c);
                if let Some(prev) = log.commits.get(&a.view) {
                    if *prev != (a.number, a.hash) {
                        bad.get_or_insert(format!("signed two different commit votes for view {}: block {:?} and block {:?}", a.view, prev, (a.number, a.hash)));
                    }
                }
                if let Some(t) = log.max_timeout_view {
                    if a.view <= t {
                        bad.get_or_insert(format!("signed a commit vote for view {} after having signed a timeout vote for view {t}", a.view));
                    }
                }
                if let Some(l) = log.last_vote_view {
                    if a.view < l {
                        bad.get_or_insert(format!("signed a commit vote for view {} after a vote for view {l} (views go backwards)", a.view));
                    }
                }
                log.commits.insert(a.view, (a.number, a.hash));
                log.last_vote_view = Some(log.last_vote_view.unwrap_or(0).max(a.view));
            }
            v2::ChonkyMsg::ReplicaTimeout(t) => {
                let v = t.view.number.0;
                if let Some(l) = log.last_vote_view {
                    if v < l {
                        bad.get_or_insert(format!("signed a timeout vote for view {v} after a vote for view {l} (views go backwards)"));
                    }
                }
                log.max_timeout_view = Some(log.max_timeout_view.unwrap_or(0).max(v));
                log.last_vote_view = Some(log.last_vote_view.unwrap_or(0).max(v));
            }
            _ => {}
        }
    }
    bad
}

/// The finite input alphabet (independent of the state).
pub fn alphabet(w: &World, r: usize, cfg: &L1Cfg) -> Vec<(String, Input)> {
    let env: Vec<usize> = (0..w.n()).filter(|i| *i != r).collect();
    let full_mask: u32 = env.iter().fold(0, |m, i| m | 1 << i);
    let (px, py) = (w.proposals[0].clone(), w.proposals[1].clone());
    let pays: Vec<(&str, Payload)> = if cfg.full { vec![("X", px.clone()), ("Y", py.clone())] } else { vec![("X", px.clone())] };
    let vmax = cfg.max_view;
    let mut out: Vec<(String, Input)> = vec![];
    // certificates
    let mut cqs: Vec<(String, v2::CommitQC)> = vec![];
    for v in 0..=vmax {
        for n in 0..=1u64 {
            for (pn, p) in &pays {
                if !cfg.full && n == 1 && v == 0 {
                    continue;
                }
                if cfg.narrow && (n != v.saturating_sub(1).min(1) || v == 0) {
                    continue;
                }
                cqs.push((format!("CQ(v{v},b{n},{pn})"), w.commit_qc(&w.commit_vote(v, n, p), full_mask)));
            }
        }
    }
    let mut tqs: Vec<(String, v2::TimeoutQC)> = vec![];
    for v in 0..=vmax {
        let all = |t: &v2::ReplicaTimeout| env.iter().map(|i| (*i, t.clone())).collect::<Vec<_>>();
        tqs.push((format!("TQ(v{v},plain)"), w.timeout_qc(v, &all(&w.timeout_vote(v, None, None)))));
        if v >= 1 && !(cfg.narrow && v > 1) {
            tqs.push((format!("TQ(v{v},highvote b0 X)"), w.timeout_qc(v, &all(&w.timeout_vote(v, Some(w.commit_vote(v, 0, &px)), None)))));
            let hq = w.commit_qc(&w.commit_vote(v - 1, 0, &px), full_mask);
            if !cfg.narrow {
                tqs.push((format!("TQ(v{v},highqc b0 X)"), w.timeout_qc(v, &all(&w.timeout_vote(v, None, Some(hq.clone()))))));
            }
            if cfg.full {
                tqs.push((format!("TQ(v{v},highvote b0 Y)"), w.timeout_qc(v, &all(&w.timeout_vote(v, Some(w.commit_vote(v, 0, &py)), None)))));
                tqs.push((format!("TQ(v{v},highvote b1 X + highqc b0 X)"), w.timeout_qc(v, &all(&w.timeout_vote(v, Some(w.commit_vote(v, 1, &px)), Some(hq.clone()))))));
                // split high votes: no sub-quorum for either block
                let split: Vec<(usize, v2::ReplicaTimeout)> = env.iter().enumerate().map(|(k, i)| (*i, w.timeout_vote(v, Some(w.commit_vote(v, 0, if k == 0 { &px } else { &py })), None))).collect();
                tqs.push((format!("TQ(v{v},split high votes)"), w.timeout_qc(v, &split)));
            }
        }
    }
    let mut justs: Vec<(String, v2::ProposalJustification)> = vec![];
    for (n, q) in &cqs {
        justs.push((n.clone(), v2::ProposalJustification::Commit(q.clone())));
    }
    for (n, q) in &tqs {
        justs.push((n.clone(), v2::ProposalJustification::Timeout(q.clone())));
    }
    for (jn, j) in &justs {
        let view = j.view().number.0;
        let leader = w.leader(view);
        if leader != r {
            let mut popts: Vec<(&str, Option<Payload>)> = vec![("no payload", None), ("payload X", Some(px.clone()))];
            if cfg.full {
                popts.push(("payload Y", Some(py.clone())));
            }
            for (pn, p) in popts {
                out.push((format!("proposal[{jn}, {pn}] from the leader"), Input::Msg(w.proposal(leader, j, p))));
            }
        } else {
            out.push((format!("own proposer runs for [{jn}]"), Input::Propose(j.clone())));
        }
        out.push((format!("new-view[{jn}] from v{}", env[0]), Input::Msg(w.new_view(env[0], j))));
        if leader != r && leader != env[0] {
            out.push((format!("new-view[{jn}] from the leader v{leader}"), Input::Msg(w.new_view(leader, j))));
        }
    }
    // votes
    for v in 1..=vmax + 1 {
        let mut contents = vec![("b0 X", w.commit_vote(v, 0, &px))];
        if cfg.full {
            contents.push(("b0 Y", w.commit_vote(v, 0, &py)));
            contents.push(("b1 X", w.commit_vote(v, 1, &px)));
        }
        for (cn, c) in contents {
            for i in &env {
                out.push((format!("commit vote(v{v},{cn}) from v{i}"), Input::Msg(w.signed_commit(*i, &c))));
            }
        }
    }
    for v in 0..=vmax + 1 {
        let mut contents = vec![("plain", w.timeout_vote(v, None, None))];
        if v >= 1 {
            contents.push(("highvote b0 X", w.timeout_vote(v, Some(w.commit_vote(v, 0, &px)), None)));
            if cfg.full {
                contents.push(("highqc b0 X", w.timeout_vote(v, None, Some(w.commit_qc(&w.commit_vote(v - 1, 0, &px), full_mask)))));
            }
        }
        for (cn, c) in contents {
            for i in &env {
                out.push((format!("timeout vote(v{v},{cn}) from v{i}"), Input::Msg(w.signed_timeout(*i, &c))));
            }
        }
    }
    // rejection representatives
    {
        let j = &justs[justs.len() - 1].1;
        let view = j.view().number.0;
        let leader = w.leader(view);
        let wrong = env.iter().copied().find(|i| *i != leader).unwrap();
        out.push(("proposal from a validator that is not the leader".into(), Input::Msg(w.proposal(wrong, j, Some(px.clone())))));
        if leader != r {
            out.push(("proposal with a payload the execution layer refuses".into(), Input::Msg(w.proposal(leader, j, Some(w.invalid_payload.clone())))));
            out.push(("proposal with an oversized payload".into(), Input::Msg(w.proposal(leader, j, Some(Payload(vec![7; bftsim::MAX_PAYLOAD + 1]))))));
            let mut bad = w.proposal(leader, j, Some(px.clone()));
            bad.sig = w.new_view(leader, j).sig;
            out.push(("proposal with a bad signature".into(), Input::Msg(bad)));
        }
        let outsider = util::validator_keys(0xdead, 1).pop().unwrap();
        out.push(("commit vote from a non-member".into(), Input::Msg(bftmsgs::signed(&outsider, v2::ChonkyMsg::ReplicaCommit(w.commit_vote(vmax, 0, &px))))));
        out.push(("timeout vote from a non-member".into(), Input::Msg(bftmsgs::signed(&outsider, v2::ChonkyMsg::ReplicaTimeout(w.timeout_vote(vmax, None, None))))));
        out.push(("new-view from a non-member".into(), Input::Msg(bftmsgs::signed(&outsider, v2::ChonkyMsg::ReplicaNewView(v2::ReplicaNewView { justification: j.clone() })))));
        // under-weight certificate
        let weak = w.commit_qc(&w.commit_vote(vmax, 0, &px), 1 << env[0]);
        out.push(("new-view carrying an under-weight commit certificate".into(), Input::Msg(w.new_view(env[0], &v2::ProposalJustification::Commit(weak)))));
        // certificates that do not verify (one signer, weight below the quorum), for EVERY view and in every
        // carrier: whatever state the replica is in - also when the message is for its current view and comes
        // from that view's leader - they must be refused and must leave no trace
        for v in 0..=vmax {
            let weak_c = w.commit_qc(&w.commit_vote(v, 0, &px), 1 << env[0]);
            let weak_t = w.timeout_qc(v, &[(env[0], w.timeout_vote(v, None, None))]);
            let leader = w.leader(v + 1);
            for (jn, j) in [(format!("under-weight CQ(v{v},b0,X)"), v2::ProposalJustification::Commit(weak_c.clone())), (format!("under-weight TQ(v{v},plain)"), v2::ProposalJustification::Timeout(weak_t.clone()))] {
                let sender = if leader != r { leader } else { env[0] };
                out.push((format!("new-view[{jn}] from v{sender} (does not verify)"), Input::Msg(w.new_view(sender, &j))));
                if cfg.narrow {
                    continue;
                }
                if let Some(other) = env.iter().copied().find(|i| *i != sender) {
                    out.push((format!("new-view[{jn}] from v{other} (does not verify)"), Input::Msg(w.new_view(other, &j))));
                }
                if leader != r {
                    out.push((format!("proposal[{jn}, payload X] from the leader (does not verify)"), Input::Msg(w.proposal(leader, &j, Some(px.clone())))));
                }
            }
            if !cfg.narrow {
                out.push((format!("timeout vote(v{},highqc under-weight CQ(v{v})) from v{} (does not verify)", v + 1, env[0]), Input::Msg(w.signed_timeout(env[0], &w.timeout_vote(v + 1, None, Some(weak_c.clone()))))));
            }
        }
        // other epoch
        let mut ov = w.commit_vote(vmax, 0, &px);
        ov.view.epoch = validator::EpochNumber(1);
        out.push(("commit vote of another epoch".into(), Input::Msg(w.signed_commit(env[0], &ov))));
    }
    if cfg.flood {
        // the flood comes from validators holding at most f weight (here: one weight-1 validator)
        let f = w.c.max_faulty();
        let flooders: Vec<usize> = env.iter().copied().filter(|i| w.c.weights[*i] <= f).take(1).collect();
        for v in [vmax + 5, vmax + 6, vmax + 7, u64::MAX - 1, u64::MAX] {
            for i in &flooders {
                out.push((format!("commit vote(v{v},b0 X) from v{i} [flood]"), Input::Msg(w.signed_commit(*i, &w.commit_vote(v, 0, &px)))));
                out.push((format!("timeout vote(v{v},plain) from v{i} [flood]"), Input::Msg(w.signed_timeout(*i, &w.timeout_vote(v, None, None)))));
            }
        }
    }
    out.push(("view timer fires".into(), Input::Timeout));
    // block sync
    out.push(("block sync delivers (b0,X)".into(), Input::Sync(w.final_block(&px, &w.commit_qc(&w.commit_vote(1, 0, &px), full_mask)))));
    if cfg.full {
        out.push(("block sync delivers (b0,Y)".into(), Input::Sync(w.final_block(&py, &w.commit_qc(&w.commit_vote(1, 0, &py), full_mask)))));
        out.push(("block sync delivers (b1,X)".into(), Input::Sync(w.final_block(&px, &w.commit_qc(&w.commit_vote(2, 1, &px), full_mask)))));
    }
    out
}

fn outcome_class(o: &StepOut) -> String {
    if o.crashed {
        return "crash".into();
    }
    if o.blocked {
        return "blocked".into();
    }
    match &o.outcome {
        Some(Ok(())) => "accepted".into(),
        Some(Err(e)) => e.split(|c: char| !c.is_alphanumeric()).next().unwrap_or("Err").to_string(),
        None => "none".into(),
    }
}

/// Breadth-first search. `check_edge` is the property oracle (returns violations).
pub fn explore(w: &World, r: usize, cfg: &L1Cfg, check_edge: &(dyn Fn(&Edge) -> Vec<(String, String)> + Sync)) -> L1Result {
    explore_alphabet(w, r, cfg, alphabet(w, r, cfg), check_edge)
}

/// The vote-by-vote alphabet: commit votes for block (0, X) and plain timeout votes of every other
/// validator for the current and future views, and the view timer. Certificates (also for FUTURE
/// views) then form inside the replica, vote by vote, within three steps.
pub fn votes_alphabet(w: &World, r: usize, cfg: &L1Cfg) -> Vec<(String, Input)> {
    alphabet(w, r, cfg)
        .into_iter()
        .filter(|(d, _)| {
            (d.starts_with("commit vote(") && d.contains(",b0 X)") || d.starts_with("timeout vote(") && d.contains(",plain)") || d == "view timer fires") && !d.contains("[flood]") && !d.contains("non-member")
        })
        .collect()
}

/// Same search over a caller-supplied alphabet (replays use the full alphabet, a superset).
pub fn explore_alphabet(w: &World, r: usize, cfg: &L1Cfg, alpha: Vec<(String, Input)>, check_edge: &(dyn Fn(&Edge) -> Vec<(String, String)> + Sync)) -> L1Result {
    // finalized blocks that block sync may deliver while a handler waits
    let env: Vec<usize> = (0..w.n()).filter(|i| *i != r).collect();
    let full_mask: u32 = env.iter().fold(0, |m, i| m | 1 << i);
    let sync_pool = vec![w.final_block(&w.proposals[0], &w.commit_qc(&w.commit_vote(1, 0, &w.proposals[0]), full_mask))];
    let mut res = L1Result::default();
    let init = Node { local: Local::initial(), log: SignedLog::default(), depth: 0, path: vec![] };
    let mut seen: HashSet<(u64, u64)> = HashSet::new();
    seen.insert((key_of_local(w, &init.local), fx_hash(&init.log)));
    let mut frontier = vec![init];
    res.states = 1;
    let mut violations: HashMap<String, (String, serde_json::Value)> = HashMap::new();
    while !frontier.is_empty() {
        if std::time::Instant::now() > cfg.deadline || res.states >= cfg.max_states || crate::core::rss_bytes() > (std::env::var("VERIF_RSS_LIMIT_GB").ok().and_then(|s| s.parse().ok()).unwrap_or(24usize) << 30) {
            res.capped = true;
            break;
        }
        let depth = frontier[0].depth;
        // expand the whole level in parallel
        struct Exp {
            succ: Vec<(Node, (u64, u64))>,
            trans: usize,
            acc: usize,
            rej: usize,
            crash: usize,
            blocked: usize,
            viol: Vec<(String, String, Vec<String>)>,
            classes: BTreeMap<String, usize>,
            max_cache: (usize, usize, usize, usize),
        }
        let deadline = cfg.deadline;
        let rss_limit = std::env::var("VERIF_RSS_LIMIT_GB").ok().and_then(|s| s.parse().ok()).unwrap_or(24usize) << 30;
        let exps: Vec<Option<Exp>> = par_map(frontier.len(), |fi| {
            if std::time::Instant::now() > deadline || crate::core::rss_bytes() > rss_limit + (rss_limit >> 3) {
                return None;
            }
            let node = &frontier[fi];
            let mut e = Exp { succ: vec![], trans: 0, acc: 0, rej: 0, crash: 0, blocked: 0, viol: vec![], classes: BTreeMap::new(), max_cache: (0, 0, 0, 0) };
            let mut handle = |e: &mut Exp, desc: String, kind: InputKind, out: StepOut| {
                e.trans += 1;
                *e.classes.entry(outcome_class(&out)).or_default() += 1;
                if out.crashed {
                    e.crash += 1
                } else if out.blocked {
                    e.blocked += 1
                } else if matches!(out.outcome, Some(Ok(()))) {
                    e.acc += 1
                } else {
                    e.rej += 1
                }
                let s = &out.local.snap;
                e.max_cache.0 = e.max_cache.0.max(s.commit_views_cache.len());
                e.max_cache.1 = e.max_cache.1.max(s.timeout_views_cache.len());
                e.max_cache.2 = e.max_cache.2.max(s.commit_qcs_cache.values().map(|m| m.len()).sum::<usize>());
                e.max_cache.3 = e.max_cache.3.max(s.timeout_qcs_cache.len());
                let mut log = node.log.clone();
                let mut path = node.path.clone();
                path.push(desc.clone());
                if let Some(v) = update_log(w, r, &mut log, &out.sent) {
                    e.viol.push(("equivocation".into(), v, path.clone()));
                }
                if let Some(err) = &out.runner_error {
                    e.viol.push(("store".into(), format!("engine runner / store error: {err}"), path.clone()));
                }
                for (k, v) in check_edge(&Edge { from: node, input_desc: &desc, input: &kind, out: &out, to_log: &log }) {
                    e.viol.push((k, v, path.clone()));
                }
                let key = (key_of_local(w, &out.local), fx_hash(&log));
                // states already known are not kept (most refused inputs lead back to the same state);
                // `seen` is only read while a level is being expanded
                if !seen.contains(&key) {
                    e.succ.push((Node { local: out.local, log, depth: node.depth + 1, path }, key));
                }
            };
            for (desc, input) in &alpha {
                let pol = Policy { shutdown: false, crash: None, sync: sync_pool.clone() };
                let out = bftsim::step(w, r, &node.local, input, &pol);
                let n_writes = out.set_state_calls;
                let accepted = matches!(out.outcome, Some(Ok(())));
                handle(&mut e, desc.clone(), InputKind::Step(input.clone(), pol), out);
                if cfg.crashes && accepted {
                    for at in 0..n_writes {
                        for applied in [false, true] {
                            let pol = Policy { shutdown: false, crash: Some(Crash { at, applied, fail: false }), sync: sync_pool.clone() };
                            let out = bftsim::step(w, r, &node.local, input, &pol);
                            handle(&mut e, format!("{desc} -- CRASH at durable write #{at} ({})", if applied { "write applied" } else { "write lost" }), InputKind::Step(input.clone(), pol), out);
                        }
                        // the write fails with an I/O error instead (the process is not killed)
                        let pol = Policy { shutdown: false, crash: Some(Crash { at, applied: false, fail: true }), sync: sync_pool.clone() };
                        let out = bftsim::step(w, r, &node.local, input, &pol);
                        handle(&mut e, format!("{desc} -- WRITE ERROR at durable write #{at}"), InputKind::Step(input.clone(), pol), out);
                    }
                    if n_writes > 0 {
                        // the node shuts down while this input is being handled: the handler runs under a
                        // cancelled context, whatever it hands to the network leaves the node, the process exits
                        let pol = Policy { shutdown: true, crash: None, sync: sync_pool.clone() };
                        let out = bftsim::step(w, r, &node.local, input, &pol);
                        handle(&mut e, format!("{desc} -- SHUTDOWN while handling (context cancelled)"), InputKind::Step(input.clone(), pol), out);
                    }
                }
            }
            // plain restart
            // (the transcription only decides whether a restart can change anything at all)
            if node.local.restarted() != node.local {
                let (restarted, restart_failure) = match bftsim::try_real_restart(w, r, &node.local) {
                    Ok(l) => (l, None),
                    Err(e) => (node.local.restarted(), Some(e)),
                };
                if restarted != node.local.restarted() {
                    // informational: the real StateMachine::start restores something else than "all durable
                    // fields, empty caches"; consequences (if any) are for the property oracles to find
                    *e.classes.entry("restart differs from the harness's transcription".into()).or_default() += 1;
                }
                let out = StepOut { local: restarted, sent: vec![], outcome: Some(Ok(())), crashed: false, blocked: false, set_state_calls: 0, deadline_expired: false, synced_blocks: 0, published: None, runner_error: None, panicked: restart_failure };
                handle(&mut e, "process restarts".into(), InputKind::Restart, out);
            }
            Some(e)
        });
        let mut next = vec![];
        let mut level_complete = true;
        for e in exps {
            let Some(e) = e else {
                level_complete = false;
                continue;
            };
            res.transitions += e.trans;
            res.accepted_steps += e.acc;
            res.rejected_steps += e.rej;
            res.crash_steps += e.crash;
            res.blocked_steps += e.blocked;
            res.max_cache.0 = res.max_cache.0.max(e.max_cache.0);
            res.max_cache.1 = res.max_cache.1.max(e.max_cache.1);
            res.max_cache.2 = res.max_cache.2.max(e.max_cache.2);
            res.max_cache.3 = res.max_cache.3.max(e.max_cache.3);
            for (k, c) in e.classes {
                *res.outcome_classes.entry(k).or_default() += c;
            }
            for (k, v, path) in e.viol {
                violations.entry(k.clone()).or_insert_with(|| (format!("[{k}] {v}\n  path ({} steps): {}", path.len(), path.join("  ->  ")), serde_json::json!({"harness": "l1", "path": path, "first_block": w.c.genesis.first_block.0})));
            }
            for (n, key) in e.succ {
                if seen.insert(key) {
                    res.states += 1;
                    res.view_reached = res.view_reached.max(n.local.snap.view_number.0);
                    res.blocks_stored = res.blocks_stored.max(n.local.blocks.len());
                    res.max_depth = res.max_depth.max(n.depth);
                    if res.samples.len() < 3 && n.depth >= 3 {
                        res.samples.push(n.path.join(" -> "));
                    }
                    next.push(n);
                }
            }
        }
        if level_complete {
            res.completed_depth = depth + 1;
        } else {
            res.capped = true;
        }
        if !violations.is_empty() {
            break;
        }
        frontier = next;
        if frontier.is_empty() && level_complete {
            res.fixed_point = true;
        }
    }
    res.violations = violations.into_iter().map(|(k, (w, r))| (k, w, r)).collect();
    res
}

pub fn coverage_json(res: &L1Result, cfg: &L1Cfg, rule: &str) -> serde_json::Value {
    serde_json::json!({
        "states": res.states,
        "transitions": res.transitions,
        "traces_validated_against_impl": res.transitions,
        "samples": if res.samples.is_empty() { vec!["(initial state only)".to_string()] } else { res.samples.clone() },
        "evaluations": res.transitions,
        "distinct_nontrivial": res.states,
        "rule": rule,
        "max_view_in_alphabet": cfg.max_view,
        "full_alphabet": cfg.full,
        "exhaustive": res.fixed_point,
        "fixed_point_reached": res.fixed_point,
        "capped": res.capped,
        "completed_bfs_depth": res.completed_depth,
        "max_depth": res.max_depth,
        "accepted_steps": res.accepted_steps,
        "rejected_steps": res.rejected_steps,
        "crash_steps": res.crash_steps,
        "blocked_steps": res.blocked_steps,
        "highest_view_reached": res.view_reached,
        "most_blocks_stored": res.blocks_stored,
        "max_cache_sizes(commit_views,timeout_views,commit_qcs,timeout_qcs)": [res.max_cache.0, res.max_cache.1, res.max_cache.2, res.max_cache.3],
        "outcome_classes": res.outcome_classes,
    })
}

/// Re-executes a path of input descriptions from the initial state; returns the first violation.
pub fn replay_path(w: &World, r: usize, cfg: &L1Cfg, path: &[String]) -> Result<Option<String>, String> {
    replay_path_with(w, r, cfg, path, &|_| vec![])
}

pub fn replay_path_with(w: &World, r: usize, cfg: &L1Cfg, path: &[String], check_edge: &dyn Fn(&Edge) -> Vec<(String, String)>) -> Result<Option<String>, String> {
    let alpha = alphabet(w, r, cfg);
    let env: Vec<usize> = (0..w.n()).filter(|i| *i != r).collect();
    let full_mask: u32 = env.iter().fold(0, |m, i| m | 1 << i);
    let sync_pool = vec![w.final_block(&w.proposals[0], &w.commit_qc(&w.commit_vote(1, 0, &w.proposals[0]), full_mask))];
    let mut local = Local::initial();
    let mut log = SignedLog::default();
    for (k, d) in path.iter().enumerate() {
        if d == "process restarts" {
            local = bftsim::real_restart(w, r, &local);
            continue;
        }
        let shutdown = d.ends_with(" -- SHUTDOWN while handling (context cancelled)");
        let d_stripped = d.trim_end_matches(" -- SHUTDOWN while handling (context cancelled)").to_string();
        let d = &d_stripped;
        let (base, crash) = if let Some((b, rest)) = d.split_once(" -- WRITE ERROR at durable write #") {
            (b.to_string(), Some(Crash { at: rest.trim().parse().unwrap_or(0), applied: false, fail: true }))
        } else { match d.split_once(" -- CRASH at durable write #") {
            Some((b, rest)) => {
                let at: usize = rest.split(' ').next().unwrap_or("0").parse().map_err(|_| format!("bad crash spec in '{d}'"))?;
                (b.to_string(), Some(Crash { at, applied: rest.contains("applied"), fail: false }))
            }
            None => (d.clone(), None),
        } };
        let alpha_n;
        let found = match alpha.iter().find(|(n, _)| *n == base) {
            Some(x) => x,
            None => {
                // the path may come from the other pass (narrow / wide alphabet)
                let c2 = L1Cfg { narrow: !cfg.narrow, full: true, max_view: cfg.max_view, crashes: cfg.crashes, flood: true, max_states: cfg.max_states, deadline: cfg.deadline, seed: cfg.seed };
                alpha_n = alphabet(w, r, &c2);
                match alpha_n.iter().find(|(n, _)| *n == base) {
                    Some(x) => x,
                    None => return Err(format!("step {k}: input '{base}' is not in the alphabet of this tier")),
                }
            }
        };
        let input = &found.1;
        let pol = Policy { shutdown, crash, sync: sync_pool.clone() };
        let out = bftsim::step(w, r, &local, input, &pol);
        {
            let node = Node { local: local.clone(), log: log.clone(), depth: k as u32, path: vec![] };
            let kind = InputKind::Step(input.clone(), pol.clone());
            let mut l2 = log.clone();
            let _ = update_log(w, r, &mut l2, &out.sent);
            let vs = check_edge(&Edge { from: &node, input_desc: d, input: &kind, out: &out, to_log: &l2 });
            if let Some((kk, vv)) = vs.into_iter().next() {
                return Ok(Some(format!("[{kk}] {vv} (at step {k})")));
            }
        }
        println!("  step {k}: {d}\n      -> {} | view {} phase {:?} | sent: {}", outcome_class(&out), out.local.snap.view_number.0, out.local.snap.phase, out.sent.iter().map(|m| bftmsgs::describe(w, m)).collect::<Vec<_>>().join("; "));
        if let Some(v) = update_log(w, r, &mut log, &out.sent) {
            return Ok(Some(format!("{v} (at step {k}: {d})")));
        }
        local = out.local;
    }
    Ok(None)
}

/// The persistence-focused alphabet: what makes the replica write durable state and sign votes
/// (proposals and new-views of the minimal alphabet, the timer) - few inputs, so that crash points,
/// write errors and restarts can be chained five or six steps deep.
pub fn persistence_alphabet(w: &World, r: usize, cfg: &L1Cfg) -> Vec<(String, Input)> {
    let narrow = L1Cfg { narrow: true, full: false, max_view: cfg.max_view, crashes: cfg.crashes, flood: false, max_states: cfg.max_states, deadline: cfg.deadline, seed: cfg.seed };
    let mut a: Vec<(String, Input)> = alphabet(w, r, &narrow)
        .into_iter()
        .filter(|(d, _)| (d.starts_with("proposal[") && d.contains("payload X") && d.ends_with("from the leader")) || d.starts_with("new-view[") && d.contains("from the leader") || d == "view timer fires")
        .collect();
    // an equivocating leader: for every proposal with payload X also the one with payload Y for the same
    // justification (a replica that forgot its vote across a restart would vote for both)
    let wide = L1Cfg { narrow: true, full: true, max_view: cfg.max_view, crashes: cfg.crashes, flood: false, max_states: cfg.max_states, deadline: cfg.deadline, seed: cfg.seed };
    let twins: Vec<String> = a.iter().filter(|(d, _)| d.starts_with("proposal[")).map(|(d, _)| d.replace("payload X", "payload Y")).collect();
    a.extend(alphabet(w, r, &wide).into_iter().filter(|(d, _)| twins.contains(d)));
    a
}
