//! E3 bftsim core: one transition of a REAL replica state machine.
//!
//! A `Local` is the complete state of one correct replica as plain data (volatile snapshot,
//! durable replica state, persisted blocks). `step` restores a real replica from it (fresh
//! in-memory engine + real EngineManager + runner on a current-thread runtime with a manual
//! clock), runs one real handler to completion (or to the crash point / the point where it blocks
//! on the engine), drains the outbound channel and returns the new `Local`.
use std::sync::{
    atomic::{AtomicBool, AtomicUsize, Ordering::SeqCst},
    Arc, Mutex,
};

use zksync_concurrency::{ctx, scope, sync, time};
use zksync_consensus_bft::{verif as bv, Config};
use zksync_consensus_engine::{BlockStoreState, EngineInterface, EngineManager, Last, Transaction};
use zksync_consensus_roles::validator::{self, v2, ReplicaState};

use crate::{checks::util::Committee, core, sched};

pub type SignedMsg = validator::Signed<validator::ConsensusMsg>;

pub const VIEW_TIMEOUT_S: i64 = 2;
pub const MAX_PAYLOAD: usize = 1000;

/// Static configuration shared by all replicas of an instance.
pub struct World {
    pub c: Committee,
    /// payload returned by `propose_payload` for block n is `proposals[n % len]`
    pub proposals: Vec<validator::Payload>,
    /// a payload that the execution layer refuses
    pub invalid_payload: validator::Payload,
}

#[derive(Clone, Debug, PartialEq)]
pub struct Local {
    pub snap: bv::Snapshot,
    pub durable: ReplicaState,
    /// persisted finalized blocks, contiguous from the genesis' first block
    pub blocks: Vec<v2::FinalBlock>,
}

impl Local {
    pub fn initial() -> Local {
        let d = v2::ChonkyV2State::default();
        Local {
            snap: bv::Snapshot {
                view_number: d.view_number,
                phase: d.phase,
                high_vote: None,
                high_commit_qc: None,
                high_timeout_qc: None,
                proposals: Default::default(),
                commit_views_cache: Default::default(),
                commit_qcs_cache: Default::default(),
                timeout_views_cache: Default::default(),
                timeout_qcs_cache: Default::default(),
            },
            durable: ReplicaState::V2(d),
            blocks: vec![],
        }
    }
    /// The state a fresh process would have after a restart: everything volatile is lost.
    pub fn restarted(&self) -> Local {
        let ReplicaState::V2(d) = &self.durable;
        let mut proposals: std::collections::BTreeMap<validator::BlockNumber, Vec<validator::Payload>> = Default::default();
        for p in &d.proposals {
            proposals.entry(p.number).or_default().push(p.payload.clone());
        }
        for v in proposals.values_mut() {
            v.sort_by_key(|p| p.hash());
            v.dedup();
        }
        Local {
            snap: bv::Snapshot {
                view_number: d.view_number,
                phase: d.phase,
                high_vote: d.high_vote.clone(),
                high_commit_qc: d.high_commit_qc.clone(),
                high_timeout_qc: d.high_timeout_qc.clone(),
                proposals,
                commit_views_cache: Default::default(),
                commit_qcs_cache: Default::default(),
                timeout_views_cache: Default::default(),
                timeout_qcs_cache: Default::default(),
            },
            durable: self.durable.clone(),
            blocks: self.blocks.clone(),
        }
    }
}

#[derive(Clone, Debug)]
pub enum Input {
    Msg(SignedMsg),
    /// the view timer fires (also the bootstrap of view 0)
    Timeout,
    /// run the real proposer for this justification (`create_proposal`) and sign the result
    Propose(v2::ProposalJustification),
    /// block sync: a finalized block arrives from a peer (real `EngineManager::queue_block`)
    Sync(v2::FinalBlock),
}

#[derive(Clone, Copy, Debug, PartialEq, Eq, Hash)]
pub struct Crash {
    /// crash at the k-th `set_state` call of this step (0-based)
    pub at: usize,
    /// whether that write reached the disk
    pub applied: bool,
    /// instead of the process dying, the write FAILS: `set_state` returns an error to the caller
    /// (I/O error), nothing is written, and the process goes on with whatever the code does then
    pub fail: bool,
}

#[derive(Clone, Debug, Default)]
pub struct Policy {
    /// the node is shutting down: the input is handled under a context that is already cancelled
    /// (graceful shutdown, a sibling task failed, end of the epoch), then the process exits
    pub shutdown: bool,
    pub crash: Option<Crash>,
    /// finalized blocks that block sync may deliver when the handler waits for a predecessor
    pub sync: Vec<v2::FinalBlock>,
}

#[derive(Clone, Debug)]
pub struct StepOut {
    pub local: Local,
    /// messages that left the node during the step
    pub sent: Vec<SignedMsg>,
    /// Ok / Err(error rendered) of the handler; None if it did not return (crash / blocked)
    pub outcome: Option<Result<(), String>>,
    pub crashed: bool,
    /// the handler blocked on the engine and neither sync nor the deadline resolved it
    pub blocked: bool,
    pub set_state_calls: usize,
    /// the view deadline had to pass for the handler to return
    pub deadline_expired: bool,
    pub synced_blocks: usize,
    pub published: Option<v2::ProposalJustification>,
    /// error returned by the engine runner, if any
    pub runner_error: Option<String>,
    /// the replica code panicked during the step (the node is built with panic = abort: the process
    /// dies; the successor state is the restart from the durable image, `sent` is empty)
    pub panicked: Option<String>,
}

// ---------------------------------------------------------------------------------------------
// In-memory engine

struct SimEngineInner {
    /// number of the first block held by the store (genesis.first_block unless the node has pruned)
    base: u64,
    /// blocks the node has pruned (not served any more; kept to reconstruct the full chain for the harness)
    pruned_prefix: Vec<validator::Block>,
    genesis: validator::Genesis,
    persisted: sync::watch::Sender<BlockStoreState>,
    blocks: Mutex<Vec<validator::Block>>,
    state: Mutex<ReplicaState>,
    proposals: Vec<validator::Payload>,
    invalid: validator::Payload,
    set_state_calls: AtomicUsize,
    crash: Option<Crash>,
    crashed: AtomicBool,
    bad_store_request: Mutex<Option<String>>,
    /// while true, block writes do not complete (storage lags behind consensus)
    stall: sync::watch::Sender<bool>,
    /// time the execution layer needs to verify a payload (honours cancellation of the context)
    verify_delay: Mutex<Option<time::Duration>>,
    /// crash injection and the write counter only apply once this is set (after the replica of a
    /// step has been started and restored: writes made by `StateMachine::start` itself do not count)
    armed: AtomicBool,
}

#[derive(Clone)]
pub struct SimEngine(Arc<SimEngineInner>);

impl std::fmt::Debug for SimEngine {
    fn fmt(&self, f: &mut std::fmt::Formatter<'_>) -> std::fmt::Result {
        f.write_str("SimEngine")
    }
}

impl SimEngine {
    /// The durable image of `local` (persisted replica state + stored blocks).
    pub fn from_local(w: &World, local: &Local) -> Self {
        let blocks: Vec<validator::Block> = local.blocks.iter().cloned().map(validator::Block::FinalV2).collect();
        let last = local.blocks.last().map(|b| Last::FinalV2(b.justification.clone()));
        SimEngine(Arc::new(SimEngineInner {
            base: w.c.genesis.first_block.0,
            pruned_prefix: vec![],
            genesis: w.c.genesis.clone(),
            persisted: sync::watch::channel(BlockStoreState { first: w.c.genesis.first_block, last }).0,
            blocks: Mutex::new(blocks),
            state: Mutex::new(local.durable.clone()),
            proposals: w.proposals.clone(),
            invalid: w.invalid_payload.clone(),
            set_state_calls: AtomicUsize::new(0),
            crash: None,
            crashed: AtomicBool::new(false),
            bad_store_request: Mutex::new(None),
            stall: sync::watch::channel(false).0,
            verify_delay: Mutex::new(None),
            armed: AtomicBool::new(false),
        }))
    }
    /// Payload verification takes this long from now on.
    pub fn set_verify_delay(&self, d: Option<time::Duration>) {
        *self.0.verify_delay.lock().unwrap() = d;
    }
    /// Block writes stop / resume completing.
    pub fn set_stalled(&self, on: bool) {
        self.0.stall.send_replace(on);
    }
    /// The durable image as it is now (what a restart would find).
    pub fn durable_local(&self) -> Local {
        let blocks: Vec<v2::FinalBlock> = self.0.pruned_prefix.iter().chain(self.0.blocks.lock().unwrap().iter()).filter_map(|b| match b {
            validator::Block::FinalV2(f) => Some(f.clone()),
            _ => None,
        }).collect();
        Local { durable: self.0.state.lock().unwrap().clone(), blocks, ..Local::initial() }.restarted()
    }
    /// Number of blocks the node has stored so far (pruned ones included).
    pub fn stored_blocks(&self) -> usize {
        self.0.pruned_prefix.len() + self.0.blocks.lock().unwrap().len()
    }
    /// The durable image of `local` after the node has pruned its first `drop` stored blocks (a node
    /// restored from a snapshot at its head has pruned all of them: empty store starting at head + 1).
    pub fn from_local_pruned(w: &World, local: &Local, drop: usize) -> Self {
        let e = Self::from_local(w, local);
        let drop = drop.min(local.blocks.len());
        let all: Vec<validator::Block> = local.blocks.iter().cloned().map(validator::Block::FinalV2).collect();
        let base = w.c.genesis.first_block.0 + drop as u64;
        let kept: Vec<validator::Block> = all[drop..].to_vec();
        let last = kept.last().map(|b| match b {
            validator::Block::FinalV2(f) => Last::FinalV2(f.justification.clone()),
            validator::Block::PreGenesis(p) => Last::PreGenesis(p.number),
        });
        let inner = &e.0;
        let state = inner.state.lock().unwrap().clone();
        SimEngine(Arc::new(SimEngineInner {
            base,
            pruned_prefix: all[..drop].to_vec(),
            genesis: inner.genesis.clone(),
            persisted: sync::watch::channel(BlockStoreState { first: validator::BlockNumber(base), last }).0,
            blocks: Mutex::new(kept),
            state: Mutex::new(state),
            proposals: inner.proposals.clone(),
            invalid: inner.invalid.clone(),
            set_state_calls: AtomicUsize::new(0),
            crash: None,
            crashed: AtomicBool::new(false),
            bad_store_request: Mutex::new(None),
            stall: sync::watch::channel(false).0,
            verify_delay: Mutex::new(None),
            armed: AtomicBool::new(false),
        }))
    }
    pub fn durable_view(&self) -> u64 {
        let ReplicaState::V2(d) = &*self.0.state.lock().unwrap();
        d.view_number.0
    }

    /// An empty store for the given instance (used by harnesses that only need an EngineManager).
    pub fn new_empty(w: &World) -> Self {
        SimEngine(Arc::new(SimEngineInner {
            base: w.c.genesis.first_block.0,
            pruned_prefix: vec![],
            genesis: w.c.genesis.clone(),
            persisted: sync::watch::channel(BlockStoreState { first: w.c.genesis.first_block, last: None }).0,
            blocks: Mutex::new(vec![]),
            state: Mutex::new(ReplicaState::default()),
            proposals: vec![validator::Payload(vec![1])],
            invalid: w.invalid_payload.clone(),
            set_state_calls: AtomicUsize::new(0),
            crash: None,
            crashed: AtomicBool::new(false),
            bad_store_request: Mutex::new(None),
            stall: sync::watch::channel(false).0,
            verify_delay: Mutex::new(None),
            armed: AtomicBool::new(false),
        }))
    }
}

#[async_trait::async_trait]
impl EngineInterface for SimEngine {
    async fn genesis(&self, _ctx: &ctx::Ctx) -> ctx::Result<validator::Genesis> {
        Ok(self.0.genesis.clone())
    }
    async fn get_validator_schedule(&self, _ctx: &ctx::Ctx, _n: validator::BlockNumber) -> ctx::Result<(validator::Schedule, validator::BlockNumber)> {
        Err(anyhow::format_err!("static schedule").into())
    }
    async fn get_pending_validator_schedule(&self, _ctx: &ctx::Ctx, _n: validator::BlockNumber) -> ctx::Result<Option<(validator::Schedule, validator::BlockNumber)>> {
        Ok(None)
    }
    fn persisted(&self) -> sync::watch::Receiver<BlockStoreState> {
        self.0.persisted.subscribe()
    }
    async fn get_block(&self, _ctx: &ctx::Ctx, number: validator::BlockNumber) -> ctx::Result<validator::Block> {
        let first = self.0.base;
        let b = self.0.blocks.lock().unwrap();
        Ok(b.get(number.0.checked_sub(first).ok_or_else(|| anyhow::format_err!("not found"))? as usize).cloned().ok_or_else(|| anyhow::format_err!("not found"))?)
    }
    async fn queue_next_block(&self, ctx: &ctx::Ctx, block: validator::Block) -> ctx::Result<()> {
        sync::wait_for(ctx, &mut self.0.stall.subscribe(), |stalled| !*stalled).await?;
        let mut b = self.0.blocks.lock().unwrap();
        let want = self.0.base + b.len() as u64;
        if block.number().0 != want {
            *self.0.bad_store_request.lock().unwrap() = Some(format!("queue_next_block({}) but the durable head expects {want}", block.number().0));
            return Err(anyhow::format_err!("got block {}, want {want}", block.number().0).into());
        }
        let last = match &block {
            validator::Block::FinalV2(fb) => Last::FinalV2(fb.justification.clone()),
            validator::Block::PreGenesis(pb) => Last::PreGenesis(pb.number),
        };
        b.push(block);
        self.0.persisted.send_modify(|p| p.last = Some(last));
        Ok(())
    }
    async fn verify_pregenesis_block(&self, _ctx: &ctx::Ctx, _b: &validator::PreGenesisBlock) -> ctx::Result<()> {
        Ok(())
    }
    async fn verify_payload(&self, ctx: &ctx::Ctx, _n: validator::BlockNumber, payload: &validator::Payload) -> ctx::Result<()> {
        let delay = *self.0.verify_delay.lock().unwrap();
        if let Some(d) = delay {
            ctx.sleep(d).await?;
        }
        if *payload == self.0.invalid {
            return Err(anyhow::format_err!("invalid payload").into());
        }
        Ok(())
    }
    async fn propose_payload(&self, _ctx: &ctx::Ctx, n: validator::BlockNumber) -> ctx::Result<validator::Payload> {
        Ok(self.0.proposals[(n.0 as usize) % self.0.proposals.len()].clone())
    }
    async fn get_state(&self, _ctx: &ctx::Ctx) -> ctx::Result<ReplicaState> {
        Ok(self.0.state.lock().unwrap().clone())
    }
    async fn set_state(&self, _ctx: &ctx::Ctx, state: &ReplicaState) -> ctx::Result<()> {
        if !self.0.armed.load(SeqCst) {
            *self.0.state.lock().unwrap() = through_the_codec(state)?;
            return Ok(());
        }
        let k = self.0.set_state_calls.fetch_add(1, SeqCst);
        if let Some(c) = self.0.crash {
            if c.at == k && c.fail {
                return Err(anyhow::format_err!("injected I/O error: the replica state could not be written").into());
            }
            if c.at == k {
                if c.applied {
                    *self.0.state.lock().unwrap() = through_the_codec(state)?;
                }
                self.0.crashed.store(true, SeqCst);
                // the process dies here: this call never returns
                std::future::pending::<()>().await;
            }
        }
        *self.0.state.lock().unwrap() = through_the_codec(state)?;
        Ok(())
    }
    async fn push_tx(&self, _ctx: &ctx::Ctx, _tx: Transaction) -> ctx::Result<bool> {
        Ok(false)
    }
}

/// A durable store keeps bytes, not Rust values (the RocksDB store of the node encodes the replica
/// state with `zksync_protobuf`): what a restarted process reads is decode(encode(state)).
fn through_the_codec(state: &ReplicaState) -> ctx::Result<ReplicaState> {
    Ok(zksync_protobuf::decode(&zksync_protobuf::encode(state)).map_err(|e| anyhow::format_err!("stored replica state does not decode: {e:#}"))?)
}

// ---------------------------------------------------------------------------------------------

async fn handle_input(ctx: &ctx::Ctx, replica: &mut bv::Replica, input: &Input, cfg: &Arc<Config>, key: &validator::SecretKey, mgr: &Arc<EngineManager>, proposal_out: &mut Option<SignedMsg>) -> Result<(), String> {
    match input {
        Input::Msg(m) => replica.handle(ctx, m.clone()).await,
        Input::Timeout => replica.fire_timeout(ctx).await,
        Input::Propose(j) => {
            // the proposer runs under ctx.with_timeout(view_timeout)
            match bv::create_proposal(&ctx.with_timeout(time::Duration::seconds(VIEW_TIMEOUT_S)), cfg.clone(), j.clone()).await {
                Ok(p) => {
                    *proposal_out = Some(key.sign_msg(validator::ConsensusMsg::V2(v2::ChonkyMsg::LeaderProposal(p))));
                    Ok(())
                }
                Err(e) => Err(format!("{e:?}")),
            }
        }
        Input::Sync(b) => mgr.queue_block(ctx, b.clone().into()).await.map_err(|e| format!("{e:?}")),
    }
}

/// Runs one real transition of validator `idx`.
pub fn step(w: &World, idx: usize, local: &Local, input: &Input, policy: &Policy) -> StepOut {
    let ch = core::Chooser::new(vec![], None);
    let first = w.c.genesis.first_block;
    let blocks: Vec<validator::Block> = local.blocks.iter().cloned().map(validator::Block::FinalV2).collect();
    let last = local.blocks.last().map(|b| Last::FinalV2(b.justification.clone()));
    let eng = SimEngine(Arc::new(SimEngineInner {
        base: w.c.genesis.first_block.0,
        pruned_prefix: vec![],
        genesis: w.c.genesis.clone(),
        persisted: sync::watch::channel(BlockStoreState { first, last }).0,
        blocks: Mutex::new(blocks),
        state: Mutex::new(local.durable.clone()),
        proposals: w.proposals.clone(),
        invalid: w.invalid_payload.clone(),
        set_state_calls: AtomicUsize::new(0),
        crash: policy.crash,
        crashed: AtomicBool::new(false),
        bad_store_request: Mutex::new(None),
            stall: sync::watch::channel(false).0,
            verify_delay: Mutex::new(None),
            armed: AtomicBool::new(false),
    }));
    let eng2 = eng.clone();
    let key = w.c.keys[idx].clone();
    let snap = local.snap.clone();
    let sync_pool = policy.sync.clone();
    let policy_shutdown = policy.shutdown;
    let input = input.clone();
    let epoch = w.c.epoch;

    struct Res {
        snap: bv::Snapshot,
        sent: Vec<SignedMsg>,
        outcome: Option<Result<(), String>>,
        blocked: bool,
        deadline_expired: bool,
        synced: usize,
        published: Option<v2::ProposalJustification>,
        runner_error: Option<String>,
    }

    let snap_in = local.snap.clone();
    let durable_in = local.durable.clone();
    let durable_in = &durable_in;
    let res: Result<Res, String> = core::catch(std::panic::AssertUnwindSafe(|| sched::run(&ch, |idle| async move {
        let clock = ctx::ManualClock::new();
        let root = ctx::test_root(&clock);
        let (mgr, runner) = EngineManager::new(&root, Box::new(eng2.clone()), time::Duration::seconds(1)).await.expect("EngineManager::new");
        let cfg = Arc::new(Config::new(key.clone(), MAX_PAYLOAD, time::Duration::seconds(VIEW_TIMEOUT_S), mgr.clone(), epoch).expect("Config::new"));
        let runner_error: Arc<Mutex<Option<String>>> = Default::default();
        let (re2, mgr2, idle2, clock2, eng3) = (&runner_error, &mgr, &idle, &clock, &eng2);
        let cfg2 = &cfg;
        let sync_pool = &sync_pool;
        let input = &input;
        let snap = &snap;
        let key = &key;
        let (sync_send, mut sync_recv) = tokio::sync::mpsc::unbounded_channel::<v2::FinalBlock>();
        let sync_send = &sync_send;
        let out: Result<Res, ctx::Error> = scope::run!(&root, |ctx, s| async move {
            s.spawn_bg(async move {
                if let Err(e) = runner.run(ctx).await {
                    *re2.lock().unwrap() = Some(format!("{e:#}"));
                }
                Ok(())
            });
            // block sync deliveries go through the real queue_block
            s.spawn_bg(async move {
                while let Ok(Some(b)) = ctx.wait(sync_recv.recv()).await {
                    let _ = mgr2.queue_block(ctx, b.into()).await;
                }
                Ok(())
            });
            let mut replica = bv::Replica::start(ctx, cfg2.clone()).await?;
            replica.restore(snap.clone());
            // whatever start() wrote or sent is not part of this step (the state is the given snapshot)
            let _ = replica.drain_outbound();
            let _ = replica.published_justification();
            *eng3.0.state.lock().unwrap() = durable_in.clone();
            eng3.0.armed.store(true, SeqCst);
            let mut deadline_expired = false;
            let mut synced = 0usize;
            let mut blocked = false;
            let mut proposal_out: Option<SignedMsg> = None;
            let outcome: Option<Result<(), String>> = {
                let shutdown = policy_shutdown;
                let fut = async {
                    if shutdown {
                        let r: Result<Result<(), String>, ctx::Canceled> = scope::run!(ctx, |hctx, hs| async {
                            hs.cancel();
                            Ok(handle_input(hctx, &mut replica, input, cfg2, key, mgr2, &mut proposal_out).await)
                        })
                        .await;
                        r.unwrap_or_else(|_| Err("Canceled".into()))
                    } else {
                        handle_input(ctx, &mut replica, input, cfg2, key, mgr2, &mut proposal_out).await
                    }
                };
                let driven = sched::drive_drop(idle2, fut, |_k| {
                    if eng3.0.crashed.load(SeqCst) {
                        return false;
                    }
                    // waiting for a predecessor block? let block sync deliver it if it can
                    let next = mgr2.queued().next();
                    if let Some(b) = sync_pool.iter().find(|b| b.number() == next) {
                        if synced < 8 {
                            synced += 1;
                            let _ = sync_send.send(b.clone());
                            return true;
                        }
                    }
                    if !deadline_expired {
                        deadline_expired = true;
                        clock2.advance(time::Duration::seconds(VIEW_TIMEOUT_S + 1));
                        return true;
                    }
                    blocked = true;
                    false
                })
                .await;
                match driven {
                    sched::Driven::Done(r) => Some(r),
                    sched::Driven::Stuck => None,
                }
            };
            // let the runner persist whatever was queued
            idle2.settle().await;
            let mut sent = replica.drain_outbound();
            if let Some(p) = proposal_out {
                sent.push(p);
            }
            let published = replica.published_justification();
            Ok(Res { snap: replica.snapshot(), sent, outcome, blocked, deadline_expired, synced, published, runner_error: None })
        })
        .await;
        let mut r = out.expect("step scope");
        r.runner_error = runner_error.lock().unwrap().clone();
        r
    })));
    let mut panicked = None;
    let res = match res {
        Ok(r) => r,
        Err(p) => {
            panicked = Some(p.clone());
            Res { snap: snap_in, sent: vec![], outcome: Some(Err(format!("PANIC: {}", p.lines().next().unwrap_or("")))), blocked: false, deadline_expired: false, synced: 0, published: None, runner_error: None }
        }
    };
    // an internal error of a handler ends StateMachine::run: the consensus component stops and the
    // node has to be restarted - for the search that is a crash at that point
    let stopped = matches!(&res.outcome, Some(Err(e)) if e.starts_with("Internal") && !e.contains("Canceled"));
    let crashed = eng.0.crashed.load(SeqCst) || panicked.is_some() || (stopped && policy.crash.is_some_and(|c| c.fail)) || policy.shutdown;
    let durable = eng.0.state.lock().unwrap().clone();
    let blocks: Vec<v2::FinalBlock> = eng
        .0
        .blocks
        .lock()
        .unwrap()
        .iter()
        .filter_map(|b| match b {
            validator::Block::FinalV2(f) => Some(f.clone()),
            _ => None,
        })
        .collect();
    let mut out = StepOut {
        local: Local { snap: res.snap, durable, blocks },
        sent: res.sent,
        outcome: res.outcome,
        crashed,
        blocked: res.blocked,
        set_state_calls: eng.0.set_state_calls.load(SeqCst),
        deadline_expired: res.deadline_expired,
        synced_blocks: res.synced,
        published: res.published,
        runner_error: res.runner_error.or(eng.0.bad_store_request.lock().unwrap().clone()),
        panicked,
    };
    if crashed || out.blocked {
        // the process is gone: only the durable image survives
        match try_real_restart(w, idx, &out.local) {
            Ok(l) => out.local = l,
            Err(e) => {
                out.local = out.local.restarted();
                out.panicked.get_or_insert(format!("after the crash the node does not come back up: {e}"));
            }
        }
    }
    out
}

/// The state a new process has after a restart, obtained from the REAL `StateMachine::start` reading
/// the durable image (persisted replica state + stored blocks) through a real `EngineManager`.
/// (`Local::restarted` is the harness's own transcription of that; it is only used to decide whether
/// a restart can change anything and as a cross-check in the self test.)
pub fn real_restart(w: &World, idx: usize, local: &Local) -> Local {
    try_real_restart(w, idx, local).unwrap_or_else(|_| local.restarted())
}

/// As `real_restart`; `Err` if the real `StateMachine::start` panics or never returns (the node
/// cannot come back up). Whatever `start` writes to durable storage is part of the result.
pub fn try_real_restart(w: &World, idx: usize, local: &Local) -> Result<Local, String> {
    let eng = SimEngine::from_local(w, local);
    let eng2 = eng.clone();
    let key = w.c.keys[idx].clone();
    let epoch = w.c.epoch;
    let ch = core::Chooser::new(vec![], None);
    let r = core::catch(std::panic::AssertUnwindSafe(|| {
        sched::run(&ch, |idle| async move {
            let clock = ctx::ManualClock::new();
            let root = ctx::test_root(&clock);
            let (mgr, runner) = EngineManager::new(&root, Box::new(eng2), time::Duration::seconds(1)).await.expect("EngineManager::new");
            let cfg = Arc::new(Config::new(key, MAX_PAYLOAD, time::Duration::seconds(VIEW_TIMEOUT_S), mgr, epoch).expect("Config::new"));
            let root = &root;
            let fut = async move {
                scope::run!(root, |ctx, s| async move {
                    s.spawn_bg(async move {
                        let _ = runner.run(ctx).await;
                        Ok(())
                    });
                    let replica = bv::Replica::start(ctx, cfg).await?;
                    Ok::<_, ctx::Error>(replica.snapshot())
                })
                .await
            };
            match sched::drive(&idle, fut, |_| false).await {
                sched::Driven::Done(r) => r.map_err(|e| format!("StateMachine::start failed: {e:?}")),
                sched::Driven::Stuck => Err("StateMachine::start never returns (nothing is runnable any more)".to_string()),
            }
        })
    }));
    let snap = match r {
        Ok(Ok(s)) => s,
        Ok(Err(e)) => return Err(e),
        Err(p) => return Err(format!("StateMachine::start panicked: {}", p.lines().take(2).collect::<Vec<_>>().join(" "))),
    };
    let after = eng.durable_local();
    Ok(Local { snap, durable: after.durable, blocks: after.blocks })
}

// ---------------------------------------------------------------------------------------------
// The real `Config::run` loops (StateMachine::run + run_proposer) of several nodes on the controlled
// runtime: used by C06 for good periods in which the view timers, the view-0 bootstrap and the
// proposer task are the implementation's own.

#[derive(Debug)]
pub struct RunLoopsOut {
    pub ok: bool,
    pub rounds: u32,
    pub why: String,
    pub messages_routed: u64,
    pub stored_at_start: Vec<usize>,
    pub stored_at_end: Vec<usize>,
    pub views_at_end: Vec<u64>,
    /// (view, index of the signer) of every LeaderProposal that any node handed to the network
    pub proposals_routed: Vec<(u64, usize)>,
}

/// Starts one real node per entry of `nodes` (validator index, durable image) — `Config::run` over a
/// real `EngineManager` — connects them with a reliable network (every message goes to every node,
/// the sender included, in send order, through the real `create_input_channel()`), serves missing
/// finalized blocks at quiescent points, and advances the manual clock by one view timeout whenever
/// nothing else can happen. Progress = every node stores a block it did not have at the start.
/// Runs under the controlled scheduler with the choice sequence of `ch`.
pub fn run_loops(ch: &core::Ch, w: &World, nodes: &[(usize, Local)], max_rounds: u32) -> RunLoopsOut {
    run_loops_with(ch, w, nodes, max_rounds, false, false).0
}

/// Like `run_loops`, but the network goes silent (drops everything) once `limit` proposals have been
/// routed: with every validator present and a perfect network the system never becomes idle by itself.
pub fn run_loops_until_proposals(ch: &core::Ch, w: &World, nodes: &[(usize, Local)], max_rounds: u32, limit: usize) -> RunLoopsOut {
    PROPOSAL_LIMIT.with(|l| l.set(limit));
    let r = run_loops_with(ch, w, nodes, max_rounds, false, false).0;
    PROPOSAL_LIMIT.with(|l| l.set(usize::MAX));
    r
}

thread_local! {
    static PROPOSAL_LIMIT: std::cell::Cell<usize> = const { std::cell::Cell::new(usize::MAX) };
    static PRUNE_FIRST: std::cell::Cell<usize> = const { std::cell::Cell::new(0) };
}

/// Like `run_loops_locals`, but every node has pruned its first `drop` stored blocks before it starts
/// (with `drop` = the lowest number of stored blocks among the nodes: everybody restored from a
/// snapshot at the common head; missing blocks below it can not be fetched from anybody any more).
pub fn run_loops_pruned(ch: &core::Ch, w: &World, nodes: &[(usize, Local)], max_rounds: u32, drop: usize) -> (RunLoopsOut, Vec<Local>) {
    PRUNE_FIRST.with(|l| l.set(drop));
    let r = run_loops_with(ch, w, nodes, max_rounds, false, false);
    PRUNE_FIRST.with(|l| l.set(0));
    r
}

/// Like `run_loops`, also returning the durable images at the end (to chain good periods).
pub fn run_loops_locals(ch: &core::Ch, w: &World, nodes: &[(usize, Local)], max_rounds: u32) -> (RunLoopsOut, Vec<Local>) {
    run_loops_with(ch, w, nodes, max_rounds, false, false)
}

/// Good period in which the execution layer needs one and a half view timeouts to verify a payload
/// (and gives up when its context is cancelled, as the EngineInterface contract demands).
pub fn run_loops_slow_verification(ch: &core::Ch, w: &World, nodes: &[(usize, Local)], max_rounds: u32) -> RunLoopsOut {
    run_loops_with(ch, w, nodes, max_rounds, false, true).0
}

/// The adversarial prefix "storage lags, then every node crashes": the real loops run with block
/// writes stalled until nothing can happen any more, then all processes die. Returns the durable
/// images the restarted nodes will find.
pub fn stalled_storage_then_crash(ch: &core::Ch, w: &World, nodes: &[(usize, Local)]) -> Vec<(usize, Local)> {
    let (_, locals) = run_loops_with(ch, w, nodes, 0, true, false);
    nodes.iter().map(|(i, _)| *i).zip(locals).collect()
}

fn run_loops_with(ch: &core::Ch, w: &World, nodes: &[(usize, Local)], max_rounds: u32, stalled: bool, slow_verify: bool) -> (RunLoopsOut, Vec<Local>) {
    use zksync_consensus_network::io::{ConsensusInputMessage, ConsensusReq};
    let prune_first = PRUNE_FIRST.with(|l| l.get());
    let engines: Vec<SimEngine> = nodes.iter().map(|(_, l)| if prune_first > 0 { SimEngine::from_local_pruned(w, l, prune_first) } else { SimEngine::from_local(w, l) }).collect();
    for e in &engines {
        e.set_stalled(stalled);
        if slow_verify {
            e.set_verify_delay(Some(time::Duration::milliseconds(VIEW_TIMEOUT_S * 1500)));
        }
    }
    let stored_at_start: Vec<usize> = engines.iter().map(|e| e.stored_blocks()).collect();
    let engines2 = engines.clone();
    let start2 = stored_at_start.clone();
    let plog: Arc<Mutex<Vec<(u64, usize)>>> = Default::default();
    let proposal_limit = PROPOSAL_LIMIT.with(|l| l.get());
    let plog_out = plog.clone();
    let (ok, rounds, why, routed) = sched::run(ch, |idle| async move {
        let clock = ctx::ManualClock::new();
        let root = ctx::test_root(&clock);
        let n = nodes.len();
        let mut mgrs = vec![];
        let mut runners = vec![];
        for e in &engines2 {
            let (m, r) = EngineManager::new(&root, Box::new(e.clone()), time::Duration::seconds(1)).await.expect("EngineManager::new");
            mgrs.push(m);
            runners.push(r);
        }
        let mut in_send = vec![];
        let mut in_recv = vec![];
        let mut out_send = vec![];
        let mut out_recv = vec![];
        for _ in 0..n {
            let (s, r) = zksync_consensus_bft::create_input_channel();
            in_send.push(s);
            in_recv.push(r);
            let (s, r) = ctx::channel::unbounded::<ConsensusInputMessage>();
            out_send.push(s);
            out_recv.push(r);
        }
        let routed = std::sync::atomic::AtomicU64::new(0);
        let plog2 = plog.clone();
        let plog2 = &plog2;
        let errors: Mutex<Vec<String>> = Mutex::new(vec![]);
        let (mgrs, in_send, routed, errors, engines2, start2, idle, clock, root) = (&mgrs, &in_send, &routed, &errors, &engines2, &start2, &idle, &clock, &root);
        let fut = async move {
            scope::run!(root, |ctx, s| async move {
                for r in runners {
                    s.spawn_bg(async move {
                        if let Err(e) = r.run(ctx).await {
                            errors.lock().unwrap().push(format!("engine runner: {e:#}"));
                        }
                        Ok(())
                    });
                }
                for (i, ((recv, osend), (idx, _))) in in_recv.into_iter().zip(out_send).zip(nodes.iter()).enumerate() {
                    let cfg = Config::new(w.c.keys[*idx].clone(), MAX_PAYLOAD, time::Duration::seconds(VIEW_TIMEOUT_S), mgrs[i].clone(), w.c.epoch).expect("Config::new");
                    s.spawn_bg(async move {
                        if let Err(e) = cfg.run(ctx, osend, recv).await {
                            errors.lock().unwrap().push(format!("bft component of v{idx}: {e:#}"));
                        }
                        Ok(())
                    });
                }
                for mut orecv in out_recv {
                    s.spawn_bg(async move {
                        while let Ok(m) = orecv.recv(ctx).await {
                            if plog2.lock().unwrap().len() >= proposal_limit {
                                continue;
                            }
                            let k = routed.fetch_add(1, SeqCst);
                            if std::env::var("VERIF_DEBUG_ROUTE").is_ok() && k < 200 { eprintln!("route #{k}: {}", crate::bftmsgs::describe(w, &m.message)); }
                            if let validator::ConsensusMsg::V2(v2::ChonkyMsg::LeaderProposal(p)) = &m.message.msg {
                                let signer = w.c.keys.iter().position(|k| k.public() == m.message.key).unwrap_or(usize::MAX);
                                plog2.lock().unwrap().push((p.view().number.0, signer));
                            }
                            for dst in in_send.iter() {
                                let (ack, _ack_recv) = zksync_concurrency::oneshot::channel();
                                dst.send(ConsensusReq { msg: m.message.clone(), ack });
                            }
                        }
                        Ok(())
                    });
                }
                // driver
                let mut rounds = 0u32;
                loop {
                    idle.settle().await;
                    if let Some(e) = errors.lock().unwrap().first() {
                        return Ok((false, rounds, format!("a component stopped with an error: {e}")));
                    }
                    if engines2.iter().zip(start2.iter()).all(|(e, s)| e.stored_blocks() > *s) {
                        return Ok((true, rounds, String::new()));
                    }
                    if stalled {
                        // first quiescent point of the stalled prefix: everybody dies here
                        return Ok((false, rounds, "stalled prefix ended".into()));
                    }
                    // block sync: a node that lacks a block some other node has gets it
                    let mut synced = false;
                    for j in 0..n {
                        let next = mgrs[j].queued().next();
                        for i in 0..n {
                            if i == j {
                                continue;
                            }
                            if let Ok(Some(b)) = mgrs[i].get_block(ctx, next).await {
                                let _ = mgrs[j].queue_block(ctx, b).await;
                                synced = true;
                                break;
                            }
                        }
                    }
                    if synced {
                        continue;
                    }
                    if rounds >= max_rounds {
                        return Ok((false, rounds, format!("no new block after {rounds} view timeouts with reliable delivery")));
                    }
                    rounds += 1;
                    clock.advance(time::Duration::seconds(VIEW_TIMEOUT_S) + time::Duration::milliseconds(1));
                }
            })
            .await
        };
        let r: Result<(bool, u32, String), ctx::Error> = match sched::drive(idle, fut, |k| k < 100_000).await {
            sched::Driven::Done(r) => r,
            sched::Driven::Stuck => Ok((false, 0, "the driver itself got stuck".into())),
        };
        let (ok, rounds, why) = r.unwrap_or_else(|e| (false, 0, format!("scope error: {e:?}")));
        (ok, rounds, why, routed.load(SeqCst))
    });
    let locals = engines.iter().map(|e| e.durable_local()).collect();
    let proposals_routed = plog_out.lock().unwrap().clone();
    (RunLoopsOut { ok, rounds, why, messages_routed: routed, stored_at_start, stored_at_end: engines.iter().map(|e| e.stored_blocks()).collect(), views_at_end: engines.iter().map(|e| e.durable_view()).collect(), proposals_routed }, locals)
}
