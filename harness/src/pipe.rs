//! In-memory byte pipes with observable counters and scriptable behaviour, used as transports
//! for the real noise / mux / rpc code.
use std::{
    collections::VecDeque,
    pin::Pin,
    sync::{Arc, Mutex},
    task::{Context, Poll, Waker},
};

use tokio::io::{AsyncRead, AsyncWrite, ReadBuf};

#[derive(Default)]
pub struct Chan {
    pub buf: VecDeque<u8>,
    pub closed: bool,
    pub reader: Option<Waker>,
    /// total bytes ever written into / read out of this direction
    pub written: u64,
    pub read: u64,
    /// if set, reads deliver at most this many bytes at a time
    pub max_read: Option<usize>,
    /// if set, the reader never gets data (a stalled link)
    pub stalled: bool,
    /// everything that was written (kept only when `record` is set)
    pub record: bool,
    pub log: Vec<u8>,
    /// if set, at most this many bytes are in flight: a writer gets `Pending` while the buffer is full
    /// and accepts only what fits (a congested link)
    pub capacity: Option<usize>,
    pub writer: Option<Waker>,
}

pub type Shared = Arc<Mutex<Chan>>;

/// One end of a bidirectional pipe.
pub struct End {
    pub rx: Shared,
    pub tx: Shared,
}

pub fn pair() -> (End, End) {
    let a: Shared = Default::default();
    let b: Shared = Default::default();
    (End { rx: a.clone(), tx: b.clone() }, End { rx: b, tx: a })
}

/// A pipe whose directions hold at most `cap` bytes each (writers see back-pressure).
pub fn pair_bounded(cap: usize) -> (End, End) {
    let (a, b) = pair();
    a.rx.lock().unwrap().capacity = Some(cap);
    a.tx.lock().unwrap().capacity = Some(cap);
    (a, b)
}

/// Pushes raw bytes into a direction (as if the peer had written them).
pub fn inject(ch: &Shared, data: &[u8]) {
    let mut c = ch.lock().unwrap();
    c.buf.extend(data.iter().copied());
    c.written += data.len() as u64;
    if c.record {
        c.log.extend_from_slice(data);
    }
    if let Some(w) = c.reader.take() {
        w.wake();
    }
}

pub fn close(ch: &Shared) {
    let mut c = ch.lock().unwrap();
    c.closed = true;
    if let Some(w) = c.reader.take() {
        w.wake();
    }
}

impl AsyncRead for End {
    fn poll_read(self: Pin<&mut Self>, cx: &mut Context<'_>, buf: &mut ReadBuf<'_>) -> Poll<std::io::Result<()>> {
        let mut c = self.rx.lock().unwrap();
        if c.stalled || (c.buf.is_empty() && !c.closed) {
            c.reader = Some(cx.waker().clone());
            return Poll::Pending;
        }
        let mut n = buf.remaining().min(c.buf.len());
        if let Some(m) = c.max_read {
            n = n.min(m);
        }
        for _ in 0..n {
            let b = c.buf.pop_front().unwrap();
            buf.put_slice(&[b]);
        }
        c.read += n as u64;
        if n > 0 {
            if let Some(w) = c.writer.take() {
                w.wake();
            }
        }
        Poll::Ready(Ok(()))
    }
}

impl AsyncWrite for End {
    fn poll_write(self: Pin<&mut Self>, cx: &mut Context<'_>, data: &[u8]) -> Poll<std::io::Result<usize>> {
        let mut c = self.tx.lock().unwrap();
        if c.closed {
            return Poll::Ready(Err(std::io::ErrorKind::BrokenPipe.into()));
        }
        let mut data = data;
        if let Some(cap) = c.capacity {
            let room = cap.saturating_sub(c.buf.len());
            if room == 0 && !data.is_empty() {
                c.writer = Some(cx.waker().clone());
                return Poll::Pending;
            }
            data = &data[..data.len().min(room)];
        }
        c.buf.extend(data.iter().copied());
        c.written += data.len() as u64;
        if c.record {
            c.log.extend_from_slice(data);
        }
        if let Some(w) = c.reader.take() {
            w.wake();
        }
        Poll::Ready(Ok(data.len()))
    }
    fn poll_flush(self: Pin<&mut Self>, _cx: &mut Context<'_>) -> Poll<std::io::Result<()>> {
        Poll::Ready(Ok(()))
    }
    fn poll_shutdown(self: Pin<&mut Self>, _cx: &mut Context<'_>) -> Poll<std::io::Result<()>> {
        close(&self.tx);
        Poll::Ready(Ok(()))
    }
}

impl Drop for End {
    fn drop(&mut self) {
        close(&self.tx);
    }
}
