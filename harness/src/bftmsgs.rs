//! Message factory for bftsim: the harness owns every secret key of the committee, so whatever
//! validators could sign can be constructed. Signatures are memoised.
use std::{
    collections::HashMap,
    sync::{Mutex, OnceLock},
};

use zksync_consensus_roles::validator::{self, v2, BlockNumber, Payload, ViewNumber};

use crate::{
    bftsim::{SignedMsg, World},
    core::fx_hash,
};

static SIGS: OnceLock<Mutex<HashMap<(Vec<u8>, [u8; 32]), validator::Signature>>> = OnceLock::new();

fn sign(key: &validator::SecretKey, msg: validator::Msg) -> validator::Signature {
    let h = msg.hash();
    let hb: [u8; 32] = zksync_consensus_crypto::ByteFmt::encode(&h).try_into().unwrap();
    let k = (zksync_consensus_crypto::ByteFmt::encode(&key.public()), hb);
    let m = SIGS.get_or_init(Default::default);
    if let Some(s) = m.lock().unwrap().get(&k) {
        return s.clone();
    }
    let s = key.sign_hash(&h);
    m.lock().unwrap().insert(k, s.clone());
    s
}

pub fn signed(key: &validator::SecretKey, m: v2::ChonkyMsg) -> SignedMsg {
    let msg = validator::ConsensusMsg::V2(m);
    let sig = sign(key, validator::Msg::Consensus(msg.clone()));
    validator::Signed { msg, key: key.public(), sig }
}

impl World {
    pub fn n(&self) -> usize {
        self.c.n()
    }
    pub fn view(&self, v: u64) -> v2::View {
        v2::View { genesis: self.c.genesis.hash(), epoch: self.c.epoch, number: ViewNumber(v) }
    }
    pub fn leader(&self, v: u64) -> usize {
        let k = self.c.schedule.view_leader(ViewNumber(v));
        self.c.keys.iter().position(|x| x.public() == k).unwrap()
    }
    pub fn commit_vote(&self, v: u64, n: u64, p: &Payload) -> v2::ReplicaCommit {
        v2::ReplicaCommit { view: self.view(v), proposal: v2::BlockHeader { number: BlockNumber(n), payload: p.hash() } }
    }
    pub fn signed_commit(&self, signer: usize, vote: &v2::ReplicaCommit) -> SignedMsg {
        signed(&self.c.keys[signer], v2::ChonkyMsg::ReplicaCommit(vote.clone()))
    }
    /// Aggregates the commit votes of the signers in `mask` (no threshold check here).
    pub fn commit_qc(&self, vote: &v2::ReplicaCommit, mask: u32) -> v2::CommitQC {
        let mut qc = v2::CommitQC::new(vote.clone(), &self.c.schedule);
        for i in 0..self.n() {
            if mask >> i & 1 == 1 {
                qc.signers.0.set(i, true);
                qc.signature.add(&sign(&self.c.keys[i], validator::Msg::Consensus(validator::ConsensusMsg::V2(v2::ChonkyMsg::ReplicaCommit(vote.clone())))));
            }
        }
        qc
    }
    pub fn timeout_vote(&self, v: u64, high_vote: Option<v2::ReplicaCommit>, high_qc: Option<v2::CommitQC>) -> v2::ReplicaTimeout {
        v2::ReplicaTimeout { view: self.view(v), high_vote, high_qc }
    }
    pub fn signed_timeout(&self, signer: usize, t: &v2::ReplicaTimeout) -> SignedMsg {
        signed(&self.c.keys[signer], v2::ChonkyMsg::ReplicaTimeout(t.clone()))
    }
    pub fn timeout_qc(&self, v: u64, votes: &[(usize, v2::ReplicaTimeout)]) -> v2::TimeoutQC {
        let mut qc = v2::TimeoutQC::new(self.view(v));
        for (i, t) in votes {
            let e = qc.map.entry(t.clone()).or_insert_with(|| v2::Signers::new(self.n()));
            e.0.set(*i, true);
            qc.signature.add(&sign(&self.c.keys[*i], validator::Msg::Consensus(validator::ConsensusMsg::V2(v2::ChonkyMsg::ReplicaTimeout(t.clone())))));
        }
        qc
    }
    pub fn proposal(&self, signer: usize, j: &v2::ProposalJustification, payload: Option<Payload>) -> SignedMsg {
        signed(&self.c.keys[signer], v2::ChonkyMsg::LeaderProposal(v2::LeaderProposal { proposal_payload: payload, justification: j.clone() }))
    }
    pub fn new_view(&self, signer: usize, j: &v2::ProposalJustification) -> SignedMsg {
        signed(&self.c.keys[signer], v2::ChonkyMsg::ReplicaNewView(v2::ReplicaNewView { justification: j.clone() }))
    }
    pub fn final_block(&self, p: &Payload, qc: &v2::CommitQC) -> v2::FinalBlock {
        v2::FinalBlock { payload: p.clone(), justification: qc.clone() }
    }
}

// ---------------------------------------------------------------------------------------------
// Canonical (semantic) forms used for state keys and for the reference model.

#[derive(Clone, Debug, PartialEq, Eq, Hash, PartialOrd, Ord)]
pub struct AVote {
    pub view: u64,
    pub number: u64,
    pub hash: u64,
}

pub fn avote(v: &v2::ReplicaCommit) -> AVote {
    AVote { view: v.view.number.0, number: v.proposal.number.0, hash: ph(&v.proposal.payload) }
}

pub fn ph(p: &validator::PayloadHash) -> u64 {
    use zksync_protobuf::ProtoFmt as _;
    fx_hash(&p.build().keccak256)
}

/// A commit certificate by its semantic content (signers dropped).
pub fn acqc(q: &v2::CommitQC) -> AVote {
    avote(&q.message)
}

/// A timeout certificate: view + for every distinct vote content the signer set.
#[derive(Clone, Debug, PartialEq, Eq, Hash, PartialOrd, Ord)]
pub struct ATqc {
    pub view: u64,
    pub groups: Vec<(Option<AVote>, Option<AVote>, Vec<bool>)>,
}

pub fn atqc(q: &v2::TimeoutQC) -> ATqc {
    let mut groups: Vec<_> = q.map.iter().map(|(m, s)| (m.high_vote.as_ref().map(avote), m.high_qc.as_ref().map(acqc), s.0.iter().collect::<Vec<bool>>())).collect();
    groups.sort();
    ATqc { view: q.view.number.0, groups }
}

pub fn ajust(j: &v2::ProposalJustification) -> (u8, Option<AVote>, Option<ATqc>) {
    match j {
        v2::ProposalJustification::Commit(q) => (0, Some(acqc(q)), None),
        v2::ProposalJustification::Timeout(q) => (1, None, Some(atqc(q))),
    }
}

/// Canonical description of a message (for logs / keys).
pub fn describe(w: &World, m: &SignedMsg) -> String {
    let who = w.c.keys.iter().position(|k| k.public() == m.key).map(|i| format!("v{i}")).unwrap_or("outsider".into());
    let validator::ConsensusMsg::V2(x) = &m.msg;
    match x {
        v2::ChonkyMsg::ReplicaCommit(c) => format!("{who}:Commit{:?}", avote(c)),
        v2::ChonkyMsg::ReplicaTimeout(t) => format!("{who}:Timeout(view {}, high_vote {:?}, high_qc {:?})", t.view.number.0, t.high_vote.as_ref().map(avote), t.high_qc.as_ref().map(acqc)),
        v2::ChonkyMsg::ReplicaNewView(n) => format!("{who}:NewView(view {}, {:?})", n.view().number.0, ajust(&n.justification)),
        v2::ChonkyMsg::LeaderProposal(p) => format!("{who}:Proposal(view {}, payload {:?}, {:?})", p.view().number.0, p.proposal_payload.as_ref().map(|p| ph(&p.hash())), ajust(&p.justification)),
    }
}
