//! Counting global allocator: per-thread current / peak bytes, used by C10 to observe how much
//! memory one input makes the code under test allocate.
use std::{
    alloc::{GlobalAlloc, Layout, System},
    cell::Cell,
};

pub struct Counting;

thread_local! {
    static CUR: Cell<isize> = const { Cell::new(0) };
    static PEAK: Cell<isize> = const { Cell::new(0) };
    static BIGGEST: Cell<usize> = const { Cell::new(0) };
}

unsafe impl GlobalAlloc for Counting {
    unsafe fn alloc(&self, l: Layout) -> *mut u8 {
        note_alloc(l.size());
        System.alloc(l)
    }
    unsafe fn alloc_zeroed(&self, l: Layout) -> *mut u8 {
        note_alloc(l.size());
        System.alloc_zeroed(l)
    }
    unsafe fn dealloc(&self, p: *mut u8, l: Layout) {
        let _ = CUR.try_with(|c| c.set(c.get() - l.size() as isize));
        System.dealloc(p, l)
    }
    unsafe fn realloc(&self, p: *mut u8, l: Layout, new: usize) -> *mut u8 {
        if new > l.size() {
            note_alloc(new - l.size());
        } else {
            let _ = CUR.try_with(|c| c.set(c.get() - (l.size() - new) as isize));
        }
        System.realloc(p, l, new)
    }
}

fn note_alloc(n: usize) {
    let _ = CUR.try_with(|c| {
        let v = c.get() + n as isize;
        c.set(v);
        let _ = PEAK.try_with(|p| {
            if v > p.get() {
                p.set(v)
            }
        });
    });
    let _ = BIGGEST.try_with(|b| {
        if n > b.get() {
            b.set(n)
        }
    });
}

/// Starts a measurement window on this thread.
pub fn reset() {
    CUR.with(|c| c.set(0));
    PEAK.with(|c| c.set(0));
    BIGGEST.with(|c| c.set(0));
}

/// Peak of (allocated - freed) bytes on this thread since `reset`, and the largest single request.
pub fn peak() -> (usize, usize) {
    (PEAK.with(|c| c.get()).max(0) as usize, BIGGEST.with(|c| c.get()))
}
